"""Build every configuration, run reset + 3 random steps; print timing. Usage: smoke_cfgs.py ENV"""
import sys, time
from jmon.common import setup_jax
setup_jax()
import jax, jax.numpy as jnp, numpy as np
from jmon import envs
name = sys.argv[1]
for c in envs.configs(name, "thorough") + [c for c in envs.configs(name,"quick")]:
    t0 = time.time()
    try:
        env = envs.build(name, c)
        r = jax.jit(env.reset); s = jax.jit(env.step)
        st, ts = r(jax.random.PRNGKey(0)); jax.block_until_ready(st)
        t1 = time.time()
        a = env.action_spec.generate_value()
        st, ts = s(st, a); jax.block_until_ready(st)
        print(f"{name:20s} {c['id']:22s} ok build+reset {t1-t0:5.1f}s step {time.time()-t1:5.1f}s last={bool(ts.last())}", flush=True)
    except Exception as e:
        import traceback; traceback.print_exc()
        print(f"{name:20s} {c['id']:22s} FAILED {type(e).__name__}: {str(e)[:200]}", flush=True)
envs.cleanup()
