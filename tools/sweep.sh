#!/bin/bash
# usage: tools/sweep.sh TIER "C01 C02 ..." "0 1 2 3 4"   -> one line per (check, seed)
cd "$(dirname "$0")/.."
tier=$1; props=$2; seeds=$3
for p in $props; do for s in $seeds; do
  out=$(VERIF_SEED=$s ./check $p --tier $tier 2>&1 | grep -E "^(C[0-9]+ tier|VIOLATION|INCONCLUSIVE|KNOWN)" | tr '\n' ' ' | cut -c1-600)
  echo "$p seed=$s :: $out"
done; done
