"""Append configuration entries to jmon/envs.py CONFIGS: tools/add_cfg.py <Env> <tier|both> '<_c(...) , _c(...)>'"""
import sys
p = "/verif/jmon/envs.py"
s = open(p).read()
env, tiers, entry = sys.argv[1], sys.argv[2], sys.argv[3]
for tier in (("quick", "thorough") if tiers == "both" else (tiers,)):
    i = s.index(f'    "{env}": {{\n')
    j = s.index(f'"{tier}": [', i)
    k = j + len(f'"{tier}": [')
    depth = 1
    while depth:
        depth += {"[": 1, "]": -1}.get(s[k], 0)
        k += 1
    b = k - 1
    while s[b - 1] in " \n\t":
        b -= 1
    s = s[:b] + ("" if s[b - 1] == "," else ",") + " " + entry + s[b:]
open(p, "w").write(s)
