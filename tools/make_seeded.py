"""Build /verif/seeded/<name>/ (patch.diff, demo.py, NOTES.md, meta.json) from .work/mut/<name>/ and the verification logs,
and print the DESIGN table 'which checks catch which changes'."""
import glob, json, os, re, shutil, sys
ROOT = os.path.dirname(os.path.dirname(os.path.abspath(__file__)))
logs = sorted(glob.glob(os.path.join(ROOT, ".work", "verify_batch*.log")))
results = {}
for lg in logs:
    cur = None
    txt = open(lg).read()
    # blocks start with "demo clean="; the mutant name is not printed, so recover the order from the batch script
    script = lg.replace("verify_batch", "run_verify_batch").replace(".log", ".sh")
    names = re.findall(r"verify_mutant.sh \S+ (\S+) \"([^\"]+)\"", open(script).read())
    blocks = re.split(r"(?m)^(?=demo clean=)", txt)
    blocks = [b for b in blocks if b.startswith("demo clean=")]
    for (name, props), b in zip(names, blocks):
        r = {"demo": re.search(r"demo clean=(\d+) mutated=(\d+)", b).groups(), "tests": (re.search(r"tests: (.*)", b) or [None, "not run in this pass"])[1] if re.search(r"tests: (.*)", b) else "not re-run (patch unchanged since the pass that ran them)",
             "files": (re.search(r"files: (.*)", b) or [None, ""])[1].strip(), "checks": {}}
        for m in re.finditer(r"--- (C\d+):\n((?:.*\n)*?)(?=--- C\d+:|\Z)", b):
            body = m.group(2)
            v = re.findall(r"VIOLATION property=\S+ replay=\S+/(C\d+-[^/]+)-[0-9a-f]{10}\.json", body)
            verdict = re.search(r"tier=\w+ seed=\d+: (\w+)", body)
            r["checks"][m.group(1)] = {"verdict": verdict.group(1) if verdict else ("violated" if v else "?"), "clauses": sorted(set(v))[:6]}
        base = re.sub(r"b$", "", name)
        if base in results:  # a later pass (after strengthening a check) overrides per-check results
            results[base]["checks"].update(r["checks"])
            if "not re-run" not in r["tests"]:
                results[base]["tests"] = r["tests"]
        else:
            results[base] = r
props = {json.loads(l)["id"]: json.loads(l) for l in open(os.path.join(ROOT, "properties.jsonl"))}
# changes the target check missed on its first pass, and what was added to the machinery (the re-run is recorded above)
STRENGTHENED = {
    "C02_m1": "first missed by C02 (argument snapshots used jax-array states only): added eager steps on writable NumPy copies of the state",
    "C02_m2": "first missed by C02: added the clause 'a result handed out earlier is not touched by a later eager call' + eager history independence",
    "C14_m2": "first missed by C14 (render clause ran only on the rollout configurations): added a render/slice shard on configurations with unit-length axes (1 agent, 1 city, 1 block)",
    "C15_m1": "first missed by C15 (re-seeding was only tried with non-zero seeds): added reset(seed=0) on a used adapter",
    "C05_m2": "first missed by C05 quick (caught by C09): probe density of C05 doubled so that the nearly-full-row state is enumerated",
    "C07_m1": "first missed by C07 quick (caught by C09): LBF 'collide' policy now also plays chain collisions (a third agent stepping into the cell a contender fails to leave)",
    "C09_m2": "first missed by C09/C07 quick (fruit lands under the head in ~0.5% of fruit events on 12x12): added the 3x4 Snake configuration with many fruit events",
    "C10_m2": "first missed by C10 (all shipped Sudoku databases are int8): added user databases in uint8 / int64",
    "C11_m1": "first missed by C11 quick (no non-square Cleaner/Maze configuration with the default time limit on the quick tier): added r4c7 / r7c4 configurations",
    "C01_r2m2": "first missed by C01 quick (the halved MultiCVRP local_times bound is only exceeded on instances whose depot lies far from the customers, ~1-5% of keys): C01 now searches 64 reset keys with the model's key_score and plays the shuttle (greedy/lazy) workloads on the highest-scoring ones; thorough already caught it",
    "C02_r2m2": "first missed by C02 (no configuration used non-default reward coefficients and no other instance of the class was built in between): added a Connector configuration with custom coefficients and 'sibling instances' (default / other configurations of the same class) constructed and stepped right before every new trace",
    "C03_r2m2": "first missed by C03 (a cube must become solved on the very step that reaches the limit): added RubiksCube configurations whose scramble length equals the time limit (n2s1L1, n3s2L2), solved by the model's complete policy",
    "C07_r2m2": "first missed by C07 quick (the quick Tetris boards were taller than wide, where the wrong axis only makes pieces float; caught by C09): added a wide board (5x8)",
    "C11_r2m1": "first missed by C11 (no 3-vehicle MultiCVRP configuration and no workload that never finishes the tour): added c6v3 and the 'lazy' all-depot policy",
    "C15_r2m1": "first missed by C15 (random/masked play through the adapters never completes a Minesweeper game; C01 caught the spec bound): the adapters are now also driven by the models' complete/frontier workloads",
    "C15_r2m2": "first missed by C15 (the short-limit PacMan configuration never reaches rows 28-29; C01 caught it): C15 quick also runs the default maze with the frontier workload",
    "C16_r2m2": "first missed by C16 (specs with different child sets were treated as outside the statement): added the clause 'a nested spec must not compare equal to itself plus one more child' (raising is tolerated, True is not)",
    "C18_r2m1": "first missed by C18 (duplicate registrations were only tried under the canonical spelling): duplicates are now also registered with leading zeros in the version",
    "C18_r2m2": "first missed by C18 (Sudoku-v0 and Sudoku-very-easy-v0 were made in different worker processes): added a shard that makes every shipped id in one process in reverse registry order and re-checks the documented configuration (incl. 'mixed database has boards with < 46 clues')",
    "C13_r2m2": "a change to VmapAutoResetWrapper (jnp.all instead of jnp.any): not visible to C13 (AutoResetWrapper itself is untouched) and caught by C14; kept as a duplicate witness of C14_m1's mechanism",
    # ---- round 3 (first result = quick tier of the machinery as it stood when the change arrived; see DESIGN §10b)
    "C01_r3m2": "not run against the earlier machinery: after reading the author's summary (non-normalised LBF reward becomes int32 only when `penalty` is a Python int) configurations with int-typed constructor arguments were added (LBF / Cleaner penalty, Knapsack budget, Connector coefficients, Minesweeper rewards); the earlier matrix only had penalty=1.0 and would have missed it",
    "C02_r3m1": "not run against the earlier machinery: eager steps were only taken on states of random/masked rollouts, where no food is ever loaded; C02 now collects the transitions in which something happens (non-zero reward or LAST under the models' own workloads) and executes them eagerly, repeated, re-ordered and vmapped on every shard",
    "C02_r3m2": "not run against the earlier machinery: every instance was built from a freshly loaded database, so a constructor that decrements its caller's NumPy array in place was invisible; mutable constructor arguments are now created once per process, shared by all instances of a configuration and snapshotted (clause constructor_argument_mutated) - the fresh-instance comparison then fails as well",
    "C03_r3m1": "not run against the earlier machinery: no workload ever cleared a PacMan maze; added a small maze with a long limit and a pellet-eating workload protected by a 3-step look-ahead through the real vmapped step (clears the maze in ~110 steps)",
    "C03_r3m2": "first missed by C03 (a dead-locked MMST team - every unfinished agent without a legal move - only occurs late in 0.1% of random episodes): added the blockade workload (one agent boxed in at its start node, found by a key search over 64 instances); hundreds of MID steps with an all-False mask per run",
    "C06_r3m1": "caught by C06 and C10 on the first run, which already had the user-container CSV configuration added after reading the author's summary (the earlier matrix only used the default 20-ft container and would have missed it); the BinPack model now also compares state.container with the configured container_dims",
    "C06_r3m2": "first missed by C06 quick (three agents tying for one node needs three agents adjacent to it: 0.05% of random default episodes): the collide workload now sends every agent that may enter the most contested node there, runs 5x as many episodes (POLICY_WEIGHT), and small dense graphs with 3 and 4 agents were added; caught on seeds 0-3",
    "C07_r3m1": "first missed by C07, C09 and C05 quick (needs a box parked on a target and a second box pushed against it): the harness Sokoban generator now also serves tactical levels that start in exactly such situations (agent behind a box whose next cell holds a box / a box on a target / a wall / a target / nothing / the grid edge; four directions)",
    "C08_r3m1": "not run against the earlier machinery (no episode ever merged two tiles >= 2048): added the 6x6 board with a 5000-move planner-driven run (reaches 4096/8192), the prefix clause of C08 (score so far == rewards so far on episodes cut by the step cap) and rows with exponents up to 17 in C09's synthetic part",
    "C08_r3m2": "not run against the earlier quick matrix (penalty 0.0 only existed on the thorough tier): Cleaner penalty_per_timestep=0.0 added to the quick tier",
    "C10_r3m1": "first missed by C10 quick (0.66% of keys at split_num_same_items=7, a value no configuration used): split 7 / 12 configurations and 600 (quick) / 3000 (thorough) keys per generator configuration, 1500 / 6000 for this one; an intermediate time-boxed key count missed it again on a loaded machine and was replaced by fixed counts",
    "C10_r3m2": "not run against the earlier quick matrix (all quick RobotWarehouse floors were taller than wide; the thorough tier had a 6x10 floor with 2 agents): wide floors with 4-5 agents added to both tiers",
    "C11_r3m1": "first missed by C11 (no environment was ever built through jumanji.make with an override; C18 caught it): make_id configurations (registered kwargs + caller override) added for the time-limited ids",
    "C11_r3m2": "first missed by C11 (the MMST generator was always built with max_step == time_limit): a configuration with a shorter route buffer added, restricted to C01/C03/C11 (DESIGN §9b)",
    "C13_r3m1": "first missed by C13 (the wrapped object was always a bare environment, for which unwrapped is the environment itself): a user-defined Wrapper that rewrites observations, and MultiToSingleWrapper, now sit between the auto-reset wrappers and the environment in extra C13/C14 shards",
    "C13_r3m2": "first missed by C13 (the short time limits chosen for C13 end every Tetris episode at the limit; the key is only clobbered when a piece is dropped into a full column): runs with mixed endings (invalid move / completion / limit) added",
    "C14_r3m2": "first missed by C14 (batch sizes 3 quick / 1,2,5,8 thorough; the defect needs a multiple of 32 >= 64): big-batch shards (64 quick; 32-256 thorough) on environments whose episodes end at random times",
    "C15_r3m1": "first missed by C15 (the adapters were only driven over the default sum/max aggregation, whose discounts are 0 or 1): adapters are now also driven over MultiToSingleWrapper with mean aggregation (fractional discounts counted)",
    "C15_r3m2": "first missed by C15 (2-3 resets per adapter): 70 (quick) / 300 (thorough) resets on one adapter object against the documented key schedule",
    "C16_r3m1": "first missed by C16 (values were always NumPy arrays): plain Python scalars and nested lists added (fractions for integer specs, ints for boolean specs, negatives for unsigned specs), judged after jnp.asarray as the statement says",
    "C17_r3m1": "first missed by C17 (is_solved was probed on make_solved_cube and on single-sticker swaps only): on even sizes the whole-cube rotations are built with the reference permutations and must be accepted by is_solved and reported as solved by step",
    "C17_r3m2": "first missed by C17 (all sliding-tile transitions were taken far below the time limit; C09 caught it): walks with L in {1,2,5,12,500} compare every move up to, on and after the step that reaches the limit",
    "C18_r3m1": "first missed by C18 (override values were always non-zero ints): None, 0, False, '', () as registered and override values",
    "C18_r3m2": "first missed by C18 (no registered kwargs held a mutable object shared with the caller): user registrations with a generator object for nine environments; make(id), make(id, time_limit=L2), make(id) again, each re-traced and compared with directly constructed environments",
    "C19_r3m2": "first missed by C19 (variant leaves were NumPy arrays, so a JAX-only code path was never entered, and cross-dtype values were small): the equality laws also run on JAX-array leaves; cross-dtype near-miss pairs with an exact Python-arithmetic oracle",
    # ---- round 4 (DESIGN §10c)
    "C02_r4m1": "not run against the earlier machinery: no library wrapper was ever used on the environment object under test; C02 now calls AutoResetWrapper / VmapAutoResetWrapper (with next_obs_in_extras) eagerly and under jit on the same object between the first and the repeated calls",
    "C02_r4m2": "not run against the earlier machinery: environments were never passed as a static jit argument; C02 now routes sibling instances (other configurations, the same configuration with time_limit 2 / 3) and then the environment through one jax.jit(..., static_argnums=0) function and compares with the environment's own jit",
    "C03_r4m1": "not run against the earlier machinery: no configuration plugged a user DoneFn / RewardFn in; custom-component configurations (Python bool / float returning) added for C01-C03",
    "C03_r4m2": "first missed by C03 (no player ever filled a Snake board): Hamiltonian-cycle player + 2x3 / 3x4 / 4x4 boards",
    "C04_r4m1": "not run against the earlier machinery: the shipped CVRP generator never produces a zero-demand customer; a padded harness generator (subclass of UniformGenerator, a third of the customers with demand 0) added",
    "C04_r4m2": "caught by C02 (argument_mutated, and the new clause same_state_stepped_twice_in_one_trace): a step that updates its argument in place is a purity defect; under separately jitted calls - the only way C04 executes steps - it is unobservable, as its author notes",
    "C05_r4m2": "first missed by C05 / C09 / C04 (during per-agent probes the other agents stood still, so nobody ate the food the deviating agent pushed into): partners now also play their last (LBF: load) and a random masked-in action",
    "C06_r4m2": "not caught by the quick tier (needs a puzzle with >= 128 blocks, a 3-minute shard): caught by the thorough tier through the 8x16-block light configuration; first attempts with the full model workloads did not finish in 15 minutes",
    "C07_r4m2": "not run against the earlier machinery (body longer than 127 needs a board of >= 128 cells played almost to the end): 8x17 board with a 9500-step Hamiltonian run on both tiers",
    "C08_r4m1": "first missed by C08 / C09 (colour-reusing players never end with as many colours as nodes on sparse graphs): rainbow workload",
    "C08_r4m2": "first missed by C08 (the CSV instances were written from a RandomGenerator instance, i.e. perfect cuts of the container): loose CSV instances (all boxes fit with room to spare), dense and sparse",
    "C09_r4m2": "not run against the earlier machinery: weights were uniform floats or dyadic grid values, for which the two budget computations agree bit for bit; decimal 'catalogue' weights (multiples of 0.05) added, exact fits up to round-off are counted",
    "C10_r4m1": "not run against the earlier machinery: food counts were 1-3; configurations with the largest food count the constructor accepts (8x8/6, 10x10/12) added with 3000 keys",
    "C11_r4m1": "first missed by C11 and C03 (the last food must be eaten on exactly the step that reaches the limit): coincidence episodes - natural end step S found with a generous limit, then the same key and actions replayed with time_limit = S",
    "C11_r4m2": "first missed by C11 (limits were always built-in ints): NumPy / JAX scalar limits for all 12 time-limited environments",
    "C12_r4m2": "first missed by C12 (the Knapsack observer only compared copied fields; C04 caught it): the mask is now recomputed from the state's own float32 numbers",
    "C13_r4m1": "first missed by C13 (no player ever filled a Snake board under the wrapper): wrapper runs driven by the models' completing workloads",
    "C13_r4m2": "first missed by C13 (a delivery must fall on the very step that ends the episode, and two such events are needed to see equal keys): runs whose limit is the step of the first reward of that key, and a comparison of derived keys across runs started from different keys",
    "C14_r4m1": "first missed by C14 (each wrapper object only ever saw one batch size): the wrapper objects are reset with a larger and then a smaller batch before the first step is traced",
    "C14_r4m2": "first missed by C14 (legacy PRNGKey arrays only): typed keys (jax.random.key) through render of both batched wrappers",
    "C16_r4m2": "first missed by C16 (num_values <= 8 and dtypes int8 / int32 only): num_values spanning the whole range of int8 / uint8 / int16",
    "C17_r4m2": "first missed by C17 quick (the board 0..8 in reading order is one of 181 440 and lies 22 moves from the goal; the thorough tier's full sweep reaches it): ordered-looking non-goal boards are entered from each neighbour on every tier, bounded sweeps of 4x4 / 5x5 added",
    "C18_r4m1": "first missed by C18 (all probe registrations used distinct class names): a second module with a class of the same name",
    "C18_r4m2": "first missed by C18 (keyword values were scalars): NumPy / JAX arrays and tuples as registered and override values",
    "C19_r4m1": "first run inconclusive (the changed helper broke an environment that uses it, a harness exception) - counted as a miss: elements in wider dtypes than the tree's leaves are now written directly",
    "C19_r4m2": "first missed by C19 (no signed zeros): 0.0 vs -0.0 pairs on NumPy and JAX leaves",
    "C01_r5m1": "first missed by C01 quick (food levels above the agent levels need the high-level LBF generator settings): LBF configurations with max_agent_level 3 / 4 and co-operative foods (ml3, ml4coop)",
    "C02_r5m1": "first missed by C02 (steps outside jit were short chains on traced-style states; the FlatPack episode has to reach its last step in plain Python execution): steps under jax.disable_jit() and eager chains of 6 / 12 steps that run to the end of short episodes",
    "C02_r5m2": "first missed by C02 (argument snapshots were taken around jitted and op-by-op eager calls, where .at[].set never writes in place): the same snapshots around steps executed under jax.disable_jit() - this also exposed a real defect in BinPack.step (repaired, repo 52385967)",
    "C04_r5m2": "first missed by C04 quick (mask from the previous floor only differs when a neighbour has just moved away or in): 'convoy' workload - robots driving nose to tail along the aisles",
    "C05_r5m1": "first missed by C05 quick (a masked FORWARD into a cell that its occupant leaves in the same step): the same 'convoy' workload as probe base, all partners acting",
    "C06_r5m2": "first missed by C06 (every Knapsack generator used the environment's nominal budget): harness generator with per-instance budgets (var12b3)",
    "C08_r5m2": "first missed by C08 (every environment got its own reward object): one reward object shared by two environments of different size, the sibling traced first",
    "C11_r5m1": "first missed by C11 (all limits were even / round numbers; the changed comparison is off only for some odd limits): odd limits 41 / 47 / 55 / 61 / 97",
    "C12_r5m2": "first missed by C12 (no grid-observer LBF run in which an agent steps on the cell of an eaten food): freed-cell stepping in the LBF completing workload + a grid-observer configuration",
    "C13_r5m1": "closed before the first run after reading the change summary (solved puzzles were not reached under AutoReset): policy-complete shards for SlidingTilePuzzle, RubiksCube, Maze, Cleaner",
    "C13_r5m2": "as C13_r5m1 (RubiksCube n2s3L7 solved by the model's inverse word)",
    "C14_r5m2": "first missed by C14 (render was handed device arrays only): host-side render of states whose leaves are NumPy arrays",
    "C15_r5m2": "first missed by C15 (one adapter alive at a time): several adapters built on the same environment object and used alternately",
    "C16_r5m2": "first missed by C16 (nested values had exactly the spec's fields or were of another type): values with a superset / subset of the fields",
    "C17_r5m1": "first missed by C17 (RubiksCube ran with the shipped sparse reward only): dense fraction-in-place and move-penalty reward functions; a quarter turn away from the goal and back must give MID then LAST",
    "C19_r5m1": "first missed by C19 (every tree of a batch had its own leaf objects): the same tree repeated and trees sharing some leaf objects (what state.replace gives), generated and real states",
    "C19_r5m2": "first missed by C19 (compared dicts were built in the same key order): identical / one-element-different nests whose dicts are built in the reverse insertion order",
    "C01_r6m1": "first missed by C01 (every BinPack container had its length as largest dimension, or normalised dimensions): raw-dimension configuration with container (1000, 1200, 2000)",
    "C03_r6m1": "first missed by C03 (steps after LAST replayed the episode's policy, a solver never plays an illegal move): every other post-terminal step is a uniformly random in-spec action",
    "C04_r6m1": "not caught by C04 (the mask agrees with the EMS rows that are shown); caught by C12, where the rule 'the observed EMSs are the largest live ones' is checked (obs_largest_ems_selected, obs_ems_sorted_by_volume)",
    "C06_r6m1": "first missed by C06 quick (largest GraphColoring instance on the quick tier had 20 nodes; colour indices >= 32 need more than 32 nodes): 40-node configuration on both tiers",
    "C10_r6m1": "first missed by C10 (the harness's own CSV round trip used unique item names): a repeated name with different sizes",
    "C10_r6m2": "first missed by C10 quick (no Minesweeper board with more than 256 cells on the quick tier): 16x17/40 board (generator, physical-consistency and spec checks only)",
    "C11_r6m1": "first run inconclusive (machine overload), then missed by C11 (no explicit limit above 255: an 8-bit step counter wraps): limits of 300 on Sokoban, Maze, Cleaner, Connector, RubiksCube, Tetris",
    "C12_r6m1": "first run inconclusive (machine overload: shard time-outs); caught by the unchanged C12 check on the re-run",
    "C13_r6m1": "first missed by C13 (the limit-at-first-reward shards used LBF with two foods: eating the first does not complete the level): one-food LBF configuration, completion and time limit on the same step",
    "C13_r6m2": "first missed by C13 (Knapsack shards used budgets for which a trivial instance - all items fit - is practically never drawn): 8 items / budget 3 through the wrapper for hundreds of steps",
    "C15_r6m1": "first missed by C15 (aggregators were default (sum, max), first-agent and mean): a zero-propagating discount aggregator (min) on Connector episodes long enough for agents to connect mid-episode, counter gym_steps_zero_discount_not_last",
    "C15_r6m2": "first missed by C15/C01 (every LBF configuration had sight range >= grid size or >= 3 agents): 10x10 grid, 2 agents, fov 3 (view coordinates above every level)",
    "C16_r6m2": "first missed by C16 (copies - pickle, deepcopy, replace - were compared and validated but never asked to generate): generate_value of every copy must be a member of the original",
    "C17_r6m1": "first missed by C17 (the random cube steps stopped at the first LAST): half of the runs keep stepping after LAST and compare with the physical turn",
    "C17_r6m2": "first missed by C17 (generator outputs checked up to 5x5): resets of 12x12 and 16x16 puzzles (tile numbers beyond 8 bits)",
    "C18_r6m1": "first missed by C18 (generated names never contained one another): ids that are substrings of registered ids (shorter version prefix, name suffix)",
    "C18_r6m2": "first missed by C18 (make(id) was compared with make(id) in the same process history): fingerprint of make(id) after building sibling configurations (incl. RobotWarehouse floors of equal size but other column height) against the fingerprint from a fresh process",
    "C19_r6m1": "first missed by C19 (finite leaves only): float leaves with an infinite entry",
    "C19_r6m2": "first missed by C19 (perturbations were +1 / other dtype): every element moved to the next representable float",
    "C19_m2": "caught by the symmetric-comparison clause; the variant 'other dtype and a value the cast would destroy' was added to make the hit direct",
}
rows = []
for name, r in sorted(results.items()):
    src = os.path.join(ROOT, ".work", "mut", name)
    if not os.path.isdir(src):
        continue
    pid = name.split("_")[0]
    ok_demo = r["demo"] == ("0", "1")
    ok_tests = "same failure set as baseline" in r["tests"]
    dst = os.path.join(ROOT, "seeded", name)
    caught = [c for c, x in r["checks"].items() if x["verdict"] == "violated"]
    missed = [c for c, x in r["checks"].items() if x["verdict"] != "violated"]
    if ok_demo and ok_tests:
        os.makedirs(dst, exist_ok=True)
        for f in ("patch.diff", "demo.py", "NOTES.md"):
            if os.path.exists(os.path.join(src, f)):
                shutil.copy(os.path.join(src, f), os.path.join(dst, f))
        notes = open(os.path.join(src, "NOTES.md")).read() if os.path.exists(os.path.join(src, "NOTES.md")) else ""
        meta = {
            "name": name, "breaks_property": pid, "property_title": props[pid]["title"], "files_changed": r["files"].split(),
            "origin": "written by a fresh sub-agent that was given only the text of the property and its own scratch worktree",
            "needs_to_manifest": notes.strip()[:1500],
            "verified_by_lead": {
                "how": "tools/verify_mutant.sh in a scratch worktree of /repo HEAD: demo on the clean tree, demo with the patch, unedited test-suite compared with the baseline failure set (whole suite; from round 5 batch 2 on, for a change confined to one environment package the tests that can import it - that package, the top-level suites, jumanji/testing, jumanji/training, environments/commons - see existing_tests), then ./check <P> --tier quick with JMON_REPO=<worktree>",
                "demo_exit_clean": int(r["demo"][0]), "demo_exit_with_patch": int(r["demo"][1]), "existing_tests": r["tests"],
            },
            "checks_run": r["checks"], "caught_by": caught, "not_caught_by": missed,
        }
        if name in STRENGTHENED:
            meta["machinery_strengthened"] = STRENGTHENED[name]
        json.dump(meta, open(os.path.join(dst, "meta.json"), "w"), indent=1)
    rows.append((name, pid, r["files"], ok_demo, ok_tests, caught, missed, r["checks"]))
print("| change | breaks | file(s) | demo ok | tests unchanged | caught by (quick) | not caught by |")
print("|---|---|---|---|---|---|---|")
for name, pid, files, d, t, caught, missed, checks in rows:
    cl = "; ".join(f"{c}: {', '.join(x.split('-', 2)[-1] if x.count('-')>=2 else x for x in checks[c]['clauses'][:2])}" for c in caught)
    print(f"| {name} | {pid} | {files.replace('jumanji/', '')} | {'yes' if d else 'NO'} | {'yes' if t else 'NO'} | {cl or '-'} | {', '.join(missed) or '-'} |")
