"""Build /verif/seeded/<name>/ (patch.diff, demo.py, NOTES.md, meta.json) from .work/mut/<name>/ and the verification logs,
and print the DESIGN table 'which checks catch which changes'."""
import glob, json, os, re, shutil, sys
ROOT = os.path.dirname(os.path.dirname(os.path.abspath(__file__)))
logs = sorted(glob.glob(os.path.join(ROOT, ".work", "verify_batch*.log")))
results = {}
for lg in logs:
    cur = None
    txt = open(lg).read()
    # blocks start with "demo clean="; the mutant name is not printed, so recover the order from the batch script
    script = lg.replace("verify_batch", "run_verify_batch").replace(".log", ".sh")
    names = re.findall(r"verify_mutant.sh \S+ (\S+) \"([^\"]+)\"", open(script).read())
    blocks = re.split(r"(?m)^(?=demo clean=)", txt)
    blocks = [b for b in blocks if b.startswith("demo clean=")]
    for (name, props), b in zip(names, blocks):
        r = {"demo": re.search(r"demo clean=(\d+) mutated=(\d+)", b).groups(), "tests": (re.search(r"tests: (.*)", b) or [None, "not run in this pass"])[1] if re.search(r"tests: (.*)", b) else "not re-run (patch unchanged since the pass that ran them)",
             "files": (re.search(r"files: (.*)", b) or [None, ""])[1].strip(), "checks": {}}
        for m in re.finditer(r"--- (C\d+):\n((?:.*\n)*?)(?=--- C\d+:|\Z)", b):
            body = m.group(2)
            v = re.findall(r"VIOLATION property=\S+ replay=\S+/(C\d+-[^/]+)-[0-9a-f]{10}\.json", body)
            verdict = re.search(r"tier=\w+ seed=\d+: (\w+)", body)
            r["checks"][m.group(1)] = {"verdict": verdict.group(1) if verdict else ("violated" if v else "?"), "clauses": sorted(set(v))[:6]}
        base = re.sub(r"b$", "", name)
        if base in results:  # a later pass (after strengthening a check) overrides per-check results
            results[base]["checks"].update(r["checks"])
            if "not re-run" not in r["tests"]:
                results[base]["tests"] = r["tests"]
        else:
            results[base] = r
props = {json.loads(l)["id"]: json.loads(l) for l in open(os.path.join(ROOT, "properties.jsonl"))}
# changes the target check missed on its first pass, and what was added to the machinery (the re-run is recorded above)
STRENGTHENED = {
    "C02_m1": "first missed by C02 (argument snapshots used jax-array states only): added eager steps on writable NumPy copies of the state",
    "C02_m2": "first missed by C02: added the clause 'a result handed out earlier is not touched by a later eager call' + eager history independence",
    "C14_m2": "first missed by C14 (render clause ran only on the rollout configurations): added a render/slice shard on configurations with unit-length axes (1 agent, 1 city, 1 block)",
    "C15_m1": "first missed by C15 (re-seeding was only tried with non-zero seeds): added reset(seed=0) on a used adapter",
    "C05_m2": "first missed by C05 quick (caught by C09): probe density of C05 doubled so that the nearly-full-row state is enumerated",
    "C07_m1": "first missed by C07 quick (caught by C09): LBF 'collide' policy now also plays chain collisions (a third agent stepping into the cell a contender fails to leave)",
    "C09_m2": "first missed by C09/C07 quick (fruit lands under the head in ~0.5% of fruit events on 12x12): added the 3x4 Snake configuration with many fruit events",
    "C10_m2": "first missed by C10 (all shipped Sudoku databases are int8): added user databases in uint8 / int64",
    "C11_m1": "first missed by C11 quick (no non-square Cleaner/Maze configuration with the default time limit on the quick tier): added r4c7 / r7c4 configurations",
    "C01_r2m2": "first missed by C01 quick (the halved MultiCVRP local_times bound is only exceeded on instances whose depot lies far from the customers, ~1-5% of keys): C01 now searches 64 reset keys with the model's key_score and plays the shuttle (greedy/lazy) workloads on the highest-scoring ones; thorough already caught it",
    "C02_r2m2": "first missed by C02 (no configuration used non-default reward coefficients and no other instance of the class was built in between): added a Connector configuration with custom coefficients and 'sibling instances' (default / other configurations of the same class) constructed and stepped right before every new trace",
    "C03_r2m2": "first missed by C03 (a cube must become solved on the very step that reaches the limit): added RubiksCube configurations whose scramble length equals the time limit (n2s1L1, n3s2L2), solved by the model's complete policy",
    "C07_r2m2": "first missed by C07 quick (the quick Tetris boards were taller than wide, where the wrong axis only makes pieces float; caught by C09): added a wide board (5x8)",
    "C11_r2m1": "first missed by C11 (no 3-vehicle MultiCVRP configuration and no workload that never finishes the tour): added c6v3 and the 'lazy' all-depot policy",
    "C15_r2m1": "first missed by C15 (random/masked play through the adapters never completes a Minesweeper game; C01 caught the spec bound): the adapters are now also driven by the models' complete/frontier workloads",
    "C15_r2m2": "first missed by C15 (the short-limit PacMan configuration never reaches rows 28-29; C01 caught it): C15 quick also runs the default maze with the frontier workload",
    "C16_r2m2": "first missed by C16 (specs with different child sets were treated as outside the statement): added the clause 'a nested spec must not compare equal to itself plus one more child' (raising is tolerated, True is not)",
    "C18_r2m1": "first missed by C18 (duplicate registrations were only tried under the canonical spelling): duplicates are now also registered with leading zeros in the version",
    "C18_r2m2": "first missed by C18 (Sudoku-v0 and Sudoku-very-easy-v0 were made in different worker processes): added a shard that makes every shipped id in one process in reverse registry order and re-checks the documented configuration (incl. 'mixed database has boards with < 46 clues')",
    "C13_r2m2": "a change to VmapAutoResetWrapper (jnp.all instead of jnp.any): not visible to C13 (AutoResetWrapper itself is untouched) and caught by C14; kept as a duplicate witness of C14_m1's mechanism",
    "C19_m2": "caught by the symmetric-comparison clause; the variant 'other dtype and a value the cast would destroy' was added to make the hit direct",
}
rows = []
for name, r in sorted(results.items()):
    src = os.path.join(ROOT, ".work", "mut", name)
    if not os.path.isdir(src):
        continue
    pid = name.split("_")[0]
    ok_demo = r["demo"] == ("0", "1")
    ok_tests = "same failure set as baseline" in r["tests"]
    dst = os.path.join(ROOT, "seeded", name)
    caught = [c for c, x in r["checks"].items() if x["verdict"] == "violated"]
    missed = [c for c, x in r["checks"].items() if x["verdict"] != "violated"]
    if ok_demo and ok_tests:
        os.makedirs(dst, exist_ok=True)
        for f in ("patch.diff", "demo.py", "NOTES.md"):
            if os.path.exists(os.path.join(src, f)):
                shutil.copy(os.path.join(src, f), os.path.join(dst, f))
        notes = open(os.path.join(src, "NOTES.md")).read() if os.path.exists(os.path.join(src, "NOTES.md")) else ""
        meta = {
            "name": name, "breaks_property": pid, "property_title": props[pid]["title"], "files_changed": r["files"].split(),
            "origin": "written by a fresh sub-agent that was given only the text of the property and its own scratch worktree",
            "needs_to_manifest": notes.strip()[:1500],
            "verified_by_lead": {
                "how": "tools/verify_mutant.sh in a scratch worktree of /repo HEAD: demo on the clean tree, demo with the patch, full unedited test-suite (-n 8) compared with the baseline failure set, then ./check <P> --tier quick with JMON_REPO=<worktree>",
                "demo_exit_clean": int(r["demo"][0]), "demo_exit_with_patch": int(r["demo"][1]), "existing_tests": r["tests"],
            },
            "checks_run": r["checks"], "caught_by": caught, "not_caught_by": missed,
        }
        if name in STRENGTHENED:
            meta["machinery_strengthened"] = STRENGTHENED[name]
        json.dump(meta, open(os.path.join(dst, "meta.json"), "w"), indent=1)
    rows.append((name, pid, r["files"], ok_demo, ok_tests, caught, missed, r["checks"]))
print("| change | breaks | file(s) | demo ok | tests unchanged | caught by (quick) | not caught by |")
print("|---|---|---|---|---|---|---|")
for name, pid, files, d, t, caught, missed, checks in rows:
    cl = "; ".join(f"{c}: {', '.join(x.split('-', 2)[-1] if x.count('-')>=2 else x for x in checks[c]['clauses'][:2])}" for c in caught)
    print(f"| {name} | {pid} | {files.replace('jumanji/', '')} | {'yes' if d else 'NO'} | {'yes' if t else 'NO'} | {cl or '-'} | {', '.join(missed) or '-'} |")
