#!/bin/bash
# usage: tools/verify_r3.sh <batchno> <PID> "<props for m1>" "<props for m2>"   (round-3 sub-agent output in /tmp/r5/out/<PID>/m1,m2)
cd "$(dirname "$0")/.."
b=$1; pid=$2; p1=$3; p2=$4
mkdir -p .work/mut
: > .work/run_verify_batch$b.sh
echo "cd /verif" >> .work/run_verify_batch$b.sh
for m in 1 2; do
  src=/tmp/r5/out/$pid/m$m; name=${pid}_r5m$m
  [ -f $src/patch.diff ] || continue
  rm -rf .work/mut/$name; cp -r $src .work/mut/$name
  props=$p1; [ $m = 2 ] && props=$p2
  echo "tools/verify_mutant.sh .work/mut/$name $name \"$props\"" >> .work/run_verify_batch$b.sh
done
bash .work/run_verify_batch$b.sh > .work/verify_batch$b.log 2>&1
