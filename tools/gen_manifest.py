"""Regenerate MANIFEST.json from the table below (keeps it valid against the schema)."""
import json, os, subprocess, sys
ROOT = os.path.dirname(os.path.dirname(os.path.abspath(__file__)))
BASELINE = json.load(open("/root/.vp/BASELINE.json"))["cmd"] if os.path.exists("/root/.vp/BASELINE.json") else "cd /repo && /venv/bin/python -m pytest -ra -q -p no:cacheprovider --timeout=900 --continue-on-collection-errors"
BASELINE = BASELINE.replace(" --junitxml=<file>", "")

CHECKS = {
 "C01": dict(tech="runtime monitor: independent NumPy spec-membership oracle on every emitted timestep + jax.eval_shape per configuration",
             text="Exploration: every timestep (reset, mid, terminal incl. time-limit boundary) of rollouts under 7 policies over the configuration matrix is tested against the declared specs by an independent membership test; the shape/dtype half is decided for all keys/states of each configuration by eval_shape. Sampling of keys/actions, so 'held on what was observed'.",
             note="Trusts NumPy comparison semantics and that jit outputs equal what users see; Sokoban default generator (network) not explored.", ref="§3 C01"),
}
PENDING_REASON = "check not implemented yet in this revision of /verif (runtime monitor planned in DESIGN.md §3); not claimed until it runs silent on the unchanged tree"

def main():
    impl = [p for p in sorted(CHECKS) if os.path.exists(os.path.join(ROOT, "jmon", "props", p.lower() + ".py"))]
    checks = []
    for p in impl:
        c = CHECKS[p]
        checks.append({
            "property_id": p,
            "quick_cmd": f"./check {p} --tier quick",
            "thorough_cmd": f"./check {p} --tier thorough",
            "evidence_file": f"evidence/{p}.json",
            "replay_cmd_template": f"./check {p} --replay {{path}}",
            "engine": "jmon",
            "level_claimed": {"category": "exploration", "text": c["text"], "design_ref": c["ref"]},
            "level_note": c["note"],
            "technique": c["tech"],
        })
    na = [{"property_id": f"C{i:02d}", "reason": PENDING_REASON} for i in range(1, 20) if f"C{i:02d}" not in impl]
    hooks_commits = []
    m = {
        "version": 1,
        "setup_cmd": "./setup.sh",
        "hooks": {
            "guard": "JUMANJI_VERIF",
            "enable": "exported by ./check (JUMANJI_VERIF=1); no guarded source hook exists in /repo: every observation point is a public return value, the monitors live in /verif/jmon",
            "baseline_off_cmd": BASELINE,
            "source_commits": hooks_commits,
            "add_only": True,
        },
        "engines": [{"name": "jmon", "path": "jmon/", "serves_properties": impl,
                     "kind_free_text": "runtime monitoring: real reset/step/wrapper/spec/registry code driven by generated workloads in sharded subprocesses; boundary recorders, reference-model / invariant / differential monitors, icontract contracts"}],
        "checks": checks,
        "notes": "Technique family: runtime monitoring. Exit 0 held / 1 VIOLATION (unlisted) / 2 inconclusive (coverage floor missed or worker crash). known_findings.json lists recorded defects by mechanism; fix: commits in /repo are recorded there as 'fixed:' lines.",
        "not_applicable": na,
    }
    with open(os.path.join(ROOT, "MANIFEST.json"), "w") as f:
        json.dump(m, f, indent=1)
    import jsonschema
    jsonschema.validate(m, json.load(open(os.path.join(ROOT, "schemas", "MANIFEST.schema.json"))))
    print("MANIFEST.json written:", len(checks), "checks,", len(na), "not_applicable")

if __name__ == "__main__":
    main()
