"""Regenerate MANIFEST.json from the table below (keeps it valid against the schema)."""
import json, os, subprocess, sys
ROOT = os.path.dirname(os.path.dirname(os.path.abspath(__file__)))
BASELINE = json.load(open("/root/.vp/BASELINE.json"))["cmd"] if os.path.exists("/root/.vp/BASELINE.json") else "cd /repo && /venv/bin/python -m pytest -ra -q -p no:cacheprovider --timeout=900 --continue-on-collection-errors"
BASELINE = BASELINE.replace(" --junitxml=<file>", "")

CHECKS = {
 "C01": dict(tech="runtime monitor: independent NumPy spec-membership oracle on every emitted timestep + jax.eval_shape per configuration",
             text="Exploration: every timestep (reset, mid, terminal incl. time-limit boundary) of rollouts under 7 policies over the configuration matrix (thorough: plus random configurations per seed, very large instances and long planner-driven episodes) is tested against the declared specs by an independent membership test; the shape/dtype half is decided for all keys/states of each configuration by eval_shape. Sampling of keys/actions, so 'held on what was observed'.",
             note="Trusts NumPy comparison semantics and that jit outputs equal what users see; Sokoban default generator (network) not explored.", ref="§3 C01"),
 "C02": dict(tech="differential runtime monitor: repeated / reordered / fresh-instance calls and eager vs jit vs vmap vs scan executions compared; argument snapshots; jaxpr effect inspection",
             text="Exploration: for sampled calls (reset keys; states at t=0, mid-episode, before LAST; legal and illegal actions) of every environment the result digests are compared across call histories on one object (incl. library wrappers used on the same object), fresh instances sharing their mutable constructor arguments, the environment as a static jit argument next to sibling instances, one state stepped twice in one trace, and the four execution modes; transitions in which something happens are executed eagerly; caller pytrees are snapshotted around eager calls; jaxprs must be effect-free.",
             note="Float leaves across differently compiled programs use rtol 1e-5; a one-time lazy-cache change of the env object is tolerated.", ref="§3 C02"),
 "C03": dict(tech="runtime monitor: trace automaton over step_type / reward / discount of whole episodes incl. post-terminal steps",
             text="Exploration: every timestep of episodes under 6 policies over the configuration matrix (single- and multi-agent shapes, tiny time limits so that LAST-by-limit and LAST-by-other-reason both occur), plus 4 steps after LAST, is run through the FIRST/MID*/LAST automaton with the reward/discount clauses; includes user RewardFn/DoneFn components, dead-locked teams, cleared mazes / filled boards and episodes whose natural end falls exactly on the time-limit step.",
             note="LBF truncation at its time limit is the only documented LAST with non-zero discount.", ref="§3 C03"),
 "C04": dict(tech="runtime monitor: action mask vs independent NumPy rule sheet on every visited state + enumeration of every action's reaction at probed states",
             text="Exploration over the 21 masked environments: mask == rules entry by entry on all visited non-terminal states; at probed states (nearly every state for small action spaces: the probe budget is counted in branch steps) every action (<=512; stratified sample beyond; per-agent single deviations with passive, loading and random partners) is stepped and the environment's reaction compared with the mask.",
             note="The rule sheets (DESIGN §4) are my reading of the documentation; PacMan's no-op column is not judged.", ref="§3 C04"),
 "C05": dict(tech="runtime monitor: documented effect of every rule-illegal action (enumerated at probed states) checked on (state, action, next state, timestep)",
             text="Exploration over the 20 environments of the statement: each illegal action met by probes / invalid-late rollouts is judged against the documented effect (terminate + reward + untouched state, or ignored move with position and holdings unchanged).",
             note="Legality comes from the independent rule sheet, not from the environment's own mask.", ref="§3 C05"),
 "C06": dict(tech="runtime invariant monitor: hard constraints recomputed from raw state arrays + shadow history after every mask-respecting step",
             text="Exploration over the 11 CO environments: feasibility after every step of mask-respecting episodes (random, first-fit, last-fit, complete, collide policies) and completeness of the final state of completed episodes.",
             note="Shadow state (routes, visited sets, busy intervals) is accumulated by the monitor from the action history.", ref="§3 C06"),
 "C07": dict(tech="runtime invariant monitor: physical consistency and conservation laws on every non-terminal state under arbitrary in-spec actions",
             text="Exploration over the 11 grid/game environments incl. non-square and tiny grids and all agent counts; entities inside the true grid, exclusivity, uniqueness, position/grid agreement, conserved quantities.",
             note="States of LAST timesteps are exempt as the quantifier says.", ref="§3 C07"),
 "C08": dict(tech="runtime monitor: episode return vs objective recomputed in float64 from the final state; dense vs sparse replay of the same trajectory",
             text="Exploration: naturally ended mask-respecting episodes (masked, greedy, complete policies) of the listed environments; return == documented objective; same key and actions under the other reward function give the same return.",
             note="Episodes ended by invalid action / time limit are outside the statement unless documented.", ref="§3 C08"),
 "C09": dict(tech="reference-model monitor: independent pure-NumPy re-implementation of the published rules run in lock-step with the real step; synthetic inputs to public rule functions",
             text="Exploration over 17 rule-defined environments: every transition of rollouts and probe branches is predicted by the reference model (deterministic fields exactly, stochastic fields as membership), plus enumerated synthetic inputs (all 2048 rows of length<=5 over exponents 0..6, random Tetris stacks).",
             note="Reference written from docs/DESIGN §4; where docs are silent the reading is stated in the model.", ref="§3 C09"),
 "C10": dict(tech="runtime monitor on generator outputs: invariants and solvability certificates (BFS connectivity, parity, exact cover, disjoint paths) per reset key; key-dependence by digest counting",
             text="Exploration: all shipped offline generators x size matrix (thorough: plus random configurations) x 600 (quick) / 3000 (thorough) keys per configuration (more where a configuration asks for it); plus generate_solution feasibility for BinPack.",
             note="Sokoban dataset generators need the network (not explored). Known open findings are listed in known_findings.json.", ref="§3 C10"),
 "C11": dict(tech="runtime monitor: index of the first LAST timestep vs configured time limit / structural horizon, with a survive policy using real one-step look-ahead",
             text="Exploration: time_limit in {1,2,3,7,odd 41-97,300,default} (built-in ints, NumPy / JAX scalars, and through jumanji.make overrides) on the 12 time-limited environments (never later; earlier only with a model-computed other end reason; natural end replayed exactly on the limit step) and the structural horizon of the 10 others; decided on logical step counts.",
             note="Very long default limits are only checked for 'never earlier' on the quick tier.", ref="§3 C11"),
 "C12": dict(tech="runtime monitor: independent NumPy observer recomputes each observation from the state returned with it",
             text="Exploration over all environments and observer/normalisation switches: every (state, observation) pair of rollouts is compared with the documented function of the state.",
             note="Mask contents are C04's job; here only the copy.", ref="§3 C12"),
 "C13": dict(tech="differential runtime monitor: AutoResetWrapper.step vs env.step / env.reset on derived keys, side by side; loop vs scan vs vmap; shadow key history",
             text="Exploration on every environment (short-episode configurations, runs with mixed end reasons, completing players that solve the puzzles (Snake, Sudoku, Minesweeper, SlidingTilePuzzle, RubiksCube, Maze, Cleaner), Knapsack instances that are trivial, a rewarded event (and the completion of a one-food LBF level) on the very step that ends the episode, user wrappers and MultiToSingleWrapper in between), both next_obs_in_extras settings, runs spanning many episodes under python loop, lax.scan and vmap; derived keys compared within and across runs.",
             note="Fresh key accepted = split/fold_in of the terminal state's key; never the terminal or original key.", ref="§3 C13"),
 "C14": dict(tech="differential runtime monitor: VmapWrapper vs per-instance; VmapAutoResetWrapper vs VmapWrapper(AutoResetWrapper) on deliberately desynchronised batches; termination-pattern counting; recording render stub",
             text="Exploration on every environment, batch sizes 3 (quick) / 1,2,5,8 (thorough) plus big batches (64 quick; 32-256 thorough) on environments whose episodes end at random times, >=50 consecutive batched steps with none/some/all terminations all observed; the same wrapper objects used with other batch sizes; render with legacy and typed keys and with host-side (NumPy-leaf) states.",
             note="Float tolerance only across differently compiled programs.", ref="§3 C14"),
 "C15": dict(tech="differential runtime monitor: Gym / dm_env / MultiToSingle adapters vs the native API on the documented key schedule; space/spec membership",
             text="Exploration on every environment (multi-agent behind MultiToSingle with default and fractional aggregators), several seeds, resets and steps, 70/300 resets of one adapter object against the documented key schedule, several adapters alive on one environment object, a zero-propagating discount aggregator on Connector; terminated/truncated semantics, FIRST conventions, re-seeding, sampled actions, aggregators.",
             note="gym actions are judged after the adapter's own jnp.asarray conversion.", ref="§3 C15"),
 "C16": dict(tech="property-style runtime harness with an independent membership model + icontract contracts on the real spec methods (also under the repository's own specs tests)",
             text="Exploration: hundreds (quick) / thousands (thorough) of generated leaf and nested specs x ~20 related operations each, boundary-adjacent values for every dtype (NumPy arrays, Python scalars and nested lists), full-range narrow-dtype discrete specs, values generated by pickled / deep-copied / replaced copies, and all specs of the 23 environments.",
             note="NaN and cross-class equality are outside the statement; subnormal neighbours are replaced by the smallest normal (XLA flushes subnormals).", ref="§3 C16"),
 "C17": dict(tech="exhaustive runtime enumeration against a geometric reference: every cube move on distinct-sticker cubes (sizes 2..7); BFS of the whole 2x2/3x3 sliding-puzzle state space through the real step",
             text="Per (size, move) one execution on a distinct-label cube fixes the permutation for every colouring, so the cube-move part is universal; group identities, is_solved, encodings and generator reachability are checked on the same executions; rotated goals on even cube sizes; termination under user reward functions; steps after LAST; 12x12/16x16 resets; sliding puzzles 2x2 fully, 3x3 fully on the thorough tier, bounded sweeps of 4x4/5x5, ordered-looking non-goal boards, moves on and after the time-limit step.",
             note="Geometric reference uses the documented face/view conventions.", ref="§3 C17"),
 "C18": dict(tech="runtime contracts + generated id strings and register/make sequences against an independent id grammar; probe environment class recording constructor arguments",
             text="Exploration: thousands of generated ids (allowed / disallowed alphabets, huge versions), random register/make/duplicate sequences with registry snapshots (None / falsy / array-valued kwargs, same class name in two modules, ids that are substrings of registered ids), make(id) after sibling constructions against a fresh-process fingerprint, registrations holding shared generator objects (make, make with override, make again, all re-traced), and all shipped ids instantiated and compared across two make calls.",
             note="Sokoban-v0 needs its dataset (network) and is reported as not explored.", ref="§3 C18"),
 "C19": dict(tech="runtime contracts + law-based harness on generated pytrees and real environment states",
             text="Exploration: random nests (dict/list/tuple/namedtuple, rank 0-3, bool/int/float) and stacked real states of the 23 environments through transpose/slice/add_element/is_equal_pytree/assert helpers (NumPy and JAX leaves, wider element dtypes, promotion-lossy cross-dtype pairs, signed zeros, infinities, next-representable floats, leaf objects shared between the trees of a batch, dicts built in another key order), judged by NumPy / exact Python oracles.",
             note="NaN leaves are not generated.", ref="§3 C19"),
}
READY = [f"C{i:02d}" for i in range(1, 20)]
PENDING_REASON = "check not implemented yet in this revision of /verif (runtime monitor planned in DESIGN.md §3); not claimed until it runs silent on the unchanged tree"

def main():
    impl = [p for p in sorted(CHECKS) if p in READY and os.path.exists(os.path.join(ROOT, "jmon", "props", p.lower() + ".py"))]
    checks = []
    for p in impl:
        c = CHECKS[p]
        checks.append({
            "property_id": p,
            "quick_cmd": f"./check {p} --tier quick",
            "thorough_cmd": f"./check {p} --tier thorough",
            "evidence_file": f"evidence/{p}.json",
            "replay_cmd_template": f"./check {p} --replay {{path}}",
            "engine": "jmon",
            "level_claimed": {"category": "exploration", "text": c["text"], "design_ref": c["ref"]},
            "level_note": c["note"],
            "technique": c["tech"],
        })
    na = [{"property_id": f"C{i:02d}", "reason": PENDING_REASON} for i in range(1, 20) if f"C{i:02d}" not in impl]
    hooks_commits = []
    m = {
        "version": 1,
        "setup_cmd": "./setup.sh",
        "hooks": {
            "guard": "JUMANJI_VERIF",
            "enable": "exported by ./check (JUMANJI_VERIF=1); no guarded source hook exists in /repo: every observation point is a public return value, the monitors live in /verif/jmon",
            "baseline_off_cmd": BASELINE,
            "source_commits": hooks_commits,
            "add_only": True,
        },
        "engines": [{"name": "jmon", "path": "jmon/", "serves_properties": impl,
                     "kind_free_text": "runtime monitoring: real reset/step/wrapper/spec/registry code driven by generated workloads in sharded subprocesses; boundary recorders, reference-model / invariant / differential monitors, icontract contracts"}],
        "checks": checks,
        "notes": "Technique family: runtime monitoring. Exit 0 held / 1 VIOLATION (unlisted) / 2 inconclusive (coverage floor missed or worker crash). known_findings.json lists recorded defects by mechanism; fix: commits in /repo are recorded there as 'fixed:' lines.",
        "not_applicable": na,
    }
    with open(os.path.join(ROOT, "MANIFEST.json"), "w") as f:
        json.dump(m, f, indent=1)
    import jsonschema
    jsonschema.validate(m, json.load(open(os.path.join(ROOT, "schemas", "MANIFEST.schema.json"))))
    print("MANIFEST.json written:", len(checks), "checks,", len(na), "not_applicable")

if __name__ == "__main__":
    main()
