#!/bin/bash
# usage: tools/try_mutant.sh <patch dir or seeded name> "<props>" [only-filter] [tier]   -- quick re-check of a seeded change (no tests, no demo)
cd "$(dirname "$0")/.."
src=$1; [ -d "$src" ] || src=.work/mut/$1; [ -d "$src" ] || src=seeded/$1
src=$(realpath $src); props=$2; only=${3:-}; tier=${4:-quick}
wt=/tmp/tm_$(basename $src)_$$
git -C /repo worktree add -q $wt HEAD || exit 3
(cd $wt && git apply $src/patch.diff) || { git -C /repo worktree remove --force $wt; exit 3; }
for p in $props; do
  if [ -n "$only" ]; then
    JMON_REPO=$wt ./check $p --tier $tier --only "$only" 2>&1 | grep -E "^(C[0-9]+ tier|VIOLATION|INCONCLUSIVE|  env=)" | head -8 | cut -c1-330
  else
    JMON_REPO=$wt ./check $p --tier $tier 2>&1 | grep -E "^(C[0-9]+ tier|VIOLATION|INCONCLUSIVE|  env=)" | head -8 | cut -c1-330
  fi
done
git -C /repo worktree remove --force $wt
