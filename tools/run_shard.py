"""Run one shard in-process and print its counters / violations (debugging aid): tools/run_shard.py C08 quick "Game2048|b6" [seed]"""
import importlib, json, sys
from jmon.common import Report
prop, tier, sid = sys.argv[1], sys.argv[2], sys.argv[3]
seed = int(sys.argv[4]) if len(sys.argv) > 4 else 0
mod = importlib.import_module(f"jmon.props.{prop.lower()}")
sh = [s for s in mod.shards(tier, seed) if s["id"] == sid][0]
sh.update(tier=tier, seed=seed, prop=prop)
rep = Report(prop, sid)
mod.run_shard(sh, rep)
d = rep.to_json() if hasattr(rep, "to_json") else rep.__dict__
print(json.dumps({k: v for k, v in d["counters"].items() if not k.startswith("clause:" + sid.split("|")[0])}, indent=0)[:3000])
print("violations:", json.dumps(d["violations"][:3], default=str)[:2000])
