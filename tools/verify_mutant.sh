#!/bin/bash
# usage: tools/verify_mutant.sh <dir containing patch.diff and demo.py> <name> "<props to run>" [tier]
# Verifies in a scratch worktree: demo passes on clean tree, fails with the patch; existing tests unchanged; which checks fire.
set -u
src=$(realpath "$1"); name=$2; props=$3; tier=${4:-quick}
cd "$(dirname "$0")/.."
wt=/tmp/vm_$name
git -C /repo worktree remove --force $wt >/dev/null 2>&1
git -C /repo worktree add -q $wt HEAD || exit 3
run() { (cd $wt && PYTHONPATH=$wt timeout 900 /venv/bin/python "$@"); }
run $src/demo.py > $wt/.demo_clean.log 2>&1; c=$?
(cd $wt && git apply $src/patch.diff) || { echo "RESULT $name patch_does_not_apply"; git -C /repo worktree remove --force $wt; exit 3; }
run $src/demo.py > $wt/.demo_mut.log 2>&1; m=$?
echo "demo clean=$c mutated=$m ($(tail -1 $wt/.demo_mut.log | cut -c1-200))"
files=$(cd $wt && git diff --name-only | tr '\n' ' ')
echo "files: $files"
if [ "${SKIP_TESTS:-0}" != "1" ]; then
  # the baseline's failing tests are the network-dependent sokoban/registration ones: compare failure sets.
  # A change confined to one environment package can only reach the tests that import that package: its own tests, the top-level
  # suites (wrappers/specs/registration/tree_utils/env), jumanji/testing, jumanji/training and environments/commons - those are run
  # ("targeted"); a change anywhere else gets the whole suite ("full").
  scope=full; paths=""
  pk=$(cd $wt && git diff --name-only | sed -E 's#^(jumanji/environments/[a-z_]+/[a-z_0-9]+)/.*#\1#' | sort -u)
  if [ "${FULL_TESTS:-0}" != "1" ] && ! echo "$pk" | grep -qvE '^jumanji/environments/(logic|packing|routing)/[a-z_0-9]+$'; then
    scope=targeted; paths="$pk jumanji/env_test.py jumanji/wrappers_test.py jumanji/specs_test.py jumanji/registration_test.py jumanji/tree_utils_test.py jumanji/types_test.py jumanji/testing jumanji/training jumanji/environments/commons"
    paths=$(cd $wt && for q in $paths; do [ -e $q ] && echo $q; done | tr '\n' ' ')
  fi
  (cd $wt && PYTHONPATH=$wt timeout 3000 /venv/bin/python -m pytest -q -p no:cacheprovider -n ${TEST_N:-8} --timeout=900 --continue-on-collection-errors $paths > $wt/.pytest.log 2>&1)
  grep -E "^(FAILED|ERROR)" $wt/.pytest.log | sed 's/ - .*//' | sort > $wt/.fail.txt
  summary=$(grep -E "[0-9]+ passed" $wt/.pytest.log | tail -1)
  if [ -z "$summary" ]; then
    echo "tests: INCOMPLETE (no pytest summary line; scope=$scope)"
  elif [ -f .work/baseline_fail.txt ]; then
    d=$(diff .work/baseline_fail.txt $wt/.fail.txt | grep '^>' | head -5)
    [ -z "$d" ] && echo "tests: same failure set as baseline ($scope run: $summary; $(wc -l < $wt/.fail.txt) failures, all among the baseline's 11 network failures)" || echo "tests: NEW FAILURES: $d"
  else
    echo "tests: no baseline file"; cat $wt/.fail.txt | head
  fi
fi
for p in $props; do
  out=$(JMON_REPO=$wt ./check $p --tier $tier 2>&1 | grep -E "^(C[0-9]+ tier|VIOLATION|INCONCLUSIVE|  env=)" | head -7 | cut -c1-330)
  echo "--- $p:"; echo "$out"
done
git -C /repo worktree remove --force $wt
