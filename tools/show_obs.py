from jmon.common import setup_jax, decode
setup_jax()
import jax, numpy as np
from jmon import envs
for name in envs.ENVS:
    c = envs.configs(name,"quick")[0]
    env = envs.build(name, c)
    st, ts = jax.eval_shape(env.reset, jax.random.PRNGKey(0))
    a = env.action_spec
    print("==", name, "action:", type(a).__name__, a.shape, getattr(a,'num_values',None) if a.shape==() else np.asarray(a.maximum).tolist() if np.asarray(a.maximum).size<12 else '...', "reward", env.reward_spec.shape)
    leaves = jax.tree_util.tree_flatten_with_path(ts.observation)[0]
    from jmon.common import path_str
    print("   obs:", ", ".join(f"{path_str(p)}{tuple(l.shape)}{str(l.dtype)[:3]}" for p,l in leaves))
    leaves = jax.tree_util.tree_flatten_with_path(st)[0]
    print("   state:", ", ".join(f"{path_str(p)}{tuple(l.shape)}{str(l.dtype)[:3]}" for p,l in leaves))
    print("   extras:", list(ts.extras.keys()) if ts.extras else None)
