#!/bin/bash
# usage: tools/try_r6.sh <PID> "<props m1>" "<props m2>" [only1] [only2]   (round-6 sub-agent output in /tmp/r6/out/<PID>/m1,m2)
cd "$(dirname "$0")/.."
pid=$1
for m in 1 2; do
  src=/tmp/r6/out/$pid/m$m; name=${pid}_r6m$m
  [ -f $src/patch.diff ] || continue
  rm -rf .work/mut/$name; cp -r $src .work/mut/$name
  props=$2; only=$4; [ $m = 2 ] && props=$3 && only=$5
  echo "== $name"
  tools/try_mutant.sh $name "$props" "$only" | grep -E "VIOLATION|tier=|env=|INCONCL" | head -4 | cut -c1-260
done
