import numpy as np, jax, jax.numpy as jnp, warnings, collections
warnings.filterwarnings("ignore")
from jumanji.environments import RobotWarehouse
from jumanji.environments.routing.robot_warehouse.generator import RandomGenerator as RWG
def rw_obs(grid,ax,ay,adir,acar,sreq,highways,sr,i):
    H,W=grid.shape[1:]
    v=[ax[i],ay[i],int(acar[i])]+[int(adir[i]==d) for d in range(4)]+[int(highways[ax[i],ay[i]])]
    cells=[(ax[i]+dx,ay[i]+dy) for dx in range(-sr,sr+1) for dy in range(-sr,sr+1)]
    for (x,y) in cells:
        if (x,y)==(ax[i],ay[i]): 
            # self cell: skipped only if the agent layer shows self there
            a = grid[1,x,y]
            if a==i+1 or a==0: 
                if a==0: v+=[0]*5   # (would only happen in inconsistent state)
                continue
        a = grid[1,x,y] if (0<=x<H and 0<=y<W) else 0
        if a==0: v+=[0]*5
        elif a==i+1: pass
        else: v+=[1]+[int(adir[a-1]==d) for d in range(4)]
    for (x,y) in cells:
        s = grid[0,x,y] if (0<=x<H and 0<=y<W) else 0
        v+= [1,int(sreq[s-1])] if s>0 else [0,0]
    return v
def invariants(st,env):
    g=np.asarray(st.grid); ax=np.asarray(st.agents.position.x); ay=np.asarray(st.agents.position.y)
    sx=np.asarray(st.shelves.position.x); sy=np.asarray(st.shelves.position.y); req=np.asarray(st.shelves.is_requested); q=np.asarray(st.request_queue)
    out=[]
    n=len(ax); ns=len(sx)
    if sorted(g[1][g[1]>0].tolist())!=list(range(1,n+1)): out.append("agent layer ids")
    for i in range(n):
        if g[1,ax[i],ay[i]]!=i+1: out.append("agent pos")
    if sorted(g[0][g[0]>0].tolist())!=list(range(1,ns+1)): out.append("shelf layer ids")
    for k in range(ns):
        if g[0,sx[k],sy[k]]!=k+1: out.append("shelf pos")
    if len(set(q.tolist()))!=len(q): out.append("queue dup")
    if sorted(np.flatnonzero(req).tolist())!=sorted(q.tolist()): out.append("requested!=queue")
    return out
rng=np.random.default_rng(0); mm=collections.Counter(); tot=0; ev=collections.Counter()
for cfg in [(2,1,3,2,1,2),(1,3,3,2,1,2),(2,3,8,4,1,8),(1,3,3,3,2,4)]:
    env=RobotWarehouse(RWG(shelf_rows=cfg[0],shelf_columns=cfg[1],column_height=cfg[2],num_agents=cfg[3],sensor_range=cfg[4],request_queue_size=cfg[5]),time_limit=60)
    reset=jax.jit(env.reset); step=jax.jit(env.step); hw=np.asarray(env.highways)
    for ep in range(12):
        st,ts=reset(jax.random.PRNGKey(ep))
        while True:
            g=np.asarray(st.grid); ax=np.asarray(st.agents.position.x); ay=np.asarray(st.agents.position.y); ad=np.asarray(st.agents.direction); ac=np.asarray(st.agents.is_carrying); req=np.asarray(st.shelves.is_requested)
            if not ts.last():
                for i in range(cfg[3]):
                    exp=rw_obs(g,ax,ay,ad,ac,req,hw,cfg[4],i); got=np.asarray(ts.observation.agents_view[i]).tolist(); tot+=1
                    exp=exp+[0]*(len(got)-len(exp))
                    if exp!=got:
                        mm[("obs",cfg)]+=1
                        if sum(mm.values())<3: print("OBS MISMATCH",cfg,i,"\nexp",exp,"\ngot",got)
                for v in invariants(st,env): mm[("inv",v)]+=1
            if ts.last(): ev["last@%s"%("limit" if int(st.step_count)>=60 else "collision")]+=1; break
            act=rng.choice([0,1,1,1,2,3,4,4],cfg[3])
            st,ts=step(st,jnp.array(act,jnp.int32))
            ev["reward"]+=int(float(ts.reward)>0)
print("rw obs checked",tot,dict(mm),dict(ev))
