import numpy as np, jax, jax.numpy as jnp, warnings, collections, time
warnings.filterwarnings("ignore")
# LBF
from jumanji.environments.routing.lbf.generator import RandomGenerator as LG
for (g,na,nf,ml,fc) in [(5,1,1,2,False),(5,3,1,2,True),(6,4,2,3,False),(8,2,2,2,True),(8,4,6,2,False),(10,10,3,2,False),(7,14,2,2,False),(8,20,3,2,False)]:
    try:
        gen=LG(grid_size=g,num_agents=na,num_food=nf,fov=g,max_agent_level=ml,force_coop=fc)
        st=jax.jit(jax.vmap(gen))(jax.random.split(jax.random.PRNGKey(3),300))
        ap=np.asarray(st.agents.position); fp=np.asarray(st.food_items.position); al=np.asarray(st.agents.level); fl=np.asarray(st.food_items.level)
        bad=collections.Counter()
        for i in range(300):
            cells=[tuple(x) for x in ap[i]]+[tuple(x) for x in fp[i]]
            if len(set(cells))!=len(cells): bad["overlap"]+=1
            if (fp[i]<1).any() or (fp[i]>g-2).any(): bad["food on edge"]+=1
            if (ap[i]<0).any() or (ap[i]>g-1).any(): bad["agent oob"]+=1
            for a in range(nf):
                for b in range(a+1,nf):
                    if abs(fp[i,a]-fp[i,b]).sum()<=1: bad["adjacent food"]+=1
            if (fl[i]<1).any(): bad["food level<1"]+=1
            if (fl[i]>np.sort(al[i])[:3].sum()).any(): bad["food level>sum3"]+=1
            if (al[i]<1).any() or (al[i]>ml).any(): bad["agent level range"]+=1
        print("LBF",(g,na,nf,ml,fc),dict(bad))
    except AssertionError as e: print("LBF",(g,na,nf,ml,fc),"assert",str(e)[:60])
# Minesweeper
from jumanji.environments.logic.minesweeper.generator import UniformSamplingGenerator as MSG
for cfg in [(2,2,1),(2,2,3),(3,7,5),(10,10,10),(6,4,23),(4,4,0)]:
    gen=MSG(*cfg); st=jax.jit(jax.vmap(gen))(jax.random.split(jax.random.PRNGKey(3),300))
    m=np.asarray(st.flat_mine_locations); bad=sum(len(set(r))!=cfg[2] or (r<0).any() or (r>=cfg[0]*cfg[1]).any() for r in m)
    print("MS",cfg,"bad",bad,"distinct",len({r.tobytes() for r in m}))
# Sudoku DB conflicts
import os, jumanji
p=os.path.join(os.path.dirname(jumanji.__file__),"environments/logic/sudoku/data")
for f in ["1000_very_easy_puzzles.npy","10000_mixed_puzzles.npy"]:
    db=np.load(os.path.join(p,f)); bad=0
    for b in db:
        for k in range(9):
            for line in (b[k], b[:,k], b[3*(k//3):3*(k//3)+3, 3*(k%3):3*(k%3)+3].ravel()):
                v=line[line>0]
                if len(set(v))!=len(v): bad+=1
    print("Sudoku",f,db.shape,db.dtype,"min",db.min(),"max",db.max(),"conflicts",bad, "clues min/max",(db>0).sum((1,2)).min(),(db>0).sum((1,2)).max())
