import jax, jax.numpy as jnp, numpy as np, time
from jumanji.environments import *
env=PacMan(); step=jax.jit(env.step)
st,ts=env.reset(jax.random.PRNGKey(0))
print("start x(row),y(col):", int(st.player_locations.x), int(st.player_locations.y))
# actions: 0: row-1, 1: col-1, 2: row+1, 3: col+1
plan=[1]*4+[2]*3+[3]*3+[2]*3
for i,a in enumerate(plan):
    st,ts=step(st,jnp.int32(a))
    try: env.observation_spec.validate(ts.observation); ok="ok"
    except Exception as e: ok=str(e)[:120]
    print(i,a,"pos",int(st.player_locations.x), int(st.player_locations.y), int(ts.step_type), ok)
