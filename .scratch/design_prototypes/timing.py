import sys, time, jax, jax.numpy as jnp, numpy as np
import jumanji
from jumanji.environments import *
from jumanji.environments.routing.sokoban.generator import ToyGenerator as SokToy
name=sys.argv[1]
t0=time.time()
if name=="Sokoban": env=Sokoban(generator=SokToy())
else: env=getattr(jumanji.environments,name)()
t1=time.time()
reset=jax.jit(env.reset); step=jax.jit(env.step)
key=jax.random.PRNGKey(0)
st,ts=reset(key); jax.block_until_ready(st); t2=time.time()
a=env.action_spec.generate_value()
st2,ts2=step(st,a); jax.block_until_ready(st2); t3=time.time()
n=200
for i in range(n):
    st2,ts2=step(st,a)
jax.block_until_ready(st2); t4=time.time()
for i in range(20):
    r=reset(jax.random.PRNGKey(i))
jax.block_until_ready(r); t5=time.time()
# eager step
t6=time.time()
st3,ts3=env.step(st,a); jax.block_until_ready(st3); t7=time.time()
print(f"{name:20s} ctor {t1-t0:5.1f} resetJIT {t2-t1:5.1f} stepJIT {t3-t2:5.1f} step/call {(t4-t3)/n*1e3:7.2f}ms reset/call {(t5-t4)/20*1e3:7.2f}ms eager-step {t7-t6:5.2f}s")
