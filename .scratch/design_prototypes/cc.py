import time, jax, warnings
warnings.filterwarnings("ignore")
jax.config.update("jax_compilation_cache_dir", "/tmp/t/jaxcache")
jax.config.update("jax_persistent_cache_min_compile_time_secs", 0)
jax.config.update("jax_persistent_cache_min_entry_size_bytes", -1)
from jumanji.environments import BinPack
env=BinPack()
t=time.time(); s,ts=jax.jit(env.reset)(jax.random.PRNGKey(0)); jax.block_until_ready(s); print("reset",time.time()-t)
t=time.time(); s2,ts2=jax.jit(env.step)(s, env.action_spec.generate_value()); jax.block_until_ready(s2); print("step",time.time()-t)
