import sys, time, jax, jax.numpy as jnp, numpy as np, warnings
warnings.filterwarnings("ignore")
import jumanji
from jumanji.environments import *
from jumanji.environments.routing.sokoban.generator import ToyGenerator as SokToy
name=sys.argv[1]
env=Sokoban(generator=SokToy()) if name=="Sokoban" else getattr(jumanji.environments,name)()
key=jax.random.PRNGKey(0)
res=[]
for src in ["eager-reset","jit-reset"]:
    try:
        st,ts=(env.reset(key) if src=="eager-reset" else jax.jit(env.reset)(key))
        a=env.action_spec.generate_value()
        acts=jnp.stack([a]*3)
        def body(s,a):
            s2,t2=env.step(s,a); return s2,t2
        fs,tss=jax.jit(lambda s,acts: jax.lax.scan(body,s,acts))(st,acts)
        # vmap
        keys=jax.random.split(key,3)
        bs,bts=jax.jit(jax.vmap(env.reset))(keys)
        bs2,bts2=jax.jit(jax.vmap(env.step))(bs,acts)
        res.append(src+": ok")
    except Exception as e:
        res.append(src+": "+type(e).__name__+" "+str(e).split("\n")[0][:150])
print(name,res)
