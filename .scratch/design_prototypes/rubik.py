import numpy as np, jax, jax.numpy as jnp, warnings
warnings.filterwarnings("ignore")
from jumanji.environments.logic.rubiks_cube.utils import rotate_cube, flatten_action, unflatten_action
U,F,R,B,L,D=range(6)
def sticker_geom(n):
    # returns pos[face,r,c]=(x,y,z), normal[face]
    pos=np.zeros((6,n,n,3),int); nrm=np.zeros((6,3),int)
    for r in range(n):
        for c in range(n):
            pos[U,r,c]=(c,n-1-r,n-1)
            pos[F,r,c]=(c,0,n-1-r)
            pos[R,r,c]=(n-1,c,n-1-r)
            pos[B,r,c]=(n-1-c,n-1,n-1-r)
            pos[L,r,c]=(0,n-1-c,n-1-r)
            pos[D,r,c]=(c,r,0)
    nrm[U]=(0,0,1);nrm[F]=(0,-1,0);nrm[R]=(1,0,0);nrm[B]=(0,1,0);nrm[L]=(-1,0,0);nrm[D]=(0,0,-1)
    return pos,nrm
def rotmat(axis,k):
    # rotation by k*90deg counterclockwise (right-hand) about axis vector
    ax=np.array(axis); 
    def R90(v):
        return np.cross(ax,v)+ax*np.dot(ax,v)
    M=np.eye(3,dtype=int)
    for _ in range(k%4):
        M=np.array([R90(M[:,i]) for i in range(3)]).T
    return M
def ref_perm(n,face,depth,amount):
    # amount: 0 cw,1 ccw,2 half ; returns new_cube = old_cube[perm]
    pos,nrm=sticker_geom(n)
    ax=nrm[face]
    k={0:-1,1:1,2:2}[amount]  # cw looking at face = -90 about outward normal
    M=rotmat(ax,k)
    centre=(n-1)/2
    # layer selection: coordinate along ax
    idx={}
    for f in range(6):
        for r in range(n):
            for c in range(n):
                idx[(tuple(pos[f,r,c]),tuple(nrm[f]))]=(f,r,c)
    new=np.arange(6*n*n).reshape(6,n,n).copy()
    old=np.arange(6*n*n).reshape(6,n,n)
    for f in range(6):
        for r in range(n):
            for c in range(n):
                p=pos[f,r,c]; coord=int(np.dot(p,ax))
                layer = (n-1-depth) if ax.sum()>0 else -depth
                if coord!=layer: continue
                q=M@(p-centre)+centre; q=np.rint(q).astype(int); m=M@nrm[f]
                f2,r2,c2=idx[(tuple(q),tuple(m))]
                new[f2,r2,c2]=old[f,r,c]
    return new
bad=0;tot=0
for n in range(2,8):
    cube=jnp.arange(6*n*n,dtype=jnp.int32).reshape(6,n,n)
    rc=jax.jit(rotate_cube)
    for face in range(6):
        for depth in range(n//2):
            for amount in range(3):
                fa=flatten_action(jnp.array([face,depth,amount]),n)
                got=np.asarray(rc(cube,fa))
                exp=ref_perm(n,face,depth,amount)
                tot+=1
                if not (got==exp).all():
                    bad+=1
                    if bad<5: print("MISMATCH n",n,"face",face,"depth",depth,"amount",amount)
print("moves checked",tot,"mismatches",bad)
