import numpy as np, jax, jax.numpy as jnp, warnings, collections
warnings.filterwarnings("ignore")
from jumanji.environments import JobShop
from jumanji.environments.packing.job_shop.generator import RandomGenerator as JG, ToyGenerator
class Ref:
    def __init__(s,mach,dur):
        s.mach=mach; s.dur=dur; s.J,s.O=mach.shape; s.M=None
    def legal(s,S):
        J,O=s.J,s.O; M=len(S["mj"]); L=np.zeros((M,J+1),bool); L[:,J]=True
        for m in range(M):
            for j in range(J):
                rem=[o for o in range(O) if S["mask"][j,o]]
                if not rem: continue
                o=rem[0]
                running=any(S["mj"][k]==j and S["rt"][k]>0 for k in range(M))
                L[m,j]= S["rt"][m]==0 and s.mach[j,o]==m and not running
        return L
rng=np.random.default_rng(0); mm=collections.Counter(); tot=0; ev=collections.Counter()
for gen in [ToyGenerator(), JG(2,2,2,2), JG(5,3,4,3), JG(20,10,8,6)]:
    env=JobShop(gen); reset=jax.jit(env.reset); step=jax.jit(env.step); J,Mn,O,D=env.num_jobs,env.num_machines,env.max_num_ops,env.max_op_duration
    for ep in range(10):
        st,ts=reset(jax.random.PRNGKey(ep)); R=0; t=0
        mach=np.asarray(st.ops_machine_ids); dur=np.asarray(st.ops_durations); ref=Ref(mach,dur)
        policy = ["greedy","random","lazy"][ep%3]
        while True:
            S=dict(mask=np.asarray(st.ops_mask),mj=np.asarray(st.machines_job_ids),rt=np.asarray(st.machines_remaining_times))
            L=ref.legal(S); m=np.asarray(ts.observation.action_mask); tot+=1
            if not (L==m).all(): mm["mask"]+=1
            if ts.last(): break
            act=[]
            for k in range(Mn):
                idx=np.flatnonzero(m[k,:J])
                if policy=="greedy": act.append(idx[0] if len(idx) else J)
                elif policy=="random": act.append(rng.choice(np.flatnonzero(m[k])))
                else: act.append(idx[0] if (len(idx) and (t%2==0)) else J)
            # dedupe same job on two machines impossible by rule
            st,ts=step(st,jnp.array(act,jnp.int32)); R+=float(ts.reward); t+=1
        # feasibility + makespan
        sched=np.asarray(st.scheduled_times); done_all=not np.asarray(st.ops_mask).any()
        fin=-1
        for j in range(J):
            prev_end=0
            for o in range(O):
                if mach[j,o]<0: continue
                if sched[j,o]<0: continue
                if sched[j,o]<prev_end: mm["precedence"]+=1
                prev_end=sched[j,o]+dur[j,o]; fin=max(fin,prev_end)
        iv=collections.defaultdict(list)
        for j in range(J):
            for o in range(O):
                if mach[j,o]>=0 and sched[j,o]>=0: iv[mach[j,o]].append((sched[j,o],sched[j,o]+dur[j,o]))
        for k,l in iv.items():
            l.sort()
            for a,b in zip(l,l[1:]):
                if b[0]<a[1]: mm["machine overlap"]+=1
        pen=-J*O*D
        if done_all and all(np.asarray(st.machines_remaining_times)==0) and abs(R-(-fin))>1e-6 and R>pen: mm["return!=-makespan (%s,%s)"%(R,fin)]+=1
        ev["complete" if done_all else "idle-penalty" if R<=pen else "other"]+=1
        if t> dur[dur>0].sum()+1: mm["horizon"]+=1
print("jobshop states",tot,dict(mm),dict(ev))
