import numpy as np, jax, warnings, time, sys, collections
warnings.filterwarnings("ignore")
sys.setrecursionlimit(10000)
from jumanji.environments.packing.flat_pack.generator import RandomFlatPackGenerator
def tiling(blocks,R,C,boxed,cap=300000):
    N=len(blocks)
    # placements indexed by the cell that is row-major-first of the placed shape
    by_first=collections.defaultdict(list)
    for b in range(N):
        seen=set()
        for k in range(4):
            m=np.rot90(blocks[b],-k)!=0
            cells=np.argwhere(m)
            cells=cells-cells.min(0) if not boxed else cells
            key=(tuple(map(tuple,cells)))
            if key in seen and not boxed: continue
            seen.add(key)
            rr=range(R-2) if boxed else range(-2,R)
            cc=range(C-2) if boxed else range(-2,C)
            for r in rr:
                for c in cc:
                    pts=cells+np.array([r,c])
                    if (pts<0).any() or (pts[:,0]>=R).any() or (pts[:,1]>=C).any(): continue
                    mask=0
                    for (y,x) in pts: mask|=1<<(int(y)*C+int(x))
                    first=min(int(y)*C+int(x) for (y,x) in pts)
                    by_first[first].append((b,mask))
    full=(1<<(R*C))-1; nodes=[0]
    def rec(occ,used):
        nodes[0]+=1
        if nodes[0]>cap: return None
        if occ==full: return True
        # first empty
        inv=~occ&full; first=(inv&-inv).bit_length()-1
        for (b,mask) in by_first.get(first,()):
            if used>>b&1 or mask&occ: continue
            r=rec(occ|mask,used|1<<b)
            if r: return True
            if r is None: return None
        return False
    return rec(0,0),nodes[0]
for (rb,cb) in [(2,2),(3,2),(5,5),(4,6)]:
    gen=RandomFlatPackGenerator(rb,cb); g=jax.jit(gen.__call__)
    R,C=2*rb+1,2*cb+1
    for boxed in (False,True):
        t=time.time(); res=collections.Counter(); mx=0
        for s in range(20):
            bl=np.asarray(g(jax.random.PRNGKey(s)).blocks)
            ok,n=tiling(list(bl),R,C,boxed); res[str(ok)]+=1; mx=max(mx,n)
        print((rb,cb),"boxed" if boxed else "free",dict(res),"max nodes",mx,"time",round(time.time()-t,1))
