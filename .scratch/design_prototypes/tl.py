import sys, numpy as np, jax, jax.numpy as jnp, warnings, collections
warnings.filterwarnings("ignore")
import jumanji
from jumanji.environments import *
from jumanji import specs
from jumanji.environments.routing.sokoban.generator import ToyGenerator as SokToy
name=sys.argv[1]
def mk(L):
    return {"RubiksCube":lambda:RubiksCube(time_limit=L),"SlidingTilePuzzle":lambda:SlidingTilePuzzle(time_limit=L),"Tetris":lambda:Tetris(time_limit=L),
     "Cleaner":lambda:Cleaner(time_limit=L),"Connector":lambda:Connector(time_limit=L),"LevelBasedForaging":lambda:LevelBasedForaging(time_limit=L),
     "Maze":lambda:Maze(time_limit=L),"MMST":lambda:MMST(time_limit=L),"PacMan":lambda:PacMan(time_limit=L),"RobotWarehouse":lambda:RobotWarehouse(time_limit=L),
     "Snake":lambda:Snake(time_limit=L),"Sokoban":lambda:Sokoban(SokToy(),time_limit=L)}[name]()
rng=np.random.default_rng(0)
def act(env,ts):
    spec=env.action_spec; m=getattr(ts.observation,"action_mask",None)
    if m is not None:
        m=np.asarray(m)
        if isinstance(spec,specs.DiscreteArray):
            idx=np.flatnonzero(m); return jnp.asarray(rng.choice(idx) if len(idx) else 0,spec.dtype)
        if m.ndim==2 and spec.shape==(m.shape[0],):
            return jnp.asarray([(rng.choice(np.flatnonzero(r)) if r.any() else 0) for r in m],spec.dtype)
        idx=np.argwhere(m); return jnp.asarray(idx[rng.integers(len(idx))],spec.dtype)
    if isinstance(spec,specs.DiscreteArray): return jnp.asarray(rng.integers(0,spec.num_values),spec.dtype)
    lo=np.broadcast_to(np.asarray(spec.minimum),spec.shape); hi=np.broadcast_to(np.asarray(spec.maximum),spec.shape)
    return jnp.asarray(rng.integers(lo,hi+1),spec.dtype)
out=[]
for L in (1,2,3,7):
    env=mk(L); r=jax.jit(env.reset); s=jax.jit(env.step); ends=collections.Counter()
    for ep in range(6):
        st,ts=r(jax.random.PRNGKey(ep)); t=0
        while not ts.last() and t<L+3:
            st,ts=s(st,act(env,ts)); t+=1
        ends[t if ts.last() else "never"]+=1
    out.append((L,dict(ends)))
print(name,out)
