import numpy as np, jax, jax.numpy as jnp, warnings, collections
warnings.filterwarnings("ignore")
from jumanji.environments.packing.tetris import utils as tu
from jumanji.environments.packing.tetris.constants import TETROMINOES_LIST
T=np.array(TETROMINOES_LIST)
def cells(piece): return [(r,c) for r in range(4) for c in range(4) if piece[r,c]]
def fits(grid,piece,y,x):
    R,C=grid.shape
    for (r,c) in cells(piece):
        rr,cc=y+r,x+c
        if cc<0 or cc>=C or rr>=R: return False
        if rr>=0 and grid[rr,cc]: return False
    return True
def ref_legal(grid,piece,x):
    # piece can descend from fully above the board down to y=0
    return all(fits(grid,piece,y,x) for y in range(-4,1))
def ref_drop(grid,piece,x):
    y=0
    while fits(grid,piece,y+1,x): y+=1
    g=grid.copy()
    for (r,c) in cells(piece): g[y+r,x+c]=1
    full=g.all(1); n=int(full.sum())
    keep=g[~full]; g2=np.vstack([np.zeros((n,g.shape[1]),int),keep])
    return g2,n,y
rng=np.random.default_rng(0)
mask_fn=jax.jit(lambda gp,t: jax.vmap(tu.tetromino_action_mask,in_axes=(None,0))(gp,t))
place=jax.jit(tu.place_tetromino); clean=jax.jit(tu.clean_lines)
mm=collections.Counter(); tot=0
for trial in range(400):
    R,C=[(4,4),(6,5),(10,10),(5,12)][trial%4]
    # random stack: heights per column
    grid=np.zeros((R,C),int)
    for c in range(C):
        h=rng.integers(0,R+1) if rng.random()<0.5 else rng.integers(0,R//2+1)
        for r in range(R-h,R): grid[r,c]= 1 if rng.random()<0.85 else 0
    # avoid already-full lines
    for r in range(R):
        if grid[r].all(): grid[r,rng.integers(C)]=0
    gp=np.zeros((R+3,C+3),int); gp[:R,:C]=grid
    ti=rng.integers(7)
    m=np.asarray(mask_fn(jnp.array(gp),jnp.array(T[ti])))
    for rot in range(4):
        for x in range(C):
            tot+=1
            leg=ref_legal(grid,T[ti,rot],x)
            if bool(m[rot,x])!=leg: mm["mask"]+=1; 
            if leg:
                g2,n,y=ref_drop(grid,T[ti,rot],x)
                gpn,yy=place(jnp.array(gp),jnp.array(T[ti,rot]),x)
                gpn=np.asarray(gpn); full=(gpn[:,:C]!=0).all(1)
                out=np.asarray(clean(jnp.array(gpn),jnp.array(full)))
                got=(out[:R,:C]>0).astype(int)
                if not (got==g2).all(): 
                    mm["drop"]+=1
                    if mm["drop"]<3: print("DROP MISMATCH",R,C,ti,rot,x,"\n",grid,"\nexp\n",g2,"\ngot\n",got)
                if (out[R:,:]!=0).any() or (out[:,C:]!=0).any(): mm["padding dirty"]+=1
print("checked",tot,dict(mm))
