import jax, jax.numpy as jnp, numpy as np
import jumanji
from jumanji.environments import *
from jumanji.environments.routing.robot_warehouse.generator import RandomGenerator as RWG
key = jax.random.PRNGKey(0)
env = RobotWarehouse(RWG(shelf_rows=1, shelf_columns=3, column_height=3, num_agents=2, sensor_range=1, request_queue_size=2))
step = jax.jit(env.step)
found=False
for s in range(200):
    st, ts = env.reset(jax.random.PRNGKey(s))
    # find agent standing on a shelf cell
    g=np.asarray(st.grid)
    for a in range(2):
        x=int(st.agents.position.x[a]); y=int(st.agents.position.y[a])
        if g[0,x,y]>0:
            # toggle load for agent a
            act=[0,0]; act[a]=4
            st2, ts2 = step(st, jnp.array(act))
            carrying=int(st2.agents.is_carrying[a])
            # now NOOP
            st3, ts3 = step(st2, jnp.array([0,0]))
            print("seed",s,"agent",a,"pos",(x,y),"highway",bool(env.highways[x,y]),"carrying after toggle",carrying,"after NOOP",int(st3.agents.is_carrying[a]), "last?", int(ts2.step_type), int(ts3.step_type))
            found=True; break
    if found: break
