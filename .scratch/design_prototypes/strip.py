import sys
for fn in sys.argv[1:]:
    print("#### "+fn)
    src=open(fn).read().split('\n')
    out=[];indoc=False
    for l in src:
        s=l.strip()
        if indoc:
            if '"""' in s: indoc=False
            continue
        if s.startswith('"""') or s.startswith('r"""'):
            if s.count('"""')==1: indoc=True
            continue
        if not s or s.startswith('#'): continue
        out.append(l)
    print('\n'.join(out))
