import sys, time, jax, jax.numpy as jnp, numpy as np, warnings
warnings.filterwarnings("ignore")
import jumanji
from jumanji.environments import *
from jumanji.environments.routing.sokoban.generator import ToyGenerator as SokToy
from jumanji import specs
name=sys.argv[1]
env=Sokoban(generator=SokToy()) if name=="Sokoban" else getattr(jumanji.environments,name)()
reset=jax.jit(env.reset); step=jax.jit(env.step)
rng=np.random.default_rng(0)
def sample_action(spec, mask):
    # uniform in-spec action
    if isinstance(spec, specs.DiscreteArray):
        return jnp.asarray(rng.integers(0, spec.num_values), spec.dtype)
    lo=np.broadcast_to(np.asarray(spec.minimum), spec.shape); hi=np.broadcast_to(np.asarray(spec.maximum), spec.shape)
    return jnp.asarray(rng.integers(lo, hi+1), spec.dtype)
def masked_action(spec, mask):
    mask=np.asarray(mask)
    if isinstance(spec, specs.DiscreteArray):
        idx=np.flatnonzero(mask)
        return jnp.asarray(rng.choice(idx) if len(idx) else 0, spec.dtype)
    if mask.ndim==2 and spec.shape==(mask.shape[0],):  # per-agent
        return jnp.asarray([ (rng.choice(np.flatnonzero(m)) if m.any() else 0) for m in mask], spec.dtype)
    idx=np.argwhere(mask)
    return jnp.asarray(idx[rng.integers(len(idx))] if len(idx) else np.zeros(spec.shape), spec.dtype)
issues={}
def chk(tag, fn):
    try: fn()
    except Exception as e:
        issues.setdefault(tag+": "+str(e).split("\n")[0][:140],0); issues[tag+": "+str(e).split("\n")[0][:140]]+=1
nsteps=0; nlast=0
for ep in range(int(sys.argv[2])):
    st,ts=reset(jax.random.PRNGKey(ep))
    chk("reset obs", lambda: env.observation_spec.validate(ts.observation))
    chk("reset rew", lambda: env.reward_spec.validate(ts.reward))
    chk("reset disc", lambda: env.discount_spec.validate(ts.discount))
    usemask = hasattr(ts.observation,"action_mask") and ep%2==0
    t=0
    while not ts.last() and t<int(sys.argv[3]):
        a = masked_action(env.action_spec, ts.observation.action_mask) if usemask else sample_action(env.action_spec,None)
        chk("action", lambda: env.action_spec.validate(a))
        st,ts=step(st,a); t+=1; nsteps+=1
        chk("step obs", lambda: env.observation_spec.validate(ts.observation))
        chk("step rew", lambda: env.reward_spec.validate(ts.reward))
        chk("step disc", lambda: env.discount_spec.validate(ts.discount))
    nlast+=int(ts.last())
print(name, "steps",nsteps,"episodes ended",nlast, issues)
