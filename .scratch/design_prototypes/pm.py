import numpy as np, jax, jax.numpy as jnp, warnings, collections
warnings.filterwarnings("ignore")
from jumanji.environments import PacMan
env=PacMan(); reset=jax.jit(env.reset); step=jax.jit(env.step)
rng=np.random.default_rng(0); mm=collections.Counter(); tot=0; ev=collections.Counter()
for ep in range(30):
    st,ts=reset(jax.random.PRNGKey(ep)); grid=np.asarray(st.grid); npel=int(st.pellets); score=0
    while not ts.last():
        m=np.asarray(ts.observation.action_mask)
        a=int(rng.choice(np.flatnonzero(m[:4]))) if rng.random()<0.8 else int(rng.integers(5))
        prev=st
        st,ts=step(st,jnp.int32(a)); tot+=1
        px,py=int(st.player_locations.x),int(st.player_locations.y)
        if not (0<=px<31 and 0<=py<28) or grid[px,py]!=1: mm["player in wall/oob"]+=1
        if not ts.last():
            for gpos in np.asarray(st.ghost_locations):
                c,r=int(gpos[0]),int(gpos[1])
                if not (0<=r<31 and 0<=c<28): mm["ghost oob"]+=1
                elif grid[r,c]!=1: mm["ghost in wall (%d,%d)"%(r,c)]+=1
        # pellets count consistency
        pl=np.asarray(st.pellet_locations); cnt=int((pl.sum(1)>0).sum())
        if cnt!=int(st.pellets): mm["pellet count"]+=1
        if not m[a] and a<4:
            if (px,py)!=(int(prev.player_locations.x),int(prev.player_locations.y)): mm["moved on blocked"]+=1
            ev["blocked"]+=1
        score+=float(ts.reward)
        if int(st.score)!=int(score): mm["score"]+=1
    ev["dead" if bool(st.dead) else "other"]+=1
print("pacman steps",tot,dict(mm),dict(ev))
