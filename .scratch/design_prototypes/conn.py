import numpy as np, jax, jax.numpy as jnp, warnings, collections
warnings.filterwarnings("ignore")
from jumanji.environments import Connector, LevelBasedForaging
from jumanji.environments.routing.connector.generator import UniformRandomGenerator, RandomWalkGenerator
from jumanji.environments.routing.lbf.generator import RandomGenerator as LG
D={0:(0,0),1:(-1,0),2:(0,1),3:(1,0),4:(0,-1)}
def conn_ref(grid,pos,tgt,act):
    g=grid.copy(); n=len(pos); G=grid.shape[0]
    want={}
    for i in range(n):
        connected=(pos[i]==tgt[i]).all()
        a=act[i]
        if a==0 or connected: continue
        r,c=pos[i][0]+D[a][0],pos[i][1]+D[a][1]
        if not (0<=r<G and 0<=c<G): continue
        v=grid[r,c]
        if v==0 or v==3+3*i: want[i]=(r,c)
    # conflicts: same destination -> highest id wins
    bydst=collections.defaultdict(list)
    for i,d in want.items(): bydst[d].append(i)
    newpos=pos.copy()
    for d,ids in bydst.items():
        w=max(ids)
        g[tuple(pos[w])]=1+3*w; g[d]=2+3*w; newpos[w]=d
    return g,newpos
rng=np.random.default_rng(0); mm=collections.Counter(); tot=0; coll=collections.Counter()
for (gs,na) in [(4,3),(5,6),(6,4)]:
    env=Connector(UniformRandomGenerator(gs,na),time_limit=30); reset=jax.jit(env.reset); step=jax.jit(env.step)
    for ep in range(40):
        st,ts=reset(jax.random.PRNGKey(ep))
        while not ts.last():
            grid=np.asarray(st.grid); pos=np.asarray(st.agents.position); tgt=np.asarray(st.agents.target)
            act=rng.integers(0,5,na)
            eg,ep_=conn_ref(grid,pos,tgt,act)
            st,ts=step(st,jnp.array(act,jnp.int32)); tot+=1
            if not (np.asarray(st.grid)==eg).all(): mm["grid"]+=1
            if not (np.asarray(st.agents.position)==ep_).all(): mm["pos"]+=1
print("connector steps",tot,dict(mm))
