import numpy as np, jax, jax.numpy as jnp, warnings, collections
warnings.filterwarnings("ignore")
from jumanji.environments import LevelBasedForaging, RobotWarehouse
from jumanji.environments.routing.lbf.generator import RandomGenerator as LG
from jumanji.environments.routing.robot_warehouse.generator import RandomGenerator as RWG
def lbf_vec(G,fov,apos,alev,fpos,flev,eaten):
    n=len(apos); nf=len(fpos); out=np.zeros((n,3*(n+nf)),int)
    for i in range(n):
        v=[]
        off=np.array([min(fov,apos[i][0]),min(fov,apos[i][1])])
        for k in range(nf):
            vis=(np.abs(apos[i]-fpos[k])<=fov).all() and not eaten[k]
            v+= list(fpos[k]-apos[i]+off)+[flev[k]] if vis else [-1,-1,0]
        v+= list(apos[i]-apos[i]+off)+[alev[i]]
        for j in range(n):
            if j==i: continue
            vis=(np.abs(apos[i]-apos[j])<=fov).all()
            v+= list(apos[j]-apos[i]+off)+[alev[j]] if vis else [-1,-1,0]
        out[i]=v
    return out
def lbf_grid(G,fov,apos,alev,fpos,flev,eaten):
    n=len(apos); P=G+2*fov
    ag=np.zeros((P,P),int); fg=np.zeros((P,P),int)
    for i in range(n): ag[apos[i][0]+fov,apos[i][1]+fov]+=alev[i]
    for k in range(len(fpos)): fg[fpos[k][0]+fov,fpos[k][1]+fov]+=flev[k]*(not eaten[k])
    acc=((ag+fg)==0).astype(int); acc[:fov,:]=0; acc[P-fov:,:]=0; acc[:,:fov]=0; acc[:,P-fov:]=0
    w=2*fov+1; out=np.zeros((n,3,w,w),int)
    for i in range(n):
        r,c=apos[i]
        out[i,0]=ag[r:r+w,c:c+w]; out[i,1]=fg[r:r+w,c:c+w]; out[i,2]=acc[r:r+w,c:c+w]
    return out
rng=np.random.default_rng(0); mm=collections.Counter(); tot=0
for (g,na,nf,fov,grid) in [(5,2,1,1,False),(6,3,2,2,False),(8,2,2,8,False),(7,4,2,3,False),(5,2,1,1,True),(6,3,2,2,True),(8,2,2,8,True),(7,4,2,3,True)]:
    env=LevelBasedForaging(LG(grid_size=g,num_agents=na,num_food=nf,fov=fov,max_agent_level=2,force_coop=False),time_limit=30,grid_observation=grid)
    reset=jax.jit(env.reset); step=jax.jit(env.step)
    for ep in range(15):
        st,ts=reset(jax.random.PRNGKey(ep))
        while True:
            apos=np.asarray(st.agents.position); alev=np.asarray(st.agents.level); fpos=np.asarray(st.food_items.position); flev=np.asarray(st.food_items.level); eat=np.asarray(st.food_items.eaten)
            exp=(lbf_grid if grid else lbf_vec)(g,fov,apos,alev,fpos,flev,eat); got=np.asarray(ts.observation.agents_view); tot+=1
            if got.shape!=exp.shape or not (got==exp).all():
                mm[("grid" if grid else "vec",g,na,nf,fov)]+=1
                if sum(mm.values())<3: print("MISMATCH",(g,na,nf,fov,grid),"\nexp",exp,"\ngot",got,"\napos",apos,"fpos",fpos,eat)
            try: env.observation_spec.validate(ts.observation)
            except Exception as e: mm["spec "+str(e)[:50]]+=1
            if ts.last(): break
            st,ts=step(st,jnp.array(rng.integers(0,6,na),jnp.int32))
print("lbf obs checked",tot,dict(mm))
