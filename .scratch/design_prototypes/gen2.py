import numpy as np, jax, jax.numpy as jnp, warnings, collections, time
warnings.filterwarnings("ignore")
from jumanji.environments.routing.mmst.generator import SplitRandomGenerator
def comp_connected(adj,nodes):
    nodes=list(nodes); s={nodes[0]}; dq=[nodes[0]]; ns=set(nodes)
    while dq:
        u=dq.pop()
        for v in np.flatnonzero(adj[u]):
            if v in ns and v not in s: s.add(v); dq.append(v)
    return len(s)==len(nodes)
for (n,e,deg,ag,per) in [(12,18,4,2,3),(20,30,5,3,3),(36,72,5,3,4),(12,14,2,2,2),(15,20,3,3,2)]:
    try:
        gen=SplitRandomGenerator(n,e,deg,ag,per,10)
        g=jax.jit(gen.__call__)
        t=time.time(); bad=collections.Counter(); N=60
        for s in range(N):
            st=g(jax.random.PRNGKey(s))
            adj=np.asarray(st.adj_matrix); 
            if not (adj==adj.T).all(): bad["asym"]+=1
            if adj.diagonal().any(): bad["selfloop"]+=1
            if not comp_connected(adj,range(n)): bad["disconnected"]+=1
            blocks=np.array_split(np.arange(n),ag)
            ntc=np.asarray(st.nodes_to_connect); nt=np.asarray(st.node_types)
            for a in range(ag):
                if not set(ntc[a]).issubset(set(blocks[a])): bad["terminal outside block"]+=1
                if not comp_connected(adj,blocks[a]): bad["block disconnected"]+=1
                if len(set(ntc[a]))!=per: bad["dup terminals"]+=1
            ne=np.asarray(st.node_edges)
            ref=np.where(adj>0, np.arange(n)[None,:], -1)
            if not (ne[0]==ref).all(): bad["node_edges!=adj"]+=1
            if int(adj.sum())//2 != e: bad["edge count %d"%(int(adj.sum())//2)]+=1
            deg_max=adj.sum(1).max()
            if deg_max>deg+1: bad["deg>%d"%(deg+1)]+=1
        print((n,e,deg,ag,per),dict(bad),"time",round(time.time()-t,1))
    except Exception as ex:
        print((n,e,deg,ag,per),"ERR",type(ex).__name__,str(ex)[:150])
