import numpy as np, jax, jax.numpy as jnp, warnings, collections, time
warnings.filterwarnings("ignore")
from jumanji.environments.routing.mmst.generator import SplitRandomGenerator
def comp_connected(adj,nodes):
    nodes=list(nodes); s={nodes[0]}; dq=[nodes[0]]; ns=set(nodes)
    while dq:
        u=dq.pop()
        for v in np.flatnonzero(adj[u]):
            if v in ns and v not in s: s.add(v); dq.append(v)
    return len(s)==len(nodes)
for (n,e,deg,ag,per) in [(12,14,3,2,2),(20,30,3,3,3),(36,72,4,3,4),(36,72,5,3,4)]:
    gen=SplitRandomGenerator(n,e,deg,ag,per,10)
    g=jax.jit(jax.vmap(gen.__call__))
    st=g(jax.random.split(jax.random.PRNGKey(7),300))
    A=np.asarray(st.adj_matrix); bad=collections.Counter()
    for adj in A:
        if adj.diagonal().any(): bad["selfloop"]+=1
        if not comp_connected(adj,range(n)): bad["disconnected"]+=1
        for blk in np.array_split(np.arange(n),ag):
            if not comp_connected(adj,blk): bad["block disconnected"]+=1
    print((n,e,deg,ag,per),dict(bad))
