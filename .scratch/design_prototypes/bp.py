import numpy as np, jax, jax.numpy as jnp, warnings, collections
warnings.filterwarnings("ignore")
from jumanji.environments import BinPack
from jumanji.environments.packing.bin_pack.generator import RandomGenerator, ToyGenerator
from jumanji.environments.packing.bin_pack.reward import SparseReward
rng=np.random.default_rng(0); mm=collections.Counter(); tot=0
def dec_space(s): return np.stack([np.asarray(getattr(s,k)) for k in ("x1","x2","y1","y2","z1","z2")],-1).astype(np.float64)
for (gen,obs,norm) in [(RandomGenerator(20,40,split_num_same_items=2),40,True),(RandomGenerator(10,12,split_num_same_items=2),5,True),(RandomGenerator(10,12,split_num_same_items=2),5,False),(ToyGenerator(),20,False)]:
    env=BinPack(gen,obs_num_ems=obs,normalize_dimensions=norm,debug=True); reset=jax.jit(env.reset); step=jax.jit(env.step)
    for ep in range(10):
        st,ts=reset(jax.random.PRNGKey(ep))
        while True:
            E=dec_space(st.ems); em=np.asarray(st.ems_mask); C=dec_space(st.container); 
            items=np.stack([np.asarray(st.items.x_len),np.asarray(st.items.y_len),np.asarray(st.items.z_len)],-1).astype(np.float64)
            im=np.asarray(st.items_mask); ip=np.asarray(st.items_placed); sidx=np.asarray(st.sorted_ems_indexes)
            o=ts.observation; oE=dec_space(o.ems); oem=np.asarray(o.ems_mask); oit=np.stack([np.asarray(o.items.x_len),np.asarray(o.items.y_len),np.asarray(o.items.z_len)],-1).astype(np.float64)
            tot+=1
            clen=np.array([C[1]-C[0],C[3]-C[2],C[5]-C[4]])
            sel=sidx[:obs]
            expE=E[sel]; expI=items.copy()
            if norm:
                expE=expE/np.repeat(clen,2); expI=expI/clen
            if not np.allclose(oE,expE,atol=1e-6): mm["ems coords"]+=1
            if not (oem==em[sel]).all(): mm["ems mask"]+=1
            if not np.allclose(oit,expI,atol=1e-6): mm["items"]+=1
            vol=lambda e:(e[:,1]-e[:,0])*(e[:,3]-e[:,2])*(e[:,5]-e[:,4])
            v=vol(E)*em
            vs=v[sel]
            if (np.diff(vs)>1e-6).any(): mm["not sorted"]+=1
            rest=np.setdiff1d(np.arange(len(v)),sel)
            if len(rest) and v[rest].max()>vs.min()+1e-6: mm["not largest"]+=1
            # mask rule
            d=np.stack([E[sel][:,1]-E[sel][:,0],E[sel][:,3]-E[sel][:,2],E[sel][:,5]-E[sel][:,4]],-1)
            legal=(em[sel][:,None] & im[None,:] & ~ip[None,:] & (items[None,:,:]<=d[:,None,:]).all(-1))
            if not (legal==np.asarray(o.action_mask)).all(): mm["mask"]+=1
            if not (np.asarray(st.action_mask)==np.asarray(o.action_mask)).all(): mm["state mask"]+=1
            if bool(ts.extras["invalid_ems_from_env"]): mm["invalid_ems_from_env"]+=1
            try: env.observation_spec.validate(o)
            except Exception as e: mm["spec "+str(e)[:60]]+=1
            if ts.last(): break
            idx=np.argwhere(np.asarray(o.action_mask)); a=idx[rng.integers(len(idx))]
            st,ts=step(st,jnp.array(a,jnp.int32))
print("binpack obs checked",tot,dict(mm))
