import jax, jax.numpy as jnp, numpy as np
import jumanji
from jumanji.environments import *
from jumanji.environments.packing.tetris import utils as tu
from jumanji.environments.packing.tetris.constants import TETROMINOES_LIST
T = jnp.array(TETROMINOES_LIST, jnp.int32)
grid = jnp.zeros((6+3, 6+3), jnp.int32)
for ti in range(7):
  for r in range(4):
    g,y = tu.place_tetromino(grid, T[ti,r], 0)
    g=np.asarray(g)[:6,:6]
    rows=np.flatnonzero(g.any(1))
    print("tet",ti,"rot",r,"y",int(y),"rows occupied",rows.tolist())
