import sys, time, jax, jax.numpy as jnp, numpy as np, warnings
warnings.filterwarnings("ignore")
import jumanji
from jumanji.environments import *
from jumanji.wrappers import AutoResetWrapper, VmapAutoResetWrapper, VmapWrapper, JumanjiToGymWrapper, JumanjiToDMEnvWrapper, MultiToSingleWrapper
from jumanji.environments.routing.sokoban.generator import ToyGenerator as SokToy
name=sys.argv[1]
env=Sokoban(generator=SokToy()) if name=="Sokoban" else getattr(jumanji.environments,name)()
key=jax.random.PRNGKey(0)
res=[]
for nm,mk in [("AR",lambda: AutoResetWrapper(env)),("ARx",lambda: AutoResetWrapper(env,next_obs_in_extras=True)),("VAR",lambda: VmapAutoResetWrapper(env)),("VARx",lambda: VmapAutoResetWrapper(env,next_obs_in_extras=True)),("V(AR)",lambda: VmapWrapper(AutoResetWrapper(env)))]:
    try:
        w=mk()
        a=env.action_spec.generate_value()
        if nm.startswith("V"):
            st,ts=jax.jit(w.reset)(jax.random.split(key,3)); acts=jnp.stack([a]*3)
            st,ts=jax.jit(w.step)(st,acts)
        else:
            st,ts=jax.jit(w.reset)(key); st,ts=jax.jit(w.step)(st,a)
        res.append(nm+":ok")
    except Exception as e:
        res.append(nm+":"+type(e).__name__+" "+str(e).split("\n")[0][:160])
# gym / dm
try:
    e2 = env if env.reward_spec.shape==() else MultiToSingleWrapper(env)
    g=JumanjiToGymWrapper(e2); o,i=g.reset(); 
    ok=g.observation_space.contains(o)
    act=g.action_space.sample(); o2,r,t,tr,i=g.step(act)
    res.append(f"gym:ok contains={ok} contains2={g.observation_space.contains(o2)}")
except Exception as e:
    res.append("gym:"+type(e).__name__+" "+str(e).split("\n")[0][:160])
try:
    d=JumanjiToDMEnvWrapper(env); ts=d.reset(); ts=d.step(np.asarray(env.action_spec.generate_value())); d.observation_spec(); d.action_spec()
    res.append("dm:ok")
except Exception as e:
    res.append("dm:"+type(e).__name__+" "+str(e).split("\n")[0][:160])
print(name,res)
