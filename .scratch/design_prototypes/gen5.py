import numpy as np, jax, jax.numpy as jnp, warnings, collections, time, sys
warnings.filterwarnings("ignore")
sys.setrecursionlimit(10000)
from jumanji.environments.packing.flat_pack.generator import RandomFlatPackGenerator
def solve(blocks,R,C,cap=200000):
    N=len(blocks)
    rots=[[np.rot90(b,-k)!=0 for k in range(4)] for b in blocks]
    # dedupe rotations
    grid=np.zeros((R,C),int); used=[False]*N; nodes=[0]; sol=[]
    def rec():
        nodes[0]+=1
        if nodes[0]>cap: return None
        empt=np.argwhere(grid==0)
        if len(empt)==0: return True
        r0,c0=empt[0]
        for b in range(N):
            if used[b]: continue
            seen=set()
            for k in range(4):
                m=rots[b][k]
                key=m.tobytes()
                if key in seen: continue
                seen.add(key)
                # anchor: the first True cell in row-major must land on (r0,c0)
                cells=np.argwhere(m)
                ar,ac=cells[0]
                r=r0-ar; c=c0-ac
                if r<0 or c<0 or r+3>R or c+3>C: 
                    # allow placement where 3x3 box partially outside? action space requires box inside
                    continue
                sub=grid[r:r+3,c:c+3]
                if (sub[m]!=0).any(): continue
                sub[m]=b+1; used[b]=True
                res=rec()
                if res: sol.append((b,k,r,c)); return True
                sub[m]=0; used[b]=False
                if res is None: return None
        return False
    return rec(),nodes[0]
for (rb,cb) in [(1,1),(1,3),(2,2),(3,2),(5,5),(4,6)]:
    gen=RandomFlatPackGenerator(rb,cb); g=jax.jit(gen.__call__)
    R,C=2*rb+1,2*cb+1; t=time.time(); res=collections.Counter(); mx=0
    for s in range(15):
        st=g(jax.random.PRNGKey(s)); bl=np.asarray(st.blocks)
        ids=sorted(set(bl[bl>0].tolist()))
        if ids!=list(range(1,rb*cb+1)): res["ids bad"]+=1
        if (bl!=0).sum()!=R*C: res["cells %d!=%d"%((bl!=0).sum(),R*C)]+=1
        ok,n=solve(list(bl),R,C); mx=max(mx,n)
        res[str(ok)]+=1
    print((rb,cb),dict(res),"max nodes",mx,"time",round(time.time()-t,1))
