import jax, jax.numpy as jnp, numpy as np, time
import jumanji
from jumanji.environments import *
from jumanji.environments.routing.multi_cvrp.generator import UniformRandomGenerator
from jumanji.environments.routing.multi_cvrp.reward import DenseReward, SparseReward
gen = UniformRandomGenerator(num_customers=6, num_vehicles=2)
ed = MultiCVRP(gen, DenseReward(2,6,10)); es = MultiCVRP(gen, SparseReward(2,6,10))
sd=jax.jit(ed.step); ss=jax.jit(es.step)
for mode in ["greedy","lazy"]:
    key=jax.random.PRNGKey(1)
    st,ts=ed.reset(key); st2,ts2=es.reset(key)
    Rd=0;Rs=0;n=0
    while not ts.last():
        m=np.asarray(ts.observation.action_mask)
        if mode=="greedy":
            a=[int(np.flatnonzero(m[v])[-1]) for v in range(2)]
        else:
            a=[int(np.flatnonzero(m[v])[-1]) if n<2 else 0 for v in range(2)]
        a=jnp.array(a,jnp.int16)
        st,ts=sd(st,a); st2,ts2=ss(st2,a); Rd+=float(ts.reward); Rs+=float(ts2.reward); n+=1
    print(mode,"steps",n,"dense",Rd,"sparse",Rs,"step_count",int(st.step_count), "demands left", int(st.nodes.demands.sum()))
# PacMan spec check random walk
env=PacMan(); step=jax.jit(env.step)
st,ts=env.reset(jax.random.PRNGKey(0))
rng=np.random.default_rng(0); bad=None
t0=time.time()
for i in range(600):
    m=np.asarray(ts.observation.action_mask)
    # prefer going 'down' in rows (action 2 = row+1)
    a = 2 if m[2] else int(rng.choice(np.flatnonzero(m)))
    st,ts=step(st,jnp.int32(a))
    try: env.observation_spec.validate(ts.observation)
    except Exception as e:
        bad=(i,str(e)[:150], int(st.player_locations.x), int(st.player_locations.y)); break
    if ts.last(): break
print("pacman", i, bad, "player x,y", int(st.player_locations.x), int(st.player_locations.y), time.time()-t0)
