import sys, numpy as np, jax, jax.numpy as jnp, warnings, collections
warnings.filterwarnings("ignore")
import jumanji
from jumanji.environments import *
from jumanji import specs
from jumanji.wrappers import AutoResetWrapper, VmapAutoResetWrapper, VmapWrapper
from jumanji.environments.routing.sokoban.generator import ToyGenerator as SokToy
from jumanji.environments.routing.lbf.generator import RandomGenerator as LG
name=sys.argv[1]
mk={"Snake":lambda:Snake(4,4,time_limit=5),"Tetris":lambda:Tetris(6,6,time_limit=4),"Maze":lambda:Maze(time_limit=3),"Sokoban":lambda:Sokoban(SokToy(),time_limit=3),
    "LevelBasedForaging":lambda:LevelBasedForaging(time_limit=3),"Connector":lambda:Connector(time_limit=3),"Cleaner":lambda:Cleaner(time_limit=4),"RobotWarehouse":lambda:RobotWarehouse(time_limit=3),
    "MMST":lambda:MMST(time_limit=3),"PacMan":lambda:PacMan(),"RubiksCube":lambda:RubiksCube(time_limit=3),"SlidingTilePuzzle":lambda:SlidingTilePuzzle(time_limit=3)}
env=mk[name]() if name in mk else getattr(jumanji.environments,name)()
rng=np.random.default_rng(0)
def sample(spec,b):
    if isinstance(spec,specs.DiscreteArray): return jnp.asarray(rng.integers(0,spec.num_values,(b,)),spec.dtype)
    lo=np.broadcast_to(np.asarray(spec.minimum),spec.shape); hi=np.broadcast_to(np.asarray(spec.maximum),spec.shape)
    return jnp.asarray(rng.integers(lo,hi+1,(b,)+tuple(spec.shape)),spec.dtype)
def leaves(t): return jax.tree_util.tree_leaves(t)
def cmp(a,b,tol):
    la,lb=leaves(a),leaves(b); 
    if len(la)!=len(lb): return "structure"
    for x,y in zip(la,lb):
        x=np.asarray(x); y=np.asarray(y)
        if x.shape!=y.shape or x.dtype!=y.dtype: return f"shape/dtype {x.shape}{x.dtype} vs {y.shape}{y.dtype}"
        if np.issubdtype(x.dtype,np.floating):
            if not np.allclose(x,y,rtol=tol,atol=tol): return "float"
        elif not (x==y).all(): return "int"
    return None
B=4; res=collections.Counter(); pat=collections.Counter()
for nx in (False,True):
    A=VmapAutoResetWrapper(env,next_obs_in_extras=nx); Bw=VmapWrapper(AutoResetWrapper(env,next_obs_in_extras=nx))
    ra,sa=jax.jit(A.reset),jax.jit(A.step); rb,sb=jax.jit(Bw.reset),jax.jit(Bw.step)
    keys=jax.random.split(jax.random.PRNGKey(5),B)
    s1,t1=ra(keys); s2,t2=rb(keys)
    r=cmp((s1,t1),(s2,t2),1e-6); res["reset "+str(r)]+=1
    single_step=jax.jit(env.step); single_reset=jax.jit(env.reset)
    for it in range(40):
        a=sample(env.action_spec,B)
        # per-instance oracle for AutoReset using stack B's input state
        exp=[]
        for i in range(B):
            si=jax.tree_util.tree_map(lambda x:x[i],s2)
            so,to=single_step(si,a[i])
            if bool(to.last()):
                k=jax.random.split(so.key)[0]; sr,tr=single_reset(k)
                exp.append((sr,tr.observation,to.step_type,to.reward,to.discount))
            else: exp.append((so,to.observation,to.step_type,to.reward,to.discount))
        s1,t1=sa(s1,a); s2,t2=sb(s2,a)
        r=cmp((s1,t1),(s2,t2),1e-6); res["step "+str(r)]+=1
        lastv=np.asarray(t2.step_type)==2; pat["none" if not lastv.any() else "all" if lastv.all() else "some"]+=1
        for i in range(B):
            got=(jax.tree_util.tree_map(lambda x:x[i],s2), jax.tree_util.tree_map(lambda x:x[i],t2.observation), t2.step_type[i], t2.reward[i], t2.discount[i])
            r=cmp(exp[i],got,1e-6); res["AR-oracle "+str(r)]+=1
print(name,dict(res),dict(pat))
