import numpy as np, jax.numpy as jnp, warnings, pickle
warnings.filterwarnings("ignore")
from jumanji import specs
for dt in [bool, jnp.int8, jnp.uint8, jnp.int16, jnp.int32, jnp.float16, jnp.float32]:
    for mk in ["Array","Bounded"]:
        try:
            s = specs.Array((2,),dt,"a") if mk=="Array" else specs.BoundedArray((2,),dt,0,1,"b")
            sp = specs.jumanji_specs_to_gym_spaces(s)
            v = s.generate_value()
            c = sp.contains(np.asarray(v))
            d = specs.jumanji_specs_to_dm_env_specs(s); d.validate(np.asarray(v))
            smp = sp.sample()
            try: s.validate(jnp.asarray(smp, s.dtype)); sv="ok"
            except Exception as e: sv="sample invalid: "+str(e)[:60]
            p = pickle.loads(pickle.dumps(s)); eq = (p==s)
            print(mk, np.dtype(dt).name, "contains",c,"sample",sv,"pickle eq",eq, "replace eq", s.replace()==s)
        except Exception as e:
            print(mk, np.dtype(dt).name, "ERR", type(e).__name__, str(e)[:120])
# size-0 shapes
for shp in [(0,),(2,0),()]:
    try:
        s=specs.BoundedArray(shp,jnp.float32,0.,1.,"z"); v=s.generate_value(); s.validate(v)
        sp=specs.jumanji_specs_to_gym_spaces(s); print(shp,"ok contains",sp.contains(np.asarray(v)))
    except Exception as e: print(shp,"ERR",type(e).__name__,str(e)[:100])
d=specs.DiscreteArray(5, jnp.int8, "d"); print("Discrete int8 sample valid raw?", end=" ")
sp=specs.jumanji_specs_to_gym_spaces(d); x=sp.sample()
try: d.validate(x); print("yes")
except Exception as e: print("no:",str(e)[:60])
m=specs.MultiDiscreteArray(jnp.array([2,3,4]), jnp.int32, "m"); sp=specs.jumanji_specs_to_gym_spaces(m); x=sp.sample(); print("MD sample",x.dtype, end=" ")
try: m.validate(x); print("valid")
except Exception as e: print("invalid:",str(e)[:60])
print("MD eq", m==specs.MultiDiscreteArray(jnp.array([2,3,4]), jnp.int32, "m"), "replace", m.replace()==m, "pickle", pickle.loads(pickle.dumps(m))==m)
m2=specs.MultiDiscreteArray(jnp.array([[2,3],[4,5]]), jnp.int32, "m")
try: print("MD 2d eq", m2==m2.replace())
except Exception as e: print("MD 2d eq ERR", type(e).__name__, str(e)[:80])
try: print("MD vs diff shape eq", m==m2)
except Exception as e: print("MD diffshape eq ERR", type(e).__name__, str(e)[:80])
