import jax, jax.numpy as jnp, numpy as np
import jumanji
from jumanji.environments import *
key = jax.random.PRNGKey(0)

# 1 GraphColoring stale mask
from jumanji.environments.logic.graph_coloring.generator import RandomGenerator as GCGen
env = GraphColoring(GCGen(num_nodes=6, edge_probability=0.8))
viol=0; tot=0
for s in range(30):
    st, ts = env.reset(jax.random.PRNGKey(s))
    while not ts.last():
        m = np.asarray(ts.observation.action_mask)
        a = int(np.flatnonzero(m)[0])  # first-fit
        st, ts = env.step(st, jnp.int32(a))
        adj = np.asarray(st.adj_matrix); col=np.asarray(st.colors)
        for i in range(6):
            for j in range(6):
                if adj[i,j] and col[i]>=0 and col[i]==col[j]:
                    viol+=1
        tot+=1
print("GC conflicts observed under mask-respecting first-fit:", viol, "of", tot)

# 4 TSP reset position
env = TSP()
st, ts = env.reset(key)
try:
    env.observation_spec.validate(ts.observation); print("TSP reset obs validates")
except Exception as e: print("TSP reset obs:", str(e)[:100])

# 5 Snake time limit
env = Snake(num_rows=6, num_cols=6, time_limit=3)
st, ts = env.reset(key)
for i in range(3):
    m=np.asarray(ts.observation.action_mask); a=int(np.flatnonzero(m)[0])
    st, ts = env.step(st, jnp.int32(a))
    try: env.observation_spec.validate(ts.observation); ok=True
    except Exception as e: ok=str(e)[:80]
    print("snake step", i, int(ts.step_type), int(ts.observation.step_count), ok)

# 8 BoundedArray eq
from jumanji import specs
a = specs.BoundedArray((2,), float, [0.,0.], [1.,2.]); b = specs.BoundedArray((2,), float, [0.,0.], [1.,2.])
try: print("BA eq:", a==b)
except Exception as e: print("BA eq raises:", type(e).__name__, str(e)[:80])
c = specs.BoundedArray((2,), float, 0., 1.); d= specs.BoundedArray((2,), float, 0., 1.)
print("BA scalar eq", c==d, type(c==d))
