import numpy as np, jax, jax.numpy as jnp, warnings, collections, itertools
warnings.filterwarnings("ignore")
from jumanji.environments import LevelBasedForaging, Game2048
from jumanji.environments.routing.lbf.generator import RandomGenerator as LG
from jumanji.environments.logic.game_2048 import utils as gu
MV={0:(0,0),1:(-1,0),2:(1,0),3:(0,-1),4:(0,1),5:(0,0)}
def lbf_ref(G,apos,alev,fpos,flev,eaten,act,normalize,penalty):
    n=len(apos); want=[]
    for i in range(n):
        t=(apos[i][0]+MV[act[i]][0],apos[i][1]+MV[act[i]][1])
        ok = 0<=t[0]<G and 0<=t[1]<G
        if ok and any(tuple(apos[j])==t for j in range(n) if j!=i): ok=False
        if ok and any(tuple(fpos[k])==t and not eaten[k] for k in range(len(fpos))): ok=False
        want.append(t if ok else tuple(apos[i]))
    cnt=collections.Counter(want)
    newpos=[want[i] if cnt[want[i]]==1 else tuple(apos[i]) for i in range(n)]
    loading=[a==5 for a in act]
    rew=np.zeros(n); new_eaten=list(eaten); tot=flev.sum()
    for k in range(len(fpos)):
        adj=[alev[i] if (abs(newpos[i][0]-fpos[k][0])+abs(newpos[i][1]-fpos[k][1])==1 and loading[i] and not eaten[k]) else 0 for i in range(n)]
        s=sum(adj); ate = s>=flev[k]
        pen = penalty if (s!=0 and s<flev[k]) else 0
        for i in range(n):
            r=adj[i]*ate*flev[k]-pen
            if normalize: r = r/(s*tot) if s*tot!=0 else 0.0
            rew[i]+=r
        if ate: new_eaten[k]=True   # note: eaten stays if already eaten
    return np.array(newpos),np.array(new_eaten),rew
rng=np.random.default_rng(1); mm=collections.Counter(); tot=0; ev=collections.Counter()
for (g,na,nf,fc,norm,pen) in [(5,3,1,True,True,0.0),(6,4,2,False,True,0.0),(6,3,2,False,False,1.0),(8,2,2,True,True,0.0)]:
    env=LevelBasedForaging(LG(grid_size=g,num_agents=na,num_food=nf,fov=g,max_agent_level=2,force_coop=fc),time_limit=40,normalize_reward=norm,penalty=pen)
    reset=jax.jit(env.reset); step=jax.jit(env.step)
    for ep in range(40):
        st,ts=reset(jax.random.PRNGKey(ep))
        while not ts.last():
            apos=np.asarray(st.agents.position); alev=np.asarray(st.agents.level); fpos=np.asarray(st.food_items.position); flev=np.asarray(st.food_items.level); eat=np.asarray(st.food_items.eaten)
            act=rng.integers(0,6,na)
            # bias to load when adjacent
            ep_,ee,er=lbf_ref(g,apos,alev,fpos,flev,eat,act,norm,pen)
            st,ts=step(st,jnp.array(act,jnp.int32)); tot+=1
            if not (np.asarray(st.agents.position)==ep_).all(): mm["pos"]+=1
            if not (np.asarray(st.food_items.eaten)==ee).all(): mm["eaten"]+=1
            if not np.allclose(np.asarray(ts.reward),er,atol=1e-5): 
                mm["reward"]+=1
                if mm["reward"]<3: print("rew",np.asarray(ts.reward),er,act)
            if ee.sum()>eat.sum(): ev["eat"]+=1
print("lbf steps",tot,dict(mm),dict(ev))
# 2048 rows exhaustive length<=4 exponents 0..4
def ref_row(row):
    t=[x for x in row if x]; out=[]; r=0; i=0
    while i<len(t):
        if i+1<len(t) and t[i]==t[i+1]: out.append(t[i]+1); r+=2**(t[i]+1); i+=2
        else: out.append(t[i]); i+=1
    return out+[0]*(len(row)-len(out)), r
bad=0; n=0
for L in (2,3,4,5):
    rows=np.array(list(itertools.product(range(5),repeat=L)),dtype=np.int32)
    outs,rs=jax.jit(jax.vmap(gu.move_left_row))(jnp.array(rows))
    cm=jax.jit(jax.vmap(gu.can_move_left_row))(jnp.array(rows))
    outs=np.asarray(outs); rs=np.asarray(rs); cm=np.asarray(cm)
    for i,row in enumerate(rows):
        e,r=ref_row(list(row)); n+=1
        if list(outs[i])!=e or abs(rs[i]-r)>1e-6 or bool(cm[i])!=(e!=list(row)): bad+=1
print("2048 rows",n,"bad",bad)
