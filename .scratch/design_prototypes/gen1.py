import numpy as np, jax, jax.numpy as jnp, warnings, collections
warnings.filterwarnings("ignore")
from jumanji.environments.commons.maze_utils import maze_generation
from jumanji.environments.routing.maze.generator import RandomGenerator as MG
def connected(free):
    H,W=free.shape
    cells=list(zip(*np.nonzero(free)))
    if not cells: return True,0
    seen={cells[0]}; dq=collections.deque([cells[0]])
    while dq:
        r,c=dq.popleft()
        for dr,dc in ((1,0),(-1,0),(0,1),(0,-1)):
            rr,cc=r+dr,c+dc
            if 0<=rr<H and 0<=cc<W and free[rr,cc] and (rr,cc) not in seen:
                seen.add((rr,cc)); dq.append((rr,cc))
    return len(seen)==len(cells), len(cells)
for (H,W) in [(2,2),(3,3),(4,4),(5,5),(3,7),(7,3),(4,9),(9,4),(5,11),(10,10),(6,6),(2,9),(1,5),(5,1)]:
    try:
        g=jax.jit(jax.vmap(lambda k: maze_generation.generate_maze(W,H,k)))
        mz=np.asarray(g(jax.random.split(jax.random.PRNGKey(0),200)))
        bad=0; origin_wall=0; distinct=len({m.tobytes() for m in mz})
        for m in mz:
            ok,n=connected(m==0)
            if not ok: bad+=1
            if m[0,0]!=0: origin_wall+=1
        print((H,W),"shape",mz.shape[1:],"disconnected",bad,"origin wall",origin_wall,"distinct",distinct)
    except Exception as e:
        print((H,W),"ERR",type(e).__name__,str(e)[:100])
# Maze generator: start/target free & distinct
for (H,W) in [(3,3),(5,9),(2,2)]:
    gen=MG(H,W); st=jax.jit(jax.vmap(gen))(jax.random.split(jax.random.PRNGKey(1),200))
    walls=np.asarray(st.walls); ar=np.asarray(st.agent_position.row); ac=np.asarray(st.agent_position.col); tr=np.asarray(st.target_position.row); tc=np.asarray(st.target_position.col)
    b1=sum(walls[i,ar[i],ac[i]] or walls[i,tr[i],tc[i]] for i in range(200)); b2=sum((ar[i],ac[i])==(tr[i],tc[i]) for i in range(200))
    print("MazeGen",(H,W),"on wall",b1,"same cell",b2)
