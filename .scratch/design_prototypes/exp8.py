import jax, jax.numpy as jnp, numpy as np, warnings, time
warnings.filterwarnings("ignore")
from jumanji.environments import BinPack, JobShop
from jumanji.environments.packing.bin_pack.generator import RandomGenerator, ToyGenerator
from jumanji.environments.packing.bin_pack.reward import SparseReward
rng=np.random.default_rng(0)
def boxes(st):
    pl=np.asarray(st.items_placed)
    it=st.items; lo=st.items_location
    x=np.asarray(lo.x); y=np.asarray(lo.y); z=np.asarray(lo.z)
    dx=np.asarray(it.x_len); dy=np.asarray(it.y_len); dz=np.asarray(it.z_len)
    return [(i,x[i],x[i]+dx[i],y[i],y[i]+dy[i],z[i],z[i]+dz[i]) for i in np.flatnonzero(pl)]
def feasible(st):
    c=st.container; C=[int(c.x1),int(c.x2),int(c.y1),int(c.y2),int(c.z1),int(c.z2)]
    B=boxes(st)
    for b in B:
        if not (b[1]>=C[0] and b[2]<=C[1] and b[3]>=C[2] and b[4]<=C[3] and b[5]>=C[4] and b[6]<=C[5]): return "outside",b
    for i in range(len(B)):
        for j in range(i+1,len(B)):
            a,b=B[i],B[j]
            if a[1]<b[2] and b[1]<a[2] and a[3]<b[4] and b[3]<a[4] and a[5]<b[6] and b[5]<a[6]: return "overlap",(a,b)
    return None
for (mi,me,obs) in [(20,40,40),(10,6,6),(30,15,10)]:
    env=BinPack(RandomGenerator(max_num_items=mi,max_num_ems=me,split_num_same_items=2),obs_num_ems=obs)
    reset=jax.jit(env.reset); step=jax.jit(env.step)
    bad=0; full=0; steps=0; rets=[]
    for ep in range(25):
        st,ts=reset(jax.random.PRNGKey(ep)); R=0
        while not ts.last():
            m=np.asarray(ts.observation.action_mask); idx=np.argwhere(m)
            a=idx[rng.integers(len(idx))]
            st,ts=step(st,jnp.asarray(a,jnp.int32)); steps+=1; R+=float(ts.reward)
            f=feasible(st)
            if f: bad+=1; print("INFEASIBLE",f); break
            if bool(np.asarray(st.ems_mask).all()): full+=1
            assert not bool(ts.extras["invalid_action"])
        util=float(ts.extras["volume_utilization"]); rets.append((R,util))
    print((mi,me,obs),"steps",steps,"bad",bad,"ems-full states",full,"ret-vs-util maxdiff",max(abs(a-b) for a,b in rets))
