import warnings; warnings.filterwarnings("ignore")
import jumanji
from jumanji import registration as R
for s in ["Env-v0","a-v01","a-v٣","a.b:c-d-v12","-v1","a-v1-v2","a-v","a","","a b-v1","a-v1\n","é-v1","a-v-1","a-V1","a--v1","a-v1 ","_-v0","a/b-v1","a-v"+"9"*40]:
    try:
        n,v=R.parse_env_id(s); back=R.get_env_id(n,v); print(repr(s),"->",(n,v),"back==",back==s)
    except Exception as e: print(repr(s),"->",type(e).__name__)
before=dict(R._REGISTRY)
try: R.register("Game2048-v1","x:y")
except Exception as e: print("dup:",type(e).__name__)
print("unchanged",before==R._REGISTRY)
try: R.make("Nope-v0")
except Exception as e: print("unknown:",type(e).__name__, all(k in str(e) for k in R._REGISTRY))
print(len(R._REGISTRY), sorted(R._REGISTRY))
