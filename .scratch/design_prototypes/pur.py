import sys, numpy as np, jax, jax.numpy as jnp, warnings, collections, time
warnings.filterwarnings("ignore")
import jumanji
from jumanji.environments import *
from jumanji import specs
from jumanji.environments.routing.sokoban.generator import ToyGenerator as SokToy
name=sys.argv[1]
env=Sokoban(generator=SokToy()) if name=="Sokoban" else getattr(jumanji.environments,name)()
rng=np.random.default_rng(0)
def masked_or_random(spec,obs):
    m=getattr(obs,"action_mask",None)
    if m is not None and rng.random()<0.7:
        m=np.asarray(m)
        if isinstance(spec,specs.DiscreteArray):
            idx=np.flatnonzero(m); 
            if len(idx): return jnp.asarray(rng.choice(idx),spec.dtype)
        elif m.ndim==2 and spec.shape==(m.shape[0],):
            return jnp.asarray([(rng.choice(np.flatnonzero(r)) if r.any() else 0) for r in m],spec.dtype)
        else:
            idx=np.argwhere(m)
            if len(idx) and idx.shape[1]==spec.shape[0]: return jnp.asarray(idx[rng.integers(len(idx))],spec.dtype)
    if isinstance(spec,specs.DiscreteArray): return jnp.asarray(rng.integers(0,spec.num_values),spec.dtype)
    lo=np.broadcast_to(np.asarray(spec.minimum),spec.shape); hi=np.broadcast_to(np.asarray(spec.maximum),spec.shape)
    return jnp.asarray(rng.integers(lo,hi+1),spec.dtype)
def cmp(a,b):
    la,lb=jax.tree_util.tree_leaves(a),jax.tree_util.tree_leaves(b)
    if len(la)!=len(lb): return "structure %d vs %d"%(len(la),len(lb))
    worst=0
    for x,y in zip(la,lb):
        x=np.asarray(jnp.asarray(x)); y=np.asarray(jnp.asarray(y))
        if x.shape!=y.shape: return f"shape {x.shape} vs {y.shape}"
        if x.dtype!=y.dtype: return f"dtype {x.dtype} vs {y.dtype}"
        if np.issubdtype(x.dtype,np.floating):
            d=np.abs(x.astype(np.float64)-y.astype(np.float64)); d=d[np.isfinite(d)]
            if d.size: worst=max(worst,d.max())
            if not np.allclose(x,y,rtol=1e-5,atol=1e-6,equal_nan=True): return "float diff %g"%d.max()
        elif not (x==y).all(): return "int diff"
    return "ok(maxfloat %.2g)"%worst
t0=time.time(); res=[]
key=jax.random.PRNGKey(3)
jr,js=jax.jit(env.reset),jax.jit(env.step)
se,te=env.reset(key); sj,tj=jr(key); res.append("reset:"+cmp((se,te),(sj,tj)))
for i in range(4):
    a=masked_or_random(env.action_spec,tj.observation)
    snap=[np.asarray(x).copy() for x in jax.tree_util.tree_leaves(sj)]
    s2e,t2e=env.step(sj,a); s2j,t2j=js(sj,a)
    after=[np.asarray(x) for x in jax.tree_util.tree_leaves(sj)]
    mut = any((u!=v).any() for u,v in zip(snap,after))
    res.append(f"step{i}:"+cmp((s2e,t2e),(s2j,t2j))+(" ARG-MUTATED" if mut else ""))
    sj,tj=s2j,t2j
    if tj.last(): sj,tj=jr(jax.random.PRNGKey(10+i))
# repeat determinism
d1=cmp(jr(key),jr(key)); res.append("repeat:"+d1)
jx=jax.make_jaxpr(env.step)(sj,a); res.append("effects:%s"%(set(map(str,jx.effects)) or "none"))
print(name,res,"t=%.0fs"%(time.time()-t0))
