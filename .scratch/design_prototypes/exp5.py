import jax, jax.numpy as jnp, numpy as np
import jumanji
from jumanji.environments import *
from jumanji.environments.routing.connector.generator import RandomWalkGenerator, UniformRandomGenerator
for (gs,na) in [(3,3),(4,5),(5,8),(10,10)]:
    gen = RandomWalkGenerator(grid_size=gs, num_agents=na)
    g = jax.jit(gen.__call__)
    bad=0; N=300
    ex=None
    for s in range(N):
        st = g(jax.random.PRNGKey(s))
        tg=np.asarray(st.agents.target); ps=np.asarray(st.agents.position); grid=np.asarray(st.grid)
        ok = (tg>=0).all() and (tg<gs).all() and (ps>=0).all() and (ps<gs).all()
        # distinct
        cells=set(map(tuple,tg.tolist()))|set(map(tuple,ps.tolist()))
        ok = ok and len(cells)==2*na
        for i in range(na):
            if ok:
                ok = grid[tuple(ps[i])]==2+3*i and grid[tuple(tg[i])]==3+3*i
        if not ok:
            bad+=1
            if ex is None: ex=(s,tg.tolist(),ps.tolist(),grid.tolist())
    print(gs,na,"bad",bad,"/",N, ex if ex else "")
