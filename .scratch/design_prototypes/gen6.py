import numpy as np, jax, jax.numpy as jnp, warnings, itertools
warnings.filterwarnings("ignore")
from jumanji.environments.packing.flat_pack.generator import RandomFlatPackGenerator
from jumanji.environments import FlatPack
gen=RandomFlatPackGenerator(2,2); env=FlatPack(gen)
def brute(blocks,R,C):
    N=len(blocks)
    placements=[]
    for b in range(N):
        pl=[]
        for k in range(4):
            m=np.rot90(blocks[b],-k)!=0
            for r in range(R-2):
                for c in range(C-2):
                    g=np.zeros((R,C),bool); g[r:r+3,c:c+3]=m; pl.append((k,r,c,g))
        placements.append(pl)
    def rec(b,occ):
        if b==N: return occ.all()
        for (k,r,c,g) in placements[b]:
            if not (occ&g).any():
                if rec(b+1,occ|g): return True
        return False
    return rec(0,np.zeros((R,C),bool))
uns=0
for s in range(15):
    st=gen(jax.random.PRNGKey(s)); bl=np.asarray(st.blocks)
    ok=brute(list(bl),5,5)
    if not ok:
        uns+=1
        if uns==1:
            print("seed",s); print(bl)
print("unsolvable by brute force:",uns,"/15")
