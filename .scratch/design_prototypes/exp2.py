import jax, jax.numpy as jnp, numpy as np
import jumanji
from jumanji.environments import *
key = jax.random.PRNGKey(0)

# Cleaner non-square
from jumanji.environments.routing.cleaner.generator import RandomGenerator as CG
env = Cleaner(CG(num_rows=5, num_cols=11, num_agents=2))
st, ts = env.reset(key)
print(np.asarray(st.grid))
print("mask at (0,0):", np.asarray(ts.observation.action_mask))
# walk agent 0 right along row 0 as long as mask allows
oob=False
for i in range(12):
    m=np.asarray(ts.observation.action_mask)
    loc=np.asarray(st.agents_locations)
    print(i, loc.tolist(), m.astype(int).tolist(), int(ts.step_type))
    if ts.last(): break
    # choose 'down' (2) for agent 0 if allowed else right
    a0 = 2 if m[0,2] else (1 if m[0,1] else 0)
    a1 = 2 if m[1,2] else (1 if m[1,1] else 0)
    st, ts = env.step(st, jnp.array([a0,a1]))

# PacMan time limit + spec
env = PacMan(time_limit=5)
print("pacman time_limit attr:", env.time_limit)
# Tetris
env = Tetris(num_rows=6, num_cols=6, time_limit=10)
st, ts = env.reset(key)
for i in range(4):
    m=np.asarray(ts.observation.action_mask); idx=np.argwhere(m)[0]
    st, ts = env.step(st, jnp.array(idx, jnp.int32))
    print("tetris", i, "state.step_count", int(st.step_count), "obs.step_count", int(ts.observation.step_count))
    print(np.asarray(ts.observation.grid))
