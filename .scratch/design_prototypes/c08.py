import sys, numpy as np, jax, jax.numpy as jnp, warnings, collections
warnings.filterwarnings("ignore")
import jumanji
from jumanji.environments import *
from jumanji import specs
name=sys.argv[1]
rng=np.random.default_rng(0)
def act(env,ts,mode="masked"):
    spec=env.action_spec; m=np.asarray(ts.observation.action_mask)
    if isinstance(spec,specs.DiscreteArray):
        idx=np.flatnonzero(m); return jnp.asarray(rng.choice(idx) if len(idx) else 0,spec.dtype)
    if m.ndim==2 and spec.shape==(m.shape[0],):
        return jnp.asarray([(rng.choice(np.flatnonzero(r)) if r.any() else 0) for r in m],spec.dtype)
    idx=np.argwhere(m); return jnp.asarray(idx[rng.integers(len(idx))],spec.dtype)
def run(env,key,actions=None):
    r=jax.jit(env.reset); s=jax.jit(env.step)
    st,ts=r(key); s0=st; R=0.0; acts=[]; t=0
    while not ts.last():
        a=actions[t] if actions is not None else act(env,ts)
        acts.append(a); st,ts=s(st,a); R+=float(np.sum(np.asarray(ts.reward,dtype=np.float64))); t+=1
    return s0,st,R,acts
bad=[]; n=0
def tour(coords,traj): 
    c=coords[traj]; return float(np.linalg.norm(c-np.roll(c,-1,0),axis=1).sum())
if name=="TSP":
    from jumanji.environments.routing.tsp.generator import UniformGenerator as G
    from jumanji.environments.routing.tsp.reward import DenseReward,SparseReward
    for nc in (1,2,5,20):
        for ep in range(5):
            k=jax.random.PRNGKey(ep); s0,sd,Rd,acts=run(TSP(G(nc),DenseReward()),k); _,ss,Rs,_=run(TSP(G(nc),SparseReward()),k,acts)
            obj=-tour(np.asarray(sd.coordinates,np.float64),np.asarray(sd.trajectory)); n+=1
            if abs(Rd-obj)>1e-4 or abs(Rs-obj)>1e-4: bad.append((nc,ep,Rd,Rs,obj))
if name=="CVRP":
    from jumanji.environments.routing.cvrp.generator import UniformGenerator as G
    from jumanji.environments.routing.cvrp.reward import DenseReward,SparseReward
    for cfg in ((2,2,2),(5,10,10),(20,30,10),(10,3,3)):
        for ep in range(5):
            k=jax.random.PRNGKey(ep); s0,sd,Rd,acts=run(CVRP(G(*cfg),DenseReward()),k); _,ss,Rs,_=run(CVRP(G(*cfg),SparseReward()),k,acts)
            traj=np.asarray(sd.trajectory); obj=-tour(np.asarray(sd.coordinates,np.float64),traj); n+=1
            # capacity check
            dem=np.asarray(sd.demands); load=cfg[1]; ok=True; seen=set()
            for v in traj[1:int(sd.num_total_visits)]:
                if v==0: load=cfg[1]
                else:
                    load-=dem[v]; ok&=load>=0; ok&= v not in seen; seen.add(v)
            if abs(Rd-obj)>1e-4 or abs(Rs-obj)>1e-4 or not ok or len(seen)!=cfg[0]: bad.append((cfg,ep,Rd,Rs,obj,ok,len(seen)))
if name=="Knapsack":
    from jumanji.environments.packing.knapsack.generator import RandomGenerator as G
    from jumanji.environments.packing.knapsack.reward import DenseReward,SparseReward
    for cfg in ((3,0.5),(10,2.0),(50,12.5)):
        for ep in range(5):
            k=jax.random.PRNGKey(ep); s0,sd,Rd,acts=run(Knapsack(G(*cfg),DenseReward()),k); _,ss,Rs,_=run(Knapsack(G(*cfg),SparseReward()),k,acts)
            p=np.asarray(sd.packed_items); obj=float(np.asarray(sd.values,np.float64)[p].sum()); w=float(np.asarray(sd.weights,np.float64)[p].sum()); n+=1
            if abs(Rd-obj)>1e-4 or abs(Rs-obj)>1e-4 or w>cfg[1]+1e-5: bad.append((cfg,ep,Rd,Rs,obj,w))
if name=="Cleaner":
    from jumanji.environments.routing.cleaner.generator import RandomGenerator as G
    for cfg in ((5,5,1),(10,10,3),(7,7,2)):
        for ep in range(5):
            env=Cleaner(G(*cfg),penalty_per_timestep=0.5); s0,sT,R,acts=run(env,jax.random.PRNGKey(ep)); n+=1
            obj=(np.asarray(s0.grid)==0).sum()-(np.asarray(sT.grid)==0).sum()-0.5*len(acts)
            if abs(R-obj)>1e-4: bad.append((cfg,ep,R,obj))
if name=="Minesweeper":
    from jumanji.environments.logic.minesweeper.generator import UniformSamplingGenerator as G
    for cfg in ((2,2,1),(3,7,5),(10,10,10)):
        for ep in range(6):
            env=Minesweeper(G(*cfg)); s0,sT,R,acts=run(env,jax.random.PRNGKey(ep)); n+=1
            b=np.asarray(sT.board).ravel(); mines=set(np.asarray(sT.flat_mine_locations).tolist())
            obj=sum(1 for i,v in enumerate(b) if v>=0 and i not in mines)
            if abs(R-obj)>1e-6: bad.append((cfg,ep,R,obj))
if name=="Snake":
    for cfg in ((3,5),(6,4),(12,12)):
        for ep in range(5):
            env=Snake(*cfg,time_limit=200); s0,sT,R,acts=run(env,jax.random.PRNGKey(ep)); n+=1
            if abs(R-(int(sT.length)-1))>1e-6: bad.append((cfg,ep,R,int(sT.length)))
if name=="SlidingTilePuzzle":
    from jumanji.environments.logic.sliding_tile_puzzle.generator import RandomWalkGenerator as G
    for cfg in ((2,5),(3,20),(5,200)):
        for ep in range(4):
            env=SlidingTilePuzzle(G(*cfg),time_limit=40); s0,sT,R,acts=run(env,jax.random.PRNGKey(ep)); n+=1
            goal=np.asarray(env.solved_puzzle); obj=(np.asarray(sT.puzzle)==goal).sum()-(np.asarray(s0.puzzle)==goal).sum()
            if abs(R-obj)>1e-6: bad.append((cfg,ep,R,obj))
if name=="Game2048":
    for bs in (2,3,4):
        for ep in range(4):
            env=Game2048(bs); s0,sT,R,acts=run(env,jax.random.PRNGKey(ep)); n+=1
            if abs(R-float(sT.score))>1e-3: bad.append((bs,ep,R,float(sT.score)))
            # conservation: final tile sum = initial + spawned ; spawned unknown -> check tile sum >= R? skip
if name=="FlatPack":
    from jumanji.environments.packing.flat_pack.generator import RandomFlatPackGenerator as G
    from jumanji.environments.packing.flat_pack.reward import CellDenseReward,BlockDenseReward
    for cfg in ((1,3),(2,2),(3,2),(5,5)):
        for ep in range(3):
            k=jax.random.PRNGKey(ep); s0,sT,Rc,acts=run(FlatPack(G(*cfg),CellDenseReward()),k); _,sB,Rb,_=run(FlatPack(G(*cfg),BlockDenseReward()),k,acts); n+=1
            g=np.asarray(sT.grid); objc=(g>0).mean(); objb=np.asarray(sB.placed_blocks).mean()
            if abs(Rc-objc)>1e-4 or abs(Rb-objb)>1e-4 or len(acts)!=cfg[0]*cfg[1]: bad.append((cfg,ep,Rc,objc,Rb,objb,len(acts)))
if name=="LevelBasedForaging":
    from jumanji.environments.routing.lbf.generator import RandomGenerator as G
    # scripted: all agents walk to food & load -> hard; use random long episodes and check return == eaten level share
    for cfg in ((5,3,1),(6,4,2),(8,2,2)):
        for ep in range(4):
            env=LevelBasedForaging(G(grid_size=cfg[0],num_agents=cfg[1],num_food=cfg[2],fov=cfg[0],force_coop=False),time_limit=300)
            r=jax.jit(env.reset); s=jax.jit(env.step); st,ts=r(jax.random.PRNGKey(ep)); R=0.0
            while not ts.last():
                m=np.asarray(ts.observation.action_mask)
                a=[5 if (row[5] and rng.random()<0.7) else int(rng.choice(np.flatnonzero(row))) for row in m]
                st,ts=s(st,jnp.array(a,jnp.int32)); R+=float(np.asarray(ts.reward,np.float64).sum())
            lv=np.asarray(st.food_items.level,np.float64); e=np.asarray(st.food_items.eaten); obj=lv[e].sum()/lv.sum(); n+=1
            if abs(R-obj)>1e-4: bad.append((cfg,ep,R,obj,e.tolist()))
print(name,"episodes",n,"bad",bad[:4])
