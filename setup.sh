#!/bin/bash
# Offline setup: put icontract beside the repository's interpreter (no network, idempotent).
set -e
cd "$(dirname "$0")"
export PIP_NO_INDEX=1
if ! PYTHONPATH=.deps /venv/bin/python -c "import icontract" 2>/dev/null; then
  /venv/bin/pip install -q --no-index --find-links /opt/veriftools/wheels --no-deps --target .deps icontract asttokens six
fi
mkdir -p .cache evidence replays
PYTHONPATH=.:.deps /venv/bin/python -c "import icontract, jsonschema, jax, jumanji, jmon; print('jmon setup ok', jumanji.__version__)"
