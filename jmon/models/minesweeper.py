"""Minesweeper — independent NumPy statement of the rules (DESIGN §4; docs/environments/minesweeper.md, class docstring).

Board cells hold -1 (unexplored) or the number of mines among the 8 neighbours. Action (row, col) explores a
cell. Legal iff the cell is unexplored. Exploring an explored cell (invalid) => LAST, reward invalid_action_reward,
board unchanged; exploring a mine => LAST, reward revealed_mine_reward; otherwise reward
revealed_empty_square_reward and the episode ends when all non-mine cells are explored (solved).
Only the chosen cell is revealed (no flood fill).
"""
from __future__ import annotations

import numpy as np


def params(cfg):
    rw = cfg.get("rewards", [1.0, 0.0, 0.0])
    return {
        "rows": cfg.get("rows", 10), "cols": cfg.get("cols", 10), "mines": cfg.get("mines", 10),
        "r_empty": float(rw[0]), "r_mine": float(rw[1]), "r_invalid": float(rw[2]),
    }


def RANDOM_GENERATOR(cfg):
    return cfg.get("mines", 10) > 0


def horizon(P):
    # every non-fatal step reveals a new safe cell: rows*cols - mines of them, +1 for a fatal last move (DESIGN C11)
    p = P.params
    return p["rows"] * p["cols"] - p["mines"] + 1


def _mine_set(S):
    return set(int(x) for x in np.asarray(S["flat_mine_locations"]).ravel())


def _is_mine(S, r, c):
    C = np.asarray(S["board"]).shape[1]
    return (r * C + c) in _mine_set(S)


def _count_adjacent(mines, R, C, r, c):
    n = 0
    for dr in (-1, 0, 1):
        for dc in (-1, 0, 1):
            if dr == 0 and dc == 0:
                continue
            rr, cc = r + dr, c + dc
            if 0 <= rr < R and 0 <= cc < C and (rr * C + cc) in mines:
                n += 1
    return n


def _solved(board, mines):
    R, C = board.shape
    return all(board[r, c] >= 0 for r in range(R) for c in range(C) if (r * C + c) not in mines)


def legal(P, S, O):
    return np.asarray(S["board"]) == -1


def reaction(P, S, a, S2, ev, agent):
    r, c = int(a[0]), int(a[1])
    # accepted = the cell was newly revealed; treated as invalid = nothing revealed (and the episode is over)
    return "accepted" if int(S2["board"][r, c]) != int(S["board"][r, c]) else "invalid"


def illegal_effect(P, S, a, S2, ev, agent):
    out = []
    P.hit("invalid_explored_cell")
    if not ev.last:
        out.append("invalid_terminates: exploring an explored cell did not end the episode")
    if abs(float(ev.reward) - P.params["r_invalid"]) > 1e-6:
        out.append(f"invalid_reward: reward {float(ev.reward)} != invalid_action_reward {P.params['r_invalid']}")
    if not np.array_equal(S["board"], S2["board"]):
        out.append("invalid_board_unchanged: board changed by an invalid action")
    return out


def check_step(P, S, a, S2, reward, last, ev):
    out = []
    p = P.params
    board = np.asarray(S["board"]).astype(np.int64)
    got = np.asarray(S2["board"]).astype(np.int64)
    R, C = board.shape
    r, c = int(a[0]), int(a[1])
    mines = _mine_set(S)
    if int(S2["step_count"]) != int(S["step_count"]) + 1:
        out.append("step_count_increments: step_count did not increase by one")
    if sorted(mines) != sorted(_mine_set(S2)) or len(np.asarray(S2["flat_mine_locations"]).ravel()) != len(np.asarray(S["flat_mine_locations"]).ravel()):
        out.append("ref_mines_fixed: mine locations changed during a step")
    if board[r, c] != -1:
        P.hit("ref_invalid")
        if not last:
            out.append("ref_last: exploring an explored cell must end the episode")
        if abs(float(reward) - p["r_invalid"]) > 1e-6:
            out.append(f"ref_reward: reward {float(reward)} != invalid_action_reward {p['r_invalid']}")
        if not np.array_equal(got, board):
            out.append("ref_board: board changed by an invalid action")
        return out
    exp = board.copy()
    exp[r, c] = _count_adjacent(mines, R, C, r, c)
    if r in (0, R - 1) or c in (0, C - 1):
        P.hit("ref_border_cell")
    if exp[r, c] > 0:
        P.hit("ref_count_nonzero")
    if not np.array_equal(got, exp):
        bad = np.argwhere(got != exp)
        out.append(f"ref_board: cell {(r, c)} should show {int(exp[r, c])} neighbouring mines; {len(bad)} cells differ, e.g. {bad[0].tolist()} holds {int(got[tuple(bad[0])])}")
    if (r * C + c) in mines:
        P.hit("ref_mine")
        if not last:
            out.append("ref_last: exploring a mine must end the episode")
        if abs(float(reward) - p["r_mine"]) > 1e-6:
            out.append(f"ref_reward: reward {float(reward)} != revealed_mine_reward {p['r_mine']}")
        return out
    P.hit("ref_safe")
    if abs(float(reward) - p["r_empty"]) > 1e-6:
        out.append(f"ref_reward: reward {float(reward)} != revealed_empty_square_reward {p['r_empty']}")
    solved = _solved(exp, mines)
    if solved:
        P.hit("ref_solved")
    if bool(last) != solved:
        out.append(f"ref_last: last={bool(last)} but all safe cells explored={solved}")
    return out


def physical(P, S_prev, a, S):
    out = []
    p = P.params
    R, C, M = p["rows"], p["cols"], p["mines"]
    board = np.asarray(S["board"])
    locs = np.asarray(S["flat_mine_locations"]).ravel()
    if board.shape != (R, C):
        return [f"grid_shape: board shape {board.shape} != {(R, C)}"]
    P.hit("mines_counted")
    if len(locs) != M or len(set(locs.tolist())) != M:
        out.append(f"mine_count: {len(set(locs.tolist()))} distinct mine cells in {len(locs)} entries, configured {M}")
    if len(locs) and (locs.min() < 0 or locs.max() >= R * C):
        out.append(f"mines_in_grid: mine index outside [0, {R * C})")
    if S_prev is not None:
        P.hit("mines_constant")
        if sorted(locs.tolist()) != sorted(np.asarray(S_prev["flat_mine_locations"]).ravel().tolist()):
            out.append("mines_constant: the set of mine cells changed during the episode")
    mines = set(int(x) for x in locs)
    for r in range(R):
        for c in range(C):
            v = int(board[r, c])
            if v == -1:
                continue
            P.hit("explored_count_checked")
            if (r * C + c) in mines:
                out.append(f"explored_cells_safe: cell {(r, c)} is a mine and explored in a state from which the episode continues")
            exp = _count_adjacent(mines, R, C, r, c)
            if v != exp:
                out.append(f"explored_count_correct: cell {(r, c)} shows {v}, {exp} mines are adjacent")
            if len(out) > 6:
                return out
    return out


def objective(P, trace):
    """Safe squares revealed x revealed_empty_square_reward (+ the documented mine reward when the episode ended
    on a mine: 0 by default), recomputed from the final board and the mine locations."""
    S = trace[-1].S
    board = np.asarray(S["board"])
    R, C = board.shape
    mines = _mine_set(S)
    safe = sum(1 for r in range(R) for c in range(C) if board[r, c] >= 0 and (r * C + c) not in mines)
    boom = sum(1 for r in range(R) for c in range(C) if board[r, c] >= 0 and (r * C + c) in mines)
    P.hit("safe_squares_revealed")
    if boom:
        P.hit("ended_on_mine")
    return safe * P.params["r_empty"] + boom * P.params["r_mine"]


def instance(P, S0, ev):
    out = []
    p = P.params
    R, C, M = p["rows"], p["cols"], p["mines"]
    board = np.asarray(S0["board"])
    locs = np.asarray(S0["flat_mine_locations"]).ravel()
    P.hit("mine_instance")
    if board.shape != (R, C):
        out.append(f"board_shape: {board.shape} != {(R, C)}")
    if not (board == -1).all():
        out.append("board_unexplored: initial board has explored cells")
    if len(locs) != M:
        out.append(f"mine_count: {len(locs)} mine entries, configured {M}")
    if len(set(locs.tolist())) != len(locs):
        out.append(f"mines_distinct: only {len(set(locs.tolist()))} distinct cells among {len(locs)} mines")
    if len(locs) and (locs.min() < 0 or locs.max() >= R * C):
        out.append(f"mines_in_grid: mine index outside [0, {R * C}): min {int(locs.min())} max {int(locs.max())}")
    if int(S0["step_count"]) != 0:
        out.append("initial_step_count: step_count != 0 at reset")
    return out


def check_obs(P, S, O):
    out = []
    P.hit("obs_copies")
    if not np.array_equal(O["board"], S["board"]):
        out.append("obs_board: observation board != state board")
    if not np.array_equal(np.asarray(O["action_mask"]).astype(bool), np.asarray(S["board"]) == -1):
        out.append("obs_action_mask: observation mask != (board is unexplored)")
    n = len(np.asarray(S["flat_mine_locations"]).ravel())
    if int(O["num_mines"]) != n or int(O["num_mines"]) != P.params["mines"]:
        out.append(f"obs_num_mines: observation {int(O['num_mines'])}, state holds {n} mines, configured {P.params['mines']}")
    if int(O["step_count"]) != int(S["step_count"]):
        out.append(f"obs_step_count: observation {int(O['step_count'])} != state {int(S['step_count'])}")
    return out


# ------------------------------------------------------------------------------------------- synthetic (C09)

def synthetic(P, rng, tier):
    """count_adjacent_mines / explored_mine / is_solved on generated positions of several (non-square) shapes."""
    import jax
    import jax.numpy as jnp
    from jumanji.environments.logic.minesweeper import utils as mu
    from jumanji.environments.logic.minesweeper.types import State

    out = []
    shapes = [(2, 2, 1), (3, 7, 5), (6, 4, 23), (5, 5, 0), (4, 9, 12)]
    reps = 2 if tier == "quick" else 10
    for (R, C, M) in shapes:
        acts = np.array([(r, c) for r in range(R) for c in range(C)], np.int32)

        def f(board, locs, a):
            st = State(board=board, step_count=jnp.array(0, jnp.int32), key=jnp.zeros(2, jnp.uint32), flat_mine_locations=locs)
            return mu.count_adjacent_mines(st, a), mu.explored_mine(st, a), mu.is_solved(st)

        fn = jax.jit(jax.vmap(f, in_axes=(None, None, 0)))
        for _ in range(reps):
            locs = rng.choice(R * C, M, replace=False).astype(np.int32)
            mines = set(int(x) for x in locs)
            board = np.full((R, C), -1, np.int32)
            for i in rng.permutation(R * C)[: int(rng.integers(0, R * C + 1))]:
                r, c = divmod(int(i), C)
                if i not in mines:  # explored mines only occur in terminal states: not generated
                    board[r, c] = _count_adjacent(mines, R, C, r, c)
            if rng.random() < 0.3:  # a solved position
                for i in range(R * C):
                    if i not in mines:
                        board[divmod(i, C)] = _count_adjacent(mines, R, C, *divmod(i, C))
                    else:
                        board[divmod(i, C)] = -1
            cnt, boom, solved = (np.asarray(x) for x in fn(jnp.asarray(board), jnp.asarray(locs), jnp.asarray(acts)))
            exp_solved = _solved(board, mines)
            for k, (r, c) in enumerate(acts.tolist()):
                P.hit("synthetic_cells")
                if int(cnt[k]) != _count_adjacent(mines, R, C, r, c):
                    out.append(f"synthetic_count_adjacent_mines: {R}x{C} mines {sorted(mines)} cell {(r, c)}: {int(cnt[k])} != {_count_adjacent(mines, R, C, r, c)}")
                if bool(boom[k]) != ((r * C + c) in mines):
                    out.append(f"synthetic_explored_mine: {R}x{C} mines {sorted(mines)} cell {(r, c)}: {bool(boom[k])}")
            if bool(solved[0]) != bool(exp_solved):
                out.append(f"synthetic_is_solved: {R}x{C} mines {sorted(mines)} board {board.tolist()}: is_solved={bool(solved[0])}, reference {bool(exp_solved)}")
            if len(out) > 10:
                return out
    return out


# ------------------------------------------------------------------------------------------- policies

def _pol_complete(ctx):
    """Reveal a random unexplored safe cell (privileged: reads the mine locations)."""
    st = ctx["state"]
    board = np.asarray(st.board)
    R, C = board.shape
    mines = set(int(x) for x in np.asarray(st.flat_mine_locations).ravel())
    cand = [(r, c) for r in range(R) for c in range(C) if board[r, c] == -1 and (r * C + c) not in mines]
    if not cand:
        cand = [(r, c) for r in range(R) for c in range(C) if board[r, c] == -1] or [(0, 0)]
    return np.asarray(cand[ctx["rng"].integers(len(cand))], np.int32)


def policies(P):
    return {"complete": _pol_complete}
