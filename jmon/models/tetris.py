"""Tetris — independent NumPy statement of the rules (DESIGN §4; docs/environments/tetris.md, class docstring).

Action = (rotation index, x position). The rotated piece is a 4x4 matrix whose left column is placed at column x.
legal <=> every cell of the rotated piece lies in columns [0, cols) and the piece can descend from above the
board down to y = 0 without touching a filled cell. A legal piece falls straight down until the next row would
overlap a filled cell or the floor (no sliding under overhangs); full rows are removed and the rows above fall;
reward = [0, 40, 100, 300, 1200][lines]. Invalid action => LAST, reward 0 (the grid of that terminal state is
not specified). LAST also when the next piece has no legal placement, or when step_count reaches time_limit.

The table of the 7 pieces x 4 rotations (TETROMINOES_LIST) is imported from the repository as *data*; all
logic below is written from the rules.
"""
from __future__ import annotations

import numpy as np

REWARDS = [0.0, 40.0, 100.0, 300.0, 1200.0]
_TABLE = None


def pieces():
    global _TABLE
    if _TABLE is None:
        from jumanji.environments.packing.tetris.constants import TETROMINOES_LIST  # data only

        _TABLE = np.array(TETROMINOES_LIST, dtype=np.int64)
    return _TABLE


def params(cfg):
    return {"rows": int(cfg.get("rows", 10)), "cols": int(cfg.get("cols", 10)), "time_limit": int(cfg.get("time_limit", 400))}


def RANDOM_GENERATOR(cfg):
    return True


def time_limit(P):
    return P.params["time_limit"]


# ------------------------------------------------------------------------------------------------ rules

def cells(piece):
    return [(r, c) for r in range(4) for c in range(4) if piece[r][c]]


def fits(grid, piece, y, x):
    """Piece with its 4x4 box at (y, x): inside the columns, above the floor, on empty cells (rows < 0 are
    the free space above the board)."""
    R, C = grid.shape
    for (r, c) in cells(piece):
        rr, cc = y + r, x + c
        if cc < 0 or cc >= C or rr >= R:
            return False
        if rr >= 0 and grid[rr, cc]:
            return False
    return True


def placement_legal(grid, piece, x):
    for y in range(-4, 1):
        if not fits(grid, piece, y, x):
            return False
    return True


def drop(grid, piece, x):
    """-> (grid after locking and clearing, number of cleared rows, landing y, full-row flags before clearing)."""
    y = 0
    while fits(grid, piece, y + 1, x):
        y += 1
    g = grid.copy()
    for (r, c) in cells(piece):
        g[y + r, x + c] = True
    full = [bool(g[r].all()) for r in range(g.shape[0])]
    n = sum(full)
    kept = [g[r] for r in range(g.shape[0]) if not full[r]]
    g2 = np.zeros_like(g)
    for i, row in enumerate(kept):
        g2[n + i] = row
    return g2, n, y, np.array(full)


def legal_table(grid, idx):
    R, C = grid.shape
    T = pieces()
    L = np.zeros((4, C), bool)
    if not (0 <= idx < len(T)):
        return L
    for rot in range(4):
        for x in range(C):
            L[rot, x] = placement_legal(grid, T[idx][rot], x)
    return L


def _grid(P, S):
    R, C = P.params["rows"], P.params["cols"]
    return np.asarray(S["grid_padded"])[:R, :C] > 0


def legal(P, S, O):
    return legal_table(_grid(P, S), int(S["tetromino_index"]))


def _action_legal(P, S, a):
    rot, x = int(a[0]), int(a[1])
    idx = int(S["tetromino_index"])
    if not (0 <= rot < 4 and 0 <= x < P.params["cols"] and 0 <= idx < 7):
        return False
    return placement_legal(_grid(P, S), pieces()[idx][rot], x)


def _no_placement(P, S):
    return not bool(legal(P, S, None).any())


# ------------------------------------------------------------------------------------------------ C04 / C05

def reaction(P, S, a, S2, ev, agent):
    if not ev.last:
        return "accepted"
    if float(ev.reward) > 0:
        return "accepted"
    if int(S["step_count"]) + 1 >= P.params["time_limit"] or _no_placement(P, S2):
        return None  # LAST has another explanation: undecidable from outside
    return "invalid"


def illegal_effect(P, S, a, S2, ev, agent):
    out = []
    P.hit("illegal_placement")
    if not ev.last:
        out.append("illegal_terminates: an illegal placement did not end the episode")
    if float(ev.reward) != 0.0:
        out.append(f"illegal_reward: reward {float(ev.reward)} != 0 for an illegal placement")
    return out


# ------------------------------------------------------------------------------------------------ C09

def _padding_clean(P, S):
    R, C = P.params["rows"], P.params["cols"]
    gp = np.asarray(S["grid_padded"])
    return gp.shape == (R + 3, C + 3) and not gp[R:, :].any() and not gp[:, C:].any()


def check_step(P, S, a, S2, reward, last, ev):
    out = []
    R, C, L = P.params["rows"], P.params["cols"], P.params["time_limit"]
    a = np.asarray(a)
    rot, x = int(a[0]), int(a[1])
    reward = float(reward)
    t = int(S["step_count"])
    if int(S2["step_count"]) != t + 1:
        out.append(f"ref_step_count: step_count {int(S2['step_count'])} != {t + 1}")
    if not _action_legal(P, S, a):
        P.hit("ref_illegal_move")
        if not last:
            out.append("ref_last: an illegal placement must end the episode")
        if reward != 0.0:
            out.append(f"ref_reward: illegal placement reward {reward} != 0")
        return out
    P.hit("ref_legal_move")
    piece = pieces()[int(S["tetromino_index"])][rot]
    g2, n, y, full = drop(_grid(P, S), piece, x)
    P.hit(f"ref_lines_cleared_{n}")
    got = np.asarray(S2["grid_padded"])[:R, :C] > 0
    if not np.array_equal(got, g2):
        out.append(f"ref_grid: grid after dropping piece {int(S['tetromino_index'])} rot {rot} at x={x} (landing y={y}, {n} lines) differs from the reference in {int((got != g2).sum())} cells")
    if not _padding_clean(P, S2):
        out.append("ref_padding_clean: the padding rows/columns of grid_padded are not empty")
    if reward != REWARDS[n]:
        out.append(f"ref_reward: reward {reward} != {REWARDS[n]} for {n} cleared lines")
    if abs(float(S2["score"]) - (float(S["score"]) + REWARDS[n])) > 1e-3:
        out.append(f"ref_score: score {float(S2['score'])} != old score {float(S['score'])} + {REWARDS[n]}")
    if float(S2["reward"]) != reward:
        out.append(f"ref_state_reward: state.reward {float(S2['reward'])} != emitted reward {reward}")
    idx2 = int(S2["tetromino_index"])
    if not (0 <= idx2 < 7):
        out.append(f"ref_next_piece_in_range: tetromino_index {idx2} outside 0..6")
    elif not np.array_equal(np.asarray(S2["new_tetromino"]).astype(np.int64), pieces()[idx2][0]):
        out.append(f"ref_next_piece_rotation0: new_tetromino is not rotation 0 of piece {idx2}")
    if int(S2["x_position"]) != x:
        out.append(f"ref_x_position: x_position {int(S2['x_position'])} != chosen column {x}")
    if int(S2["y_position"]) >= 0 and int(S2["y_position"]) != y:
        out.append(f"ref_y_position: y_position {int(S2['y_position'])} != landing row {y}")
    if not np.array_equal(np.asarray(S2["full_lines"]).astype(bool)[:R], full):
        out.append(f"ref_full_lines: full_lines {np.flatnonzero(S2['full_lines']).tolist()} != expected rows {np.flatnonzero(full).tolist()}")
    if not np.array_equal(np.asarray(S2["old_tetromino_rotated"]) > 0, piece > 0):
        out.append("ref_old_tetromino: old_tetromino_rotated is not the piece that was placed")
    if not np.array_equal(S2["grid_padded_old"], S["grid_padded"]):
        out.append("ref_grid_old: grid_padded_old is not the grid before the move")
    no_next = (0 <= idx2 < 7) and not bool(legal_table(g2, idx2).any())
    if no_next:
        P.hit("ref_no_placement_for_next_piece")
    at_limit = t + 1 >= L
    if at_limit:
        P.hit("ref_time_limit")
    if bool(last) != (no_next or at_limit):
        out.append(f"ref_last: last={bool(last)} expected {no_next or at_limit} (no placement={no_next}, time limit={at_limit})")
    return out


def synthetic(P, rng, tier):
    """Random stacks (with rows prepared so that 0..4 lines complete, top row included) pushed through the public
    rule functions tetromino_action_mask / place_tetromino / clean_lines and compared with the reference."""
    import jax
    import jax.numpy as jnp
    from jumanji.environments.packing.tetris import utils as tu  # the functions under test

    out = []
    T = pieces()
    mask_fn = jax.jit(lambda gp, t: jax.vmap(tu.tetromino_action_mask, in_axes=(None, 0))(gp, t))
    place = jax.jit(tu.place_tetromino)
    clean = jax.jit(tu.clean_lines)
    shapes = []
    for sh in [(P.params["rows"], P.params["cols"]), (4, 4), (5, 12), (7, 4)]:
        if sh not in shapes:
            shapes.append(sh)
    per_shape = 30 if tier == "quick" else 200
    bad = {}

    def note(clause, msg):
        bad.setdefault(clause, msg)

    for (R, C) in shapes:
        for _ in range(per_shape):
            grid = np.zeros((R, C), bool)
            for c in range(C):
                h = rng.integers(0, R + 1) if rng.random() < 0.4 else rng.integers(0, R // 2 + 1)
                for r in range(R - h, R):
                    grid[r, c] = rng.random() < 0.85
            ti = int(rng.integers(7))
            if rng.random() < 0.75:
                # prepare rows that the piece will complete
                rot, x = int(rng.integers(4)), int(rng.integers(C))
                pc = T[ti][rot]
                if placement_legal(grid, pc, x):
                    _, _, y, _ = drop(grid, pc, x)
                    path = set()
                    for (r, c) in cells(pc):
                        for rr in range(0, y + r + 1):
                            path.add((rr, x + c))
                    rows = sorted(set(y + r for (r, c) in cells(pc)))
                    for rr in rows:
                        if rng.random() < 0.7:
                            for cc in range(C):
                                if (rr, cc) not in path:
                                    grid[rr, cc] = True
            for r in range(R):  # no row is complete before the move
                if grid[r].all():
                    grid[r, rng.integers(C)] = False
            gp = np.zeros((R + 3, C + 3), np.int32)
            gp[:R, :C] = grid * rng.integers(1, 9)
            # the mask function is specified on a 0/1 grid (the environment clips the colour ids first);
            # place_tetromino / clean_lines receive the coloured grid as in the environment
            m = np.asarray(mask_fn(jnp.asarray(np.clip(gp, 0, 1)), jnp.asarray(T[ti], jnp.int32)))
            for rot in range(4):
                pc = T[ti][rot]
                for x in range(C):
                    leg = placement_legal(grid, pc, x)
                    P.hit("syn_mask_case")
                    if bool(m[rot, x]) != leg:
                        note("syn_action_mask", f"tetromino_action_mask says {bool(m[rot, x])}, rule says {leg}: piece {ti} rot {rot} x={x} grid=\n{grid.astype(int)}")
                    if not leg:
                        continue
                    g2, n, y, full = drop(grid, pc, x)
                    P.hit(f"syn_lines_cleared_{n}")
                    if n and full[0]:
                        P.hit("syn_top_row_cleared")
                    gpn, yy = place(jnp.asarray(gp), jnp.asarray(pc, jnp.int32), x)
                    gpn = np.asarray(gpn)
                    fl = (gpn[:, :C] != 0).all(axis=1)
                    if not np.array_equal(gpn[:R, :C] > 0, _locked(grid, pc, y, x)):
                        note("syn_place_tetromino", f"place_tetromino result differs from the reference drop (landing y={y}): piece {ti} rot {rot} x={x} grid=\n{grid.astype(int)}")
                    if int(yy) >= 0 and int(yy) != y:
                        note("syn_place_y", f"place_tetromino y={int(yy)} != landing row {y}: piece {ti} rot {rot} x={x} grid=\n{grid.astype(int)}")
                    res = np.asarray(clean(jnp.asarray(gpn), jnp.asarray(fl)))
                    if not np.array_equal(res[:R, :C] > 0, g2):
                        note("syn_clean_lines", f"clean_lines result differs from the reference ({n} lines): piece {ti} rot {rot} x={x} grid=\n{grid.astype(int)}")
                    if res[R:, :].any() or res[:, C:].any():
                        note("syn_padding_clean", f"padding not empty after place/clean: piece {ti} rot {rot} x={x} grid=\n{grid.astype(int)}")
    for k, v in bad.items():
        out.append(f"{k}: {v}")
    return out


def _locked(grid, piece, y, x):
    g = grid.copy()
    for (r, c) in cells(piece):
        g[y + r, x + c] = True
    return g


# ------------------------------------------------------------------------------------------------ C07

def physical(P, S_prev, a, S):
    out = []
    R, C = P.params["rows"], P.params["cols"]
    gp = np.asarray(S["grid_padded"])
    if gp.shape != (R + 3, C + 3):
        return [f"grid_shape: grid_padded shape {gp.shape} != {(R + 3, C + 3)}"]
    if gp.min() < 0:
        out.append("cells_non_negative: grid_padded holds a negative value")
    if gp[R:, :].any() or gp[:, C:].any():
        out.append("padding_clean: a padding row/column of grid_padded is filled")
    g = gp[:R, :C] > 0
    P.hit("tetris_board_checked")
    if S_prev is None:
        if g.any():
            out.append("initial_board_empty: the board is not empty at reset")
        return out
    full_rows = [r for r in range(R) if g[r].all()]
    if full_rows:
        out.append(f"no_full_row_left: rows {full_rows} are complete but were not cleared")
    before = int((np.asarray(S_prev["grid_padded"])[:R, :C] > 0).sum())
    after = int(g.sum())
    removed = before + 4 - after
    if removed % C != 0 or not (0 <= removed // C <= 4):
        out.append(f"cell_count_conserved: {before} cells + 4 -> {after} cells; difference {removed} is not 0..4 rows of {C} cells")
        return out
    k = removed // C
    if k:
        P.hit("tetris_line_clear_conserved")
    if "full_lines" in S and int(np.asarray(S["full_lines"]).sum()) != k:
        out.append(f"cell_count_conserved: {k} rows of cells disappeared but full_lines reports {int(np.asarray(S['full_lines']).sum())}")
    if float(S["reward"]) != REWARDS[k]:
        out.append(f"cell_count_conserved: {k} rows of cells disappeared but the step reward is {float(S['reward'])}")
    idx = int(S["tetromino_index"])
    if not (0 <= idx < 7):
        out.append(f"piece_valid: tetromino_index {idx} outside 0..6")
    return out


# ------------------------------------------------------------------------------------------------ C10 / C11 / C12

def instance(P, S0, ev):
    out = physical(P, None, None, S0)
    P.hit("tetris_instance")
    idx = int(S0["tetromino_index"])
    if not (0 <= idx < 7):
        out.append(f"piece_valid: tetromino_index {idx} outside 0..6")
    elif not np.array_equal(np.asarray(S0["new_tetromino"]).astype(np.int64), pieces()[idx][0]):
        out.append(f"piece_valid: new_tetromino is not rotation 0 of piece {idx}")
    if int(S0["step_count"]) != 0 or float(S0["score"]) != 0.0:
        out.append("initial_counters: step_count or score is not 0 at reset")
    return out


def other_end_reason(P, S_prev, a, S, ev):
    return (not _action_legal(P, S_prev, np.asarray(a))) or _no_placement(P, S)


def check_obs(P, S, O):
    out = []
    R, C = P.params["rows"], P.params["cols"]
    P.hit("tetris_obs")
    exp = np.clip(np.asarray(S["grid_padded"]).astype(np.int64), 0, 1)[:R, :C]
    g = np.asarray(O["grid"])
    if g.shape != exp.shape:
        return [f"obs_grid_shape: {g.shape} != {exp.shape}"]
    if not np.array_equal(g.astype(np.int64), exp):
        out.append("obs_grid: observation grid != occupied cells (0/1) of the state grid")
    idx = int(S["tetromino_index"])
    if 0 <= idx < 7 and not np.array_equal(np.asarray(O["tetromino"]).astype(np.int64), pieces()[idx][0]):
        out.append(f"obs_tetromino: observation tetromino is not rotation 0 of piece {idx}")
    if not np.array_equal(O["tetromino"], S["new_tetromino"]):
        out.append("obs_tetromino: observation tetromino != state.new_tetromino")
    if int(O["step_count"]) != int(S["step_count"]):
        out.append(f"obs_step_count: observation {int(O['step_count'])} != state {int(S['step_count'])}")
    if not np.array_equal(O["action_mask"], S["action_mask"]):
        out.append("obs_action_mask: observation mask != state mask")
    return out


# ------------------------------------------------------------------------------------------------ workloads

def policies(P):
    R, C = P.params["rows"], P.params["cols"]

    def _cands(ctx):
        m = np.asarray(ctx["ts"].observation.action_mask).astype(bool)
        return [(int(r), int(x)) for r, x in np.argwhere(m)]

    def stacker(ctx):
        """Mask-respecting line hunter: one-step look-ahead with the reference drop (lines, holes, height)."""
        cands = _cands(ctx)
        if not cands:
            ctx["legal_only"] = False
            return np.asarray([0, 0], np.int32)
        S = ctx["state"]
        grid = np.asarray(S.grid_padded)[:R, :C] > 0
        idx = int(np.asarray(S.tetromino_index))
        best, best_score = cands[0], None
        for (rot, x) in cands:
            pc = pieces()[idx][rot]
            if not placement_legal(grid, pc, x):
                continue
            g2, n, y, _ = drop(grid, pc, x)
            heights = [(R - int(np.argmax(g2[:, c]))) if g2[:, c].any() else 0 for c in range(C)]
            holes = sum(int((~g2[R - heights[c]:, c]).sum()) for c in range(C))
            bump = sum(abs(heights[c] - heights[c + 1]) for c in range(C - 1))
            score = 1000 * n - 12 * holes - 2 * sum(heights) - bump + ctx["rng"].random()
            if best_score is None or score > best_score:
                best, best_score = (rot, x), score
        return np.asarray(best, np.int32)

    def frontier(ctx):
        """Mask-respecting play hugging the extreme columns (alternating left / right wall)."""
        cands = _cands(ctx)
        if not cands:
            ctx["legal_only"] = False
            return np.asarray([0, C - 1], np.int32)
        xs = [x for _, x in cands]
        tx = min(xs) if ctx["t"] % 2 == 0 else max(xs)
        pick = [c for c in cands if c[1] == tx]
        return np.asarray(pick[int(ctx["rng"].integers(len(pick)))], np.int32)

    return {"complete": stacker, "frontier": frontier}
