"""GraphColoring — independent NumPy statement of the rules (DESIGN §4; docs/environments/graph_coloring.md).

Nodes are coloured one per step in index order (current_node_index); num_colors = num_nodes. Colour c is legal
for the current node iff no already-coloured neighbour of that node has colour c (all colours assigned so far
count, including the one assigned in the previous step). Invalid action => LAST, reward -num_nodes. When the
last node is coloured => LAST, reward -(number of distinct colours used); all other steps reward 0.
"""
from __future__ import annotations

import numpy as np


def params(cfg):
    return {"num_nodes": cfg.get("num_nodes", 20), "edge_probability": cfg.get("edge_probability", 0.8)}


def RANDOM_GENERATOR(cfg):
    return True


def horizon(P):
    return P.params["num_nodes"]


def _legal_colors(adj, colors, node):
    n = len(colors)
    ok = np.ones(n, bool)
    for j in range(n):
        if adj[node, j] and colors[j] >= 0 and colors[j] < n:
            ok[int(colors[j])] = False
    return ok


def _mono_edges(adj, colors):
    n = len(colors)
    return [(i, j) for i in range(n) for j in range(i + 1, n) if (adj[i, j] or adj[j, i]) and colors[i] >= 0 and colors[i] == colors[j]]


def legal(P, S, O):
    return _legal_colors(np.asarray(S["adj_matrix"]), np.asarray(S["colors"]), int(S["current_node_index"]))


def reaction(P, S, a, S2, ev, agent):
    n = P.params["num_nodes"]
    if not ev.last or float(ev.reward) != -float(n):
        return "accepted"
    if (np.asarray(S2["colors"]) < 0).any():
        return "invalid"  # not complete, so -num_nodes can only be the invalid-move penalty
    return None  # a completion that used num_nodes colours earns the same reward: undecidable


def illegal_effect(P, S, a, S2, ev, agent):
    out = []
    n = P.params["num_nodes"]
    P.hit("invalid_colour_conflict")
    if not ev.last:
        out.append("invalid_terminates: a conflicting colour did not end the episode")
    if float(ev.reward) != -float(n):
        out.append(f"invalid_reward: reward {float(ev.reward)} != -num_nodes = {-n}")
    return out


def check_step(P, S, a, S2, reward, last, ev):
    out = []
    n = P.params["num_nodes"]
    a = int(a)
    adj = np.asarray(S["adj_matrix"])
    colors = np.asarray(S["colors"]).astype(np.int64)
    cur = int(S["current_node_index"])
    if not np.array_equal(S2["adj_matrix"], adj):
        out.append("ref_graph_fixed: adjacency matrix changed during a step")
    if not _legal_colors(adj, colors, cur)[a]:
        P.hit("ref_invalid")
        if not last:
            out.append("ref_last: an invalid colour must end the episode")
        if float(reward) != -float(n):
            out.append(f"ref_reward: reward {float(reward)} != -num_nodes = {-n}")
        return out
    P.hit("ref_valid")
    exp = colors.copy()
    exp[cur] = a
    if not np.array_equal(S2["colors"], exp):
        out.append(f"ref_colors: successor colours are not the old colours with node {cur} := {a}")
    done = bool((exp >= 0).all())
    if done:
        P.hit("ref_completed")
        er = -float(len(set(exp.tolist())))
    else:
        er = 0.0
        if int(S2["current_node_index"]) != cur + 1:
            out.append(f"ref_next_node: current_node_index {int(S2['current_node_index'])} != {cur + 1}")
    if float(reward) != er:
        out.append(f"ref_reward: reward {float(reward)} != {er} (all nodes coloured: {done})")
    if bool(last) != done:
        out.append(f"ref_last: last={bool(last)} but all nodes coloured={done}")
    return out


def hard_constraints(P, trace):
    out = []
    S = trace[-1].S
    n = P.params["num_nodes"]
    adj, colors = np.asarray(S["adj_matrix"]), np.asarray(S["colors"])
    P.hit("no_monochromatic_edge")
    if colors.shape != (n,) or colors.min() < -1 or colors.max() >= n:
        return [f"colors_in_range: colours shape {colors.shape}, values [{int(colors.min())}, {int(colors.max())}] outside -1..{n - 1}"]
    bad = _mono_edges(adj, colors)
    if bad:
        i, j = bad[0]
        out.append(f"no_monochromatic_edge: {len(bad)} edges join nodes of equal colour, e.g. {i}-{j} both {int(colors[i])}")
    if len(trace) > 1:
        prev = np.asarray(trace[-2].S["colors"])
        if ((prev >= 0) & (prev != colors)).any():
            out.append("colors_kept: an already coloured node changed its colour")
        if (colors >= 0).sum() != (prev >= 0).sum() + 1:
            out.append("one_node_per_step: the number of coloured nodes did not grow by one")
    return out


def complete(P, trace):
    S = trace[-1].S
    colors = np.asarray(S["colors"])
    if (colors < 0).any():
        return None
    out = []
    P.hit("complete_colouring")
    bad = _mono_edges(np.asarray(S["adj_matrix"]), colors)
    if bad:
        out.append(f"complete_proper_colouring: {len(bad)} monochromatic edges in the final colouring, e.g. {bad[0]}")
    if len(trace) - 1 != len(colors):
        out.append(f"complete_in_n_steps: completed after {len(trace) - 1} steps, {len(colors)} nodes")
    return out


def objective(P, trace):
    colors = np.asarray(trace[-1].S["colors"])
    if (colors < 0).any():
        return None  # not ended by completion
    P.hit("minus_colours_used")
    return -float(len(set(colors.tolist())))


def instance(P, S0, ev):
    out = []
    n = P.params["num_nodes"]
    adj = np.asarray(S0["adj_matrix"])
    P.hit("graph_instance")
    if adj.shape != (n, n):
        return [f"adjacency_shape: {adj.shape} != {(n, n)}"]
    if not np.array_equal(adj, adj.T):
        i, j = np.argwhere(adj != adj.T)[0]
        out.append(f"adjacency_symmetric: adj[{i},{j}] != adj[{j},{i}]")
    if np.diag(adj).any():
        out.append(f"no_self_loops: nodes {np.flatnonzero(np.diag(adj)).tolist()[:5]} are adjacent to themselves")
    if not (np.asarray(S0["colors"]) == -1).all():
        out.append("initial_uncoloured: some node is coloured at reset")
    if int(S0["current_node_index"]) != 0:
        out.append("initial_node: current_node_index != 0 at reset")
    return out


def check_obs(P, S, O):
    out = []
    P.hit("obs_copies")
    for f in ("adj_matrix", "colors", "action_mask"):
        if not np.array_equal(O[f], S[f]):
            out.append(f"obs_{f}: observation {f} != state {f}")
    if int(O["current_node_index"]) != int(S["current_node_index"]):
        out.append("obs_current_node_index: observation != state")
    return out


# ------------------------------------------------------------------------------------------- policies

def _pol_greedy(ctx):
    """Largest legal colour already in use, else the largest free one (adversarial fill order)."""
    m = np.asarray(ctx["ts"].observation.action_mask)
    used = set(int(c) for c in np.asarray(ctx["state"].colors) if c >= 0)
    cand = [c for c in np.flatnonzero(m) if int(c) in used] or list(np.flatnonzero(m))
    if not cand:
        ctx["legal_only"] = False
        return np.asarray(0, np.int32)
    return np.asarray(cand[-1], np.int32)


def _pol_complete(ctx):
    """Legal colours always exist (num_colors = num_nodes): random legal colour, reusing colours half of the time."""
    m = np.asarray(ctx["ts"].observation.action_mask)
    idx = np.flatnonzero(m)
    if len(idx) == 0:
        ctx["legal_only"] = False
        return np.asarray(0, np.int32)
    used = set(int(c) for c in np.asarray(ctx["state"].colors) if c >= 0)
    reuse = [c for c in idx if int(c) in used]
    if reuse and ctx["rng"].random() < 0.5:
        return np.asarray(reuse[ctx["rng"].integers(len(reuse))], np.int32)
    return np.asarray(idx[ctx["rng"].integers(len(idx))], np.int32)


def _pol_rainbow(ctx):
    """A colour no node uses yet, every time (always legal): the episode ends with as many colours as nodes - the saturated
    end of the colour range, which no colour-reusing player reaches on sparse graphs."""
    m = np.asarray(ctx["ts"].observation.action_mask)
    used = set(int(c) for c in np.asarray(ctx["state"].colors) if c >= 0)
    fresh = [int(c) for c in np.flatnonzero(m) if int(c) not in used]
    if not fresh:
        return _pol_complete(ctx)
    return np.asarray(fresh[int(ctx["rng"].integers(len(fresh)))], np.int32)


def policies(P):
    return {"complete": _pol_complete, "greedy": _pol_greedy, "frontier": _pol_rainbow}
