"""Sokoban — independent NumPy statement of the rules (DESIGN §4; docs/environments/sokoban.md, class docstring).

10x10 level. fixed_grid: 0 empty, 1 wall, 2 target. variable_grid: 0 empty, 3 agent, 4 box. Actions 0..3 = up,
right, down, left (class docstring / action_spec / DESIGN §4; the .md and the step docstring list another order —
the rule sheet's order is used). The agent moves one cell unless the cell is outside the grid or a wall; a box on
that cell is pushed one cell further if the cell beyond is inside the grid, not a wall and not a box, otherwise
nothing moves (no chained pushes). A move that changes nothing still counts a step. Dense reward = change in the
number of boxes on targets + 10 when all 4 boxes are on targets - 0.1; sparse reward = 10 when solved, else 0.
Ends: all 4 boxes on targets, time limit (default 120). There is no action mask.
"""
from __future__ import annotations

from collections import deque

import numpy as np

MOVES = [(-1, 0), (0, 1), (1, 0), (0, -1)]  # up, right, down, left
EMPTY, WALL, TARGET, AGENT, BOX = 0, 1, 2, 3, 4
N = 10
N_BOXES = 4


def params(cfg):
    return {"time_limit": cfg.get("time_limit") or 120, "reward": cfg.get("reward", "dense"), "gen": cfg.get("gen", "toy")}


def RANDOM_GENERATOR(cfg):
    # toy: one of two levels chosen by the key; harness: one of 24; simple: a single hard-coded level
    return cfg.get("gen", "toy") in ("toy", "harness")


def time_limit(P):
    return P.params["time_limit"]


def _agent(S):
    a = np.asarray(S["agent_location"]).reshape(-1)
    return int(a[0]), int(a[1])


def _inside(r, c):
    return 0 <= r < N and 0 <= c < N


def _ref(S, a):
    """Reference move: (new variable grid, new agent cell, pushed?, changed?)."""
    fixed = S["fixed_grid"]
    var = S["variable_grid"].astype(np.int64).copy()
    r, c = _agent(S)
    dr, dc = MOVES[a]
    nr, nc = r + dr, c + dc
    if not _inside(nr, nc) or int(fixed[nr, nc]) == WALL:
        return var, (r, c), False, False
    pushed = False
    if int(var[nr, nc]) == BOX:
        br, bc = nr + dr, nc + dc
        if not _inside(br, bc) or int(fixed[br, bc]) == WALL or int(var[br, bc]) == BOX:
            return var, (r, c), False, False
        var[br, bc] = BOX
        pushed = True
    var[r, c] = EMPTY
    var[nr, nc] = AGENT
    return var, (nr, nc), pushed, True


def _on_target(fixed, var):
    return int(((np.asarray(var) == BOX) & (np.asarray(fixed) == TARGET)).sum())


def legal(P, S, O):
    """No mask in this environment: True where the move changes the level (the others are the ignored moves)."""
    return np.array([_ref(S, a)[3] for a in range(4)], bool)


def _block_kind(S, a):
    fixed, var = S["fixed_grid"], S["variable_grid"]
    r, c = _agent(S)
    dr, dc = MOVES[a]
    nr, nc = r + dr, c + dc
    if not _inside(nr, nc):
        return "blocked_by_edge"
    if int(fixed[nr, nc]) == WALL:
        return "blocked_by_wall"
    br, bc = nr + dr, nc + dc
    if not _inside(br, bc):
        return "push_against_edge"
    if int(fixed[br, bc]) == WALL:
        return "push_against_wall"
    return "push_against_box"


def illegal_effect(P, S, a, S2, ev, agent):
    out = []
    a = int(a)
    P.hit("illegal_ignored")
    P.hit("illegal_" + _block_kind(S, a))
    if _agent(S2) != _agent(S):
        out.append(f"illegal_agent_stays: agent moved from {_agent(S)} to {_agent(S2)} on a blocked move {a}")
    if not np.array_equal(S2["variable_grid"], S["variable_grid"]):
        out.append("illegal_boxes_untouched: the variable grid (agent / boxes) changed on a blocked move")
    if not np.array_equal(S2["fixed_grid"], S["fixed_grid"]):
        out.append("illegal_level_untouched: the fixed grid changed on a blocked move")
    if ev.last and not (int(S2["step_count"]) >= P.params["time_limit"] or _on_target(S2["fixed_grid"], S2["variable_grid"]) == N_BOXES):
        out.append("illegal_does_not_terminate: the episode ended because of a blocked (ignored) move")
    return out


def _reward(P, before, after):
    solved = after == N_BOXES
    if P.params["reward"] == "sparse":
        return 10.0 * solved
    return (after - before) + 10.0 * solved - 0.1


def check_step(P, S, a, S2, reward, last, ev):
    out = []
    a = int(a)
    var, loc, pushed, changed = _ref(S, a)
    if not changed:
        P.hit("ref_" + _block_kind(S, a))
    elif pushed:
        P.hit("ref_push")
    else:
        P.hit("ref_walk")
    if not np.array_equal(S2["variable_grid"].astype(np.int64), var):
        out.append(f"ref_variable_grid: agent/box layout differs from the reference move (action {a}, pushed={pushed}, changed={changed})")
    if _agent(S2) != loc:
        out.append(f"ref_agent_location: agent_location {_agent(S2)} expected {loc}")
    if not np.array_equal(S2["fixed_grid"], S["fixed_grid"]):
        out.append("ref_fixed_grid_constant: walls/targets changed")
    if int(S2["step_count"]) != int(S["step_count"]) + 1:
        out.append("step_count_increments: step_count did not increase by one")
    before = _on_target(S["fixed_grid"], S["variable_grid"])
    after = _on_target(S["fixed_grid"], var)
    if after != before:
        P.hit("ref_box_on_off_target")
    exp_r = _reward(P, before, after)
    if abs(float(reward) - exp_r) > 1e-5:
        out.append(f"ref_reward: reward {float(reward)} != {exp_r} (boxes on target {before}->{after}, {P.params['reward']})")
    solved = after == N_BOXES
    limit = int(S["step_count"]) + 1 >= P.params["time_limit"]
    if solved:
        P.hit("ref_solved")
    if limit:
        P.hit("ref_time_limit")
    if bool(last) != (solved or limit):
        out.append(f"ref_last: last={bool(last)} expected {solved or limit} (solved={solved}, limit={limit})")
    if "solved" in ev.X and bool(ev.X["solved"]) != solved:
        out.append(f"ref_extras_solved: extras['solved']={bool(ev.X['solved'])} but the reference says {solved}")
    return out


def physical(P, S_prev, a, S):
    out = []
    fixed, var = S["fixed_grid"], S["variable_grid"]
    P.hit("boxes_and_agent_counted")
    if fixed.shape != (N, N) or var.shape != (N, N):
        return [f"grid_shape: grids {fixed.shape}/{var.shape} != {(N, N)}"]
    if not np.isin(fixed, (EMPTY, WALL, TARGET)).all():
        out.append("fixed_grid_encoding: fixed grid holds values other than 0/1/2")
    if not np.isin(var, (EMPTY, AGENT, BOX)).all():
        out.append("variable_grid_encoding: variable grid holds values other than 0/3/4")
    nb, na = int((var == BOX).sum()), int((var == AGENT).sum())
    if nb != N_BOXES:
        out.append(f"four_boxes: {nb} boxes on the board")
    if na != 1:
        out.append(f"one_agent: {na} agent cells on the board")
    r, c = _agent(S)
    if not _inside(r, c):
        out.append(f"agent_in_grid: agent_location {(r, c)} outside the 10x10 level")
    elif int(var[r, c]) != AGENT:
        out.append(f"agent_location_agrees: agent_location {(r, c)} is not the agent cell of the variable grid")
    if bool(((var != EMPTY) & (fixed == WALL)).any()):
        out.append("nothing_on_walls: a box or the agent stands on a wall")
    if S_prev is not None:
        P.hit("level_constant")
        if not np.array_equal(S_prev["fixed_grid"], fixed):
            out.append("fixed_grid_constant: walls/targets changed during a step")
        b0, b1 = S_prev["variable_grid"] == BOX, var == BOX
        moved = int((b0 & ~b1).sum())
        if moved:
            P.hit("box_moved")
        if moved > 1:
            out.append(f"one_box_per_move: {moved} boxes left their cells in one step")
    return out


def instance(P, S0, ev):
    out = physical(P, None, None, S0)
    P.hit("level_well_formed")
    nt = int((S0["fixed_grid"] == TARGET).sum())
    if nt != N_BOXES:
        out.append(f"four_targets: {nt} targets in the level")
    if int(S0["step_count"]) != 0:
        out.append("initial_counters: step_count != 0 at reset")
    if _on_target(S0["fixed_grid"], S0["variable_grid"]) == N_BOXES:
        out.append("not_solved_at_reset: all boxes already on targets")
    return out


def other_end_reason(P, S_prev, a, S, ev):
    return _on_target(S["fixed_grid"], S["variable_grid"]) == N_BOXES


def check_obs(P, S, O):
    out = []
    P.hit("obs_two_channels")
    exp = np.stack([S["variable_grid"], S["fixed_grid"]], -1)
    g = O["grid"]
    if g.shape != exp.shape:
        return [f"obs_grid_shape: {g.shape} != {exp.shape}"]
    if not np.array_equal(g[..., 0], exp[..., 0]):
        out.append("obs_variable_channel: channel 0 differs from the variable grid")
    if not np.array_equal(g[..., 1], exp[..., 1]):
        out.append("obs_fixed_channel: channel 1 differs from the fixed grid")
    if int(O["step_count"]) != int(S["step_count"]):
        out.append(f"obs_step_count: observation {int(O['step_count'])} != state {int(S['step_count'])}")
    return out


# ------------------------------------------------------------------------------------------------ policies

SIMPLE_SOLUTION = [0, 2, 1, 0, 2, 1, 0, 2, 1, 0]  # push the four boxes of the SimpleSolve level up onto the targets


def _np_state(ctx):
    st = ctx["state"]
    loc = np.asarray(st.agent_location)
    return np.asarray(st.fixed_grid), np.asarray(st.variable_grid), (int(loc[0]), int(loc[1]))


def _walk_to(fixed, var, start, goal):
    """First move of a shortest agent walk (walls and boxes are obstacles) from start to goal; None if none."""
    if start == goal:
        return None
    prev = {start: None}
    dq = deque([start])
    while dq:
        cur = dq.popleft()
        for k, (dr, dc) in enumerate(MOVES):
            n = (cur[0] + dr, cur[1] + dc)
            if not _inside(*n) or n in prev or fixed[n] == WALL or var[n] == BOX:
                continue
            prev[n] = (cur, k)
            if n == goal:
                while prev[n][0] != start:
                    n = prev[n][0]
                return prev[n][1]
            dq.append(n)
    return None


def _dist_map(fixed, var, start):
    dist = {start: 0}
    dq = deque([start])
    while dq:
        cur = dq.popleft()
        for dr, dc in MOVES:
            n = (cur[0] + dr, cur[1] + dc)
            if _inside(*n) and n not in dist and fixed[n] != WALL and var[n] != BOX:
                dist[n] = dist[cur] + 1
                dq.append(n)
    return dist


def pol_push(ctx):
    """Walk behind a box and keep pushing it in one direction until it is stuck (against a wall, a box or the
    grid edge), push once more (a blocked move), then pick another box / direction."""
    fixed, var, pos = _np_state(ctx)
    rng = ctx["rng"]
    for _ in range(3):
        plan = ctx.get("sk_plan")
        if plan is None:
            boxes = [(int(r), int(c)) for r, c in zip(*np.nonzero(var == BOX))]
            dist = _dist_map(fixed, var, pos)
            cands = []
            for b in boxes:
                for k, (dr, dc) in enumerate(MOVES):
                    behind = (b[0] - dr, b[1] - dc)
                    if behind not in dist or (b, k) in ctx.setdefault("sk_done", set()):
                        continue
                    # cost = walk behind the box + pushes until it is stuck + the blocked push
                    n, cur = 0, (b[0] + dr, b[1] + dc)
                    while _inside(*cur) and fixed[cur] != WALL and var[cur] != BOX:
                        n, cur = n + 1, (cur[0] + dr, cur[1] + dc)
                    cands.append((dist[behind] + n + 1 + (0 if not _inside(*cur) else 4), b, k))
            if not cands:
                return np.asarray(rng.integers(0, 4), np.int32)
            sub = [c for c in cands if rng.random() < 0.5] or cands
            _, b, k = min(sub, key=lambda c: c[0])
            plan = ctx["sk_plan"] = {"box": b, "dir": k, "extra": 1}
        b, k = plan["box"], plan["dir"]
        dr, dc = MOVES[k]
        if var[b] != BOX:
            ctx["sk_plan"] = None
            continue
        behind = (b[0] - dr, b[1] - dc)
        if pos != behind:
            m = _walk_to(fixed, var, pos, behind)
            if m is None:
                ctx["sk_plan"] = None
                continue
            return np.asarray(m, np.int32)
        beyond = (b[0] + dr, b[1] + dc)
        free = _inside(*beyond) and fixed[beyond] != WALL and var[beyond] != BOX
        if free:
            plan["box"] = beyond
            return np.asarray(k, np.int32)
        if plan["extra"] > 0:
            plan["extra"] -= 1
            return np.asarray(k, np.int32)  # the blocked push
        ctx.setdefault("sk_done", set()).add((b, k))
        ctx["sk_plan"] = None
    return np.asarray(rng.integers(0, 4), np.int32)


def policies(P):
    pols = {"frontier": pol_push}
    if P.params["gen"] == "simple":
        def pol_complete(ctx):
            t = ctx["t"]
            return np.asarray(SIMPLE_SOLUTION[t] if t < len(SIMPLE_SOLUTION) else int(ctx["rng"].integers(0, 4)), np.int32)

        pols["complete"] = pol_complete
    return pols
