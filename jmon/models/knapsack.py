"""Knapsack — independent NumPy statement of the rules (DESIGN §4; docs/environments/knapsack.md, class docstring).

Action = index of the item to pack. legal <=> the item is not packed yet and its weight <= remaining budget.
A legal action packs the item and lowers the remaining budget by its weight. Invalid action => LAST, reward 0,
state untouched. The episode ends when no legal item is left (horizon n). Dense reward = value of the item
packed; sparse reward = total value of the packed items on the final step, 0 before.
"""
from __future__ import annotations

import numpy as np

PROBLEM_FIELDS = ["weights", "values", "packed_items", "remaining_budget"]


def params(cfg):
    return {"n": int(cfg.get("items", 50)), "budget": float(cfg.get("budget", 12.5)), "reward": cfg.get("reward", "dense")}


def RANDOM_GENERATOR(cfg):
    return True


def horizon(P):
    return P.params["n"]


def _tol(P):
    # float32 bookkeeping of up to n subtractions of numbers <= budget
    return 1e-4 * max(1.0, P.params["budget"])


def legal(P, S, O):
    n = len(S["weights"])
    L = np.zeros(n, bool)
    rem = S["remaining_budget"]
    for i in range(n):
        # both sides are the environment's own float32 numbers: the comparison is exact
        L[i] = (not bool(S["packed_items"][i])) and bool(S["weights"][i] <= rem)
        if not bool(S["packed_items"][i]) and abs(float(S["weights"][i]) - float(rem)) <= 4e-7 * max(1.0, float(rem)):
            P.hit("item_weight_equals_remaining_budget_up_to_roundoff")
    return L


def _untouched(S, S2):
    return [f for f in PROBLEM_FIELDS if not np.array_equal(S[f], S2[f])]


def reaction(P, S, a, S2, ev, agent):
    if ev.last and np.array_equal(S["packed_items"], S2["packed_items"]):
        return "invalid"
    return "accepted"


def _illegal_kind(S, a):
    return "illegal_already_packed" if bool(S["packed_items"][a]) else "illegal_too_heavy"


def illegal_effect(P, S, a, S2, ev, agent):
    out = []
    P.hit(_illegal_kind(S, int(a)))
    if not ev.last:
        out.append("illegal_terminates: an invalid item did not end the episode")
    if float(ev.reward) != 0.0:
        out.append(f"illegal_reward: reward {float(ev.reward)} != 0 for an invalid item")
    bad = _untouched(S, S2)
    if bad:
        out.append(f"illegal_state_untouched: fields {bad} changed on an invalid action")
    return out


def check_step(P, S, a, S2, reward, last, ev):
    out = []
    a = int(a)
    reward = float(reward)
    if not bool(legal(P, S, None)[a]):
        P.hit("ref_illegal_move")
        P.hit("ref_" + _illegal_kind(S, a))
        if not last:
            out.append("ref_last: an invalid item must end the episode")
        if reward != 0.0:
            out.append(f"ref_reward: invalid action reward {reward} != 0")
        bad = _untouched(S, S2)
        if bad:
            out.append(f"ref_state_untouched: fields {bad} changed on an invalid action")
        return out
    P.hit("ref_legal_move")
    packed = S["packed_items"].astype(bool).copy()
    packed[a] = True
    rem = float(S["remaining_budget"]) - float(S["weights"][a])
    if not np.array_equal(S2["packed_items"].astype(bool), packed):
        out.append("ref_packed_items: packed items are not the old set plus the chosen item")
    if abs(float(S2["remaining_budget"]) - rem) > 1e-5 * max(1.0, P.params["budget"]):
        out.append(f"ref_remaining_budget: {float(S2['remaining_budget'])} != expected {rem}")
    if not np.array_equal(S2["weights"], S["weights"]) or not np.array_equal(S2["values"], S["values"]):
        out.append("ref_instance_constant: weights or values changed during the episode")
    exp_last = not bool(legal(P, S2, None).any())
    if exp_last:
        P.hit("ref_no_item_fits")
    if bool(last) != exp_last:
        out.append(f"ref_last: last={bool(last)} expected {exp_last} (a legal item remains: {not exp_last})")
    if P.params["reward"] == "sparse":
        exp = float(np.sum(S["values"].astype(np.float64)[packed])) if exp_last else 0.0
    else:
        exp = float(S["values"][a])
    if abs(reward - exp) > 1e-4:
        out.append(f"ref_reward: reward {reward} != expected {exp} ({P.params['reward']})")
    return out


def _mask_respecting(ev):
    """Was the action of step event `ev` offered by the mask the agent saw? (the statement of C06/C08 is about
    mask-respecting play; the workload layer normally guarantees it, this is a second line of defence, e.g.
    for deterministic policies facing an empty mask)."""
    O0 = ev.O0
    if O0 is None or "action_mask" not in O0:
        return True
    m = np.asarray(O0["action_mask"]).astype(bool)
    a = int(ev.action)
    return 0 <= a < len(m) and bool(m[a])


def hard_constraints(P, trace):
    out = []
    # the budget of the *instance* (a generator may hand out per-instance budgets below the nominal one)
    B = float(trace[0].S["remaining_budget"]) if P.cfg.get("gen") == "varbudget" else P.params["budget"]
    tol = _tol(P)
    sh = P.shadow
    if "n_seen" not in sh:
        sh.update(n_seen=1, items=[])
    for ev in trace[sh["n_seen"]:]:
        if not _mask_respecting(ev):
            sh["void"] = True
        if sh.get("void"):
            break
        a = int(ev.action)
        if a in sh["items"]:
            out.append(f"no_item_twice: item {a} packed twice")
        sh["items"].append(a)
        P.hit("item_packed")
    sh["n_seen"] = len(trace)
    if sh.get("void"):
        return []  # a masked-out action was played: outside the statement from here on
    S = trace[-1].S
    packed = S["packed_items"].astype(bool)
    w = float(np.sum(S["weights"].astype(np.float64)[packed]))
    rem = float(S["remaining_budget"])
    if w > B + tol:
        out.append(f"weight_within_budget: packed weight {w} exceeds the budget {B}")
    if abs((B - rem) - w) > tol:
        out.append(f"budget_bookkeeping: budget - remaining = {B - rem} != packed weight {w}")
    if rem < -tol:
        out.append(f"weight_within_budget: remaining budget {rem} is negative")
    if sorted(np.flatnonzero(packed).tolist()) != sorted(set(sh["items"])):
        out.append("packed_matches_actions: packed items differ from the items chosen")
    return out


def complete(P, trace):
    if not all(_mask_respecting(e) for e in trace[1:]):
        return None
    S = trace[-1].S
    P.hit("packing_maximal")
    fits = np.flatnonzero(legal(P, S, None))
    if len(fits):
        return [f"complete_maximal: the episode ended although item {int(fits[0])} is unpacked and still fits"]
    return []


def objective(P, trace):
    if not all(_mask_respecting(e) for e in trace[1:]):
        return None
    S = trace[-1].S
    P.hit("packed_value")
    return float(np.sum(S["values"].astype(np.float64)[S["packed_items"].astype(bool)]))


def instance(P, S0, ev):
    out = []
    n, B = P.params["n"], P.params["budget"]
    w, v = S0["weights"], S0["values"]
    P.hit("knapsack_instance")
    if w.shape != (n,) or v.shape != (n,):
        return [f"instance_shape: weights {w.shape}, values {v.shape} for {n} items"]
    for nm, x in (("weights", w), ("values", v)):
        if not (np.all(np.isfinite(x)) and np.all(x >= 0.0) and np.all(x <= 1.0)):
            out.append(f"{nm}_in_unit_interval: a value of {nm} lies outside [0, 1]")
    if bool(np.any(S0["packed_items"])):
        out.append("initial_knapsack_empty: an item is packed at reset")
    if abs(float(S0["remaining_budget"]) - B) > 1e-6 * max(1.0, B):
        out.append(f"initial_budget: remaining budget {float(S0['remaining_budget'])} != total budget {B}")
    return out


def check_obs(P, S, O):
    out = []
    P.hit("knapsack_obs_copies")
    for f in ("weights", "values", "packed_items"):
        if not np.array_equal(O[f], S[f]):
            out.append(f"obs_{f}: observation {f} != state {f}")
    # the mask is a documented function of the state the observation comes with ("items that are not packed and fit in the
    # remaining budget"): recomputed from the state's own float32 numbers, so the comparison is exact
    m = np.asarray(O["action_mask"]).astype(bool)
    exp = (~np.asarray(S["packed_items"]).astype(bool)) & (np.asarray(S["weights"]) <= S["remaining_budget"])
    if m.shape != exp.shape or not np.array_equal(m, exp):
        out.append(f"obs_action_mask_from_state: mask differs from ~packed & (weights <= state.remaining_budget) at items {np.flatnonzero(m != exp)[:5].tolist() if m.shape == exp.shape else 'shape'}")
    return out


def policies(P):
    def _pick(ctx, score):
        S = ctx["state"]
        w = np.asarray(S.weights, np.float64)
        v = np.asarray(S.values, np.float64)
        ok = (~np.asarray(S.packed_items).astype(bool)) & (np.asarray(S.weights) <= np.asarray(S.remaining_budget))
        idx = np.flatnonzero(ok)
        if len(idx) == 0:
            ctx["legal_only"] = False
            return np.asarray(0, np.int32)
        return np.asarray(idx[int(np.argmax(score(w[idx], v[idx])))], np.int32)

    def lightest(ctx):  # packs as many items as possible: long episodes, tight budgets at the end
        return _pick(ctx, lambda w, v: -w)

    def ratio(ctx):  # classic greedy by value density
        return _pick(ctx, lambda w, v: v / np.maximum(w, 1e-9))

    def heaviest(ctx):  # adversarial fill order: budget exhausted quickly, many too-heavy items left
        return _pick(ctx, lambda w, v: w)

    return {"complete": lightest, "greedy": ratio, "frontier": heaviest}
