"""CVRP — independent NumPy statement of the rules (DESIGN §4; docs/environments/cvrp.md, class docstring).

Node 0 is the depot, nodes 1..n are customers. legal(customer) <=> unvisited and demand <= current load;
legal(depot) <=> the vehicle is not at the depot. Visiting the depot refills the load to max_capacity.
Invalid action => LAST, reward -2*n*sqrt(2), state untouched. The episode ends when every customer has been
served and the vehicle is back at the depot (horizon 2n). Dense reward = minus the leg travelled (the return
to the depot is the closing leg), sparse = minus the whole tour length on the final step.
"""
from __future__ import annotations

import math

import numpy as np

PROBLEM_FIELDS = ["coordinates", "demands", "position", "capacity", "visited_mask", "trajectory", "num_total_visits"]


def params(cfg):
    return {
        "n": int(cfg.get("nodes", 20)), "cap": int(cfg.get("cap", 30)), "max_demand": int(cfg.get("demand", 10)),
        "reward": cfg.get("reward", "dense"),
    }


def RANDOM_GENERATOR(cfg):
    return True


def horizon(P):
    return 2 * P.params["n"]


def _penalty(P):
    return -2.0 * P.params["n"] * math.sqrt(2.0)


def _dist(c, i, j):
    d = c[int(i)].astype(np.float64) - c[int(j)].astype(np.float64)
    return float(math.sqrt(float(d[0]) ** 2 + float(d[1]) ** 2))


def _route_length(coords, route):
    """Depot-to-depot length of a route given as the list of nodes visited after the initial depot."""
    tot, pos = 0.0, 0
    for v in route:
        tot += _dist(coords, pos, v)
        pos = v
    return tot + _dist(coords, pos, 0)


def _served(S):
    return S["visited_mask"].astype(bool)[1:]


def legal(P, S, O):
    n = P.params["n"]
    L = np.zeros(n + 1, bool)
    load = int(S["capacity"])
    for j in range(1, n + 1):
        L[j] = (not bool(S["visited_mask"][j])) and int(S["demands"][j]) <= load
    L[0] = int(S["position"]) != 0
    return L


def _untouched(S, S2):
    return [f for f in PROBLEM_FIELDS if not np.array_equal(S[f], S2[f])]


def reaction(P, S, a, S2, ev, agent):
    if ev.last and int(S2["num_total_visits"]) == int(S["num_total_visits"]):
        return "invalid"
    return "accepted"


def _illegal_kind(S, a):
    if a == 0:
        return "illegal_depot_at_depot"
    if bool(S["visited_mask"][a]):
        return "illegal_visited_customer"
    return "illegal_demand_exceeds_load"


def illegal_effect(P, S, a, S2, ev, agent):
    out = []
    P.hit(_illegal_kind(S, int(a)))
    if not ev.last:
        out.append("illegal_terminates: an invalid action did not end the episode")
    if abs(float(ev.reward) - _penalty(P)) > 1e-4:
        out.append(f"illegal_reward: reward {float(ev.reward)} != -2n*sqrt(2) = {_penalty(P)}")
    bad = _untouched(S, S2)
    if bad:
        out.append(f"illegal_state_untouched: fields {bad} changed on an invalid action")
    return out


def check_step(P, S, a, S2, reward, last, ev):
    out = []
    n, cap = P.params["n"], P.params["cap"]
    a = int(a)
    reward = float(reward)
    coords = S["coordinates"]
    if not bool(legal(P, S, None)[a]):
        P.hit("ref_illegal_move")
        if not last:
            out.append("ref_last: an invalid action must end the episode")
        if abs(reward - _penalty(P)) > 1e-4:
            out.append(f"ref_reward: invalid action reward {reward} != {_penalty(P)}")
        bad = _untouched(S, S2)
        if bad:
            out.append(f"ref_state_untouched: fields {bad} changed on an invalid action")
        return out
    P.hit("ref_legal_move")
    load = int(S["capacity"])
    if a == 0:
        if load < cap:
            P.hit("ref_depot_refill")
        new_load = cap
    else:
        new_load = load - int(S["demands"][a])
    served = _served(S).copy()
    if a != 0:
        served[a - 1] = True
    nv = int(S["num_total_visits"])
    traj = S["trajectory"].astype(np.int64).copy()
    if nv < len(traj):
        traj[nv] = a
    if int(S2["capacity"]) != new_load:
        out.append(f"ref_capacity: load {int(S2['capacity'])} != expected {new_load} (action {a}, old load {load})")
    if int(S2["position"]) != a:
        out.append(f"ref_position: position {int(S2['position'])} != chosen node {a}")
    if not np.array_equal(_served(S2), served):
        out.append("ref_visited_customers: served customers are not the old set plus the chosen customer")
    if not np.array_equal(S2["trajectory"].astype(np.int64), traj):
        out.append("ref_trajectory: trajectory is not the old trajectory with the node appended")
    if int(S2["num_total_visits"]) != nv + 1:
        out.append(f"ref_num_total_visits: {int(S2['num_total_visits'])} != {nv + 1}")
    if not np.array_equal(S2["coordinates"], coords) or not np.array_equal(S2["demands"], S["demands"]):
        out.append("ref_instance_constant: coordinates or demands changed during the episode")
    exp_last = bool(served.all()) and a == 0
    if bool(last) != exp_last:
        out.append(f"ref_last: last={bool(last)} expected {exp_last} (all served={bool(served.all())}, action {a})")
    if P.params["reward"] == "sparse":
        exp = 0.0
        if exp_last:
            route = [int(x) for x in traj[1: min(nv + 1, len(traj))]]
            exp = -_route_length(coords, route)
    else:
        exp = -_dist(coords, int(S["position"]), a)
        if exp_last:
            P.hit("ref_closing_leg")
    if abs(reward - exp) > 1e-4:
        out.append(f"ref_reward: reward {reward} != expected {exp} ({P.params['reward']})")
    return out


def _mask_respecting(ev):
    """Was the action of step event `ev` offered by the mask the agent saw? (the statement of C06/C08 is about
    mask-respecting play; the workload layer normally guarantees it, this is a second line of defence, e.g.
    for deterministic policies facing an empty mask)."""
    O0 = ev.O0
    if O0 is None or "action_mask" not in O0:
        return True
    m = np.asarray(O0["action_mask"]).astype(bool)
    a = int(ev.action)
    return 0 <= a < len(m) and bool(m[a])


def hard_constraints(P, trace):
    out = []
    cap = P.params["cap"]
    sh = P.shadow
    S = trace[-1].S
    dem = S["demands"].astype(np.int64)
    if "n_seen" not in sh:
        sh.update(n_seen=1, route=[], load=cap, served=set())
    for ev in trace[sh["n_seen"]:]:
        if not _mask_respecting(ev):
            sh["void"] = True
        if sh.get("void"):
            break
        a = int(ev.action)
        sh["route"].append(a)
        if a == 0:
            if sh["load"] < cap:
                P.hit("depot_refill")
            sh["load"] = cap
        else:
            P.hit("customer_served")
            if a in sh["served"]:
                out.append(f"no_customer_twice: customer {a} served twice (route {sh['route'][:14]})")
            sh["served"].add(a)
            sh["load"] -= int(dem[a])
            if sh["load"] < 0:
                out.append(f"load_within_capacity: load carried exceeds capacity {cap} by {-sh['load']} after serving {a} (route {sh['route'][:14]})")
    sh["n_seen"] = len(trace)
    if sh.get("void"):
        return []  # a masked-out action was played: outside the statement from here on
    # the same constraints recomputed from the raw state trajectory
    nv = min(int(S["num_total_visits"]), len(S["trajectory"]))
    tr = [int(x) for x in S["trajectory"][:nv]]
    load, seen = cap, set()
    for v in tr[1:]:
        if v == 0:
            load = cap
        else:
            if v in seen:
                out.append(f"no_customer_twice: state trajectory serves customer {v} twice")
            seen.add(v)
            load -= int(dem[v])
            if load < 0:
                out.append(f"load_within_capacity: state trajectory overloads the vehicle at customer {v}")
    if tr[1:] != sh["route"][: max(0, nv - 1)]:
        out.append(f"route_matches_actions: state trajectory {tr[:14]} != depot + nodes chosen {sh['route'][:14]}")
    if int(S["capacity"]) != sh["load"]:
        out.append(f"load_matches_route: state load {int(S['capacity'])} != load {sh['load']} reconstructed from the route")
    if not (0 <= int(S["capacity"]) <= cap):
        out.append(f"load_within_capacity: state load {int(S['capacity'])} outside [0, {cap}]")
    if set((np.flatnonzero(_served(S)) + 1).tolist()) != sh["served"]:
        out.append("served_matches_route: served customers in the state differ from the customers chosen")
    return out


def _completed(P, S):
    return bool(_served(S).all()) and int(S["position"]) == 0


def complete(P, trace):
    if not all(_mask_respecting(e) for e in trace[1:]):
        return None
    S = trace[-1].S
    if not _completed(P, S):
        return None
    out = []
    n = P.params["n"]
    P.hit("route_complete")
    if "served" in P.shadow and P.shadow["served"] != set(range(1, n + 1)):
        out.append("complete_route: the nodes chosen do not cover every customer")
    if "route" in P.shadow and (not P.shadow["route"] or P.shadow["route"][-1] != 0):
        out.append("complete_route: the route does not end at the depot")
    return out


def objective(P, trace):
    if not all(_mask_respecting(e) for e in trace[1:]):
        return None
    S = trace[-1].S
    if not _completed(P, S):
        return None
    P.hit("tour_length")
    nv = min(int(S["num_total_visits"]), len(S["trajectory"]))
    return -_route_length(S["coordinates"], [int(x) for x in S["trajectory"][1:nv]])


def instance(P, S0, ev):
    out = []
    n, cap, md = P.params["n"], P.params["cap"], P.params["max_demand"]
    c, d = S0["coordinates"], S0["demands"]
    P.hit("cvrp_instance")
    if c.shape != (n + 1, 2) or d.shape != (n + 1,):
        return [f"instance_shape: coordinates {c.shape}, demands {d.shape} for {n} customers"]
    if not (np.all(np.isfinite(c)) and np.all(c >= 0.0) and np.all(c <= 1.0)):
        out.append("coordinates_in_unit_square: a coordinate lies outside [0, 1]")
    if int(d[0]) != 0:
        out.append(f"depot_demand_zero: depot demand is {int(d[0])}")
    if np.any(d[1:] < 1) or np.any(d[1:] > md):
        out.append(f"demands_in_range: customer demands {d[1:][:10].tolist()} not all in [1, {md}]")
    if np.any(d[1:] > cap):
        out.append(f"demand_within_capacity: a customer demand exceeds the capacity {cap}")
    if int(S0["position"]) != 0 or int(S0["capacity"]) != cap:
        out.append("initial_vehicle: vehicle does not start at the depot with a full load")
    if bool(np.any(_served(S0))) or bool(np.any(S0["trajectory"] != 0)):
        out.append("initial_route_empty: a customer is served / in the trajectory at reset")
    return out


def check_obs(P, S, O):
    out = []
    cap = float(P.params["cap"])
    P.hit("cvrp_obs_normalised")
    if not np.array_equal(O["coordinates"], S["coordinates"]):
        out.append("obs_coordinates: observation coordinates != state coordinates")
    if not np.allclose(O["demands"].astype(np.float64), S["demands"].astype(np.float64) / cap, atol=1e-6):
        out.append("obs_demands_normalised: observation demands != state demands / max_capacity")
    if not np.allclose(float(O["capacity"]), float(S["capacity"]) / cap, atol=1e-6):
        out.append(f"obs_capacity_normalised: observation capacity {float(O['capacity'])} != {float(S['capacity']) / cap}")
    if not np.array_equal(O["unvisited_nodes"].astype(bool), ~S["visited_mask"].astype(bool)):
        out.append("obs_unvisited_nodes: observation unvisited_nodes != not state.visited_mask")
    if int(O["position"]) != int(S["position"]):
        out.append(f"obs_position: observation {int(O['position'])} != state {int(S['position'])}")
    if not np.array_equal(O["trajectory"], S["trajectory"]):
        out.append("obs_trajectory: observation trajectory != state trajectory")
    return out


def policies(P):
    def _view(ctx):
        S = ctx["state"]
        vis = np.asarray(S.visited_mask).astype(bool)
        dem = np.asarray(S.demands)
        return S, vis, dem, int(np.asarray(S.capacity)), int(np.asarray(S.position))

    def nearest(ctx):
        """Nearest customer that still fits, otherwise back to the depot."""
        S, vis, dem, load, pos = _view(ctx)
        c = np.asarray(S.coordinates, np.float64)
        cand = [j for j in range(1, len(vis)) if not vis[j] and dem[j] <= load]
        if not cand:
            if pos == 0:
                ctx["legal_only"] = False
            return np.asarray(0, np.int32)
        d = [np.linalg.norm(c[j] - c[pos]) for j in cand]
        return np.asarray(cand[int(np.argmin(d))], np.int32)

    def shuttle(ctx):
        """Return to the depot after every customer: n refills, reaches the 2n horizon."""
        S, vis, dem, load, pos = _view(ctx)
        if pos != 0:
            return np.asarray(0, np.int32)
        cand = [j for j in range(1, len(vis)) if not vis[j] and dem[j] <= load]
        if not cand:
            ctx["legal_only"] = False
            return np.asarray(0, np.int32)
        return np.asarray(ctx["rng"].choice(cand), np.int32)

    def complete(ctx):
        """Per episode either the nearest-customer tour or the depot shuttle (the latter takes exactly 2n steps)."""
        if "style" not in ctx:
            ctx["style"] = shuttle if ctx["rng"].random() < 0.4 else nearest
        return ctx["style"](ctx)

    return {"complete": complete, "greedy": shuttle}
