"""TSP — independent NumPy statement of the rules (DESIGN §4; docs/environments/tsp.md, class docstring).

Action = index of the next city. legal <=> the city has not been visited yet. An invalid action (visited city)
=> LAST, reward -num_cities*sqrt(2), state untouched. Dense reward = minus the length of the leg just travelled
(0 for the first city; on the last city the closing leg back to the first city is added). Sparse reward = minus
the tour length (closing leg included) on the final step, 0 before. Ends: all cities visited (horizon n).
"""
from __future__ import annotations

import math

import numpy as np

PROBLEM_FIELDS = ["coordinates", "position", "visited_mask", "trajectory", "num_visited"]


def params(cfg):
    return {"n": int(cfg.get("cities", 20)), "reward": cfg.get("reward", "dense")}


def RANDOM_GENERATOR(cfg):
    return True


def horizon(P):
    return P.params["n"]


def _penalty(P):
    return -P.params["n"] * math.sqrt(2.0)


def _dist(c, i, j):
    d = c[int(i)].astype(np.float64) - c[int(j)].astype(np.float64)
    return float(math.sqrt(float(d[0]) ** 2 + float(d[1]) ** 2))


def _tour_length(coords, order):
    """Length of the closed tour visiting `order` (closing leg back to order[0] included)."""
    tot = 0.0
    for k in range(len(order)):
        tot += _dist(coords, order[k], order[(k + 1) % len(order)])
    return tot


def legal(P, S, O):
    return ~S["visited_mask"].astype(bool)


def _untouched(S, S2):
    bad = []
    for f in PROBLEM_FIELDS:
        if not np.array_equal(S[f], S2[f]):
            bad.append(f)
    return bad


def reaction(P, S, a, S2, ev, agent):
    if ev.last and int(S2["num_visited"]) == int(S["num_visited"]):
        return "invalid"
    return "accepted"


def illegal_effect(P, S, a, S2, ev, agent):
    out = []
    P.hit("illegal_visited_city")
    if not ev.last:
        out.append("illegal_terminates: revisiting a city did not end the episode")
    if abs(float(ev.reward) - _penalty(P)) > 1e-4:
        out.append(f"illegal_reward: reward {float(ev.reward)} != -n*sqrt(2) = {_penalty(P)}")
    bad = _untouched(S, S2)
    if bad:
        out.append(f"illegal_state_untouched: fields {bad} changed on an invalid action")
    return out


def check_step(P, S, a, S2, reward, last, ev):
    out = []
    n = P.params["n"]
    a = int(a)
    reward = float(reward)
    nv = int(S["num_visited"])
    coords = S["coordinates"]
    if bool(S["visited_mask"][a]):
        P.hit("ref_illegal_move")
        if not last:
            out.append("ref_last: an already visited city must end the episode")
        if abs(reward - _penalty(P)) > 1e-4:
            out.append(f"ref_reward: invalid action reward {reward} != {_penalty(P)}")
        bad = _untouched(S, S2)
        if bad:
            out.append(f"ref_state_untouched: fields {bad} changed on an invalid action")
        return out
    P.hit("ref_legal_move")
    vis = S["visited_mask"].astype(bool).copy()
    vis[a] = True
    traj = S["trajectory"].astype(np.int64).copy()
    traj[nv] = a
    if int(S2["position"]) != a:
        out.append(f"ref_position: position {int(S2['position'])} != chosen city {a}")
    if not np.array_equal(S2["visited_mask"].astype(bool), vis):
        out.append("ref_visited_mask: visited mask is not the old mask plus the chosen city")
    if not np.array_equal(S2["trajectory"].astype(np.int64), traj):
        out.append("ref_trajectory: trajectory is not the old trajectory with the city appended")
    if int(S2["num_visited"]) != nv + 1:
        out.append(f"ref_num_visited: {int(S2['num_visited'])} != {nv + 1}")
    if not np.array_equal(S2["coordinates"], coords):
        out.append("ref_coordinates_constant: coordinates changed during the episode")
    exp_last = nv + 1 == n
    if bool(last) != exp_last:
        out.append(f"ref_last: last={bool(last)} expected {exp_last} ({nv + 1}/{n} cities visited)")
    order = [int(x) for x in traj[: nv + 1]]
    if P.params["reward"] == "sparse":
        exp = -_tour_length(coords, order) if exp_last else 0.0
    else:
        exp = 0.0 if nv == 0 else -_dist(coords, int(S["position"]), a)
        if nv == 0:
            P.hit("ref_first_city_free")
        if exp_last:
            exp -= _dist(coords, a, order[0])
            P.hit("ref_closing_leg")
    if abs(reward - exp) > 1e-4:
        out.append(f"ref_reward: reward {reward} != expected {exp} ({P.params['reward']})")
    return out


def _mask_respecting(ev):
    """Was the action of step event `ev` offered by the mask the agent saw? (the statement of C06/C08 is about
    mask-respecting play; the workload layer normally guarantees it, this is a second line of defence, e.g.
    for deterministic policies facing an empty mask)."""
    O0 = ev.O0
    if O0 is None or "action_mask" not in O0:
        return True
    m = np.asarray(O0["action_mask"]).astype(bool)
    a = int(ev.action)
    return 0 <= a < len(m) and bool(m[a])


def hard_constraints(P, trace):
    out = []
    sh = P.shadow
    if "n_seen" not in sh:
        sh["n_seen"], sh["route"] = 1, []
    for ev in trace[sh["n_seen"]:]:
        if not _mask_respecting(ev):
            sh["void"] = True
        if sh.get("void"):
            break
        a = int(ev.action)
        if a in sh["route"]:
            out.append(f"no_city_twice: city {a} visited twice (route so far {sh['route'][:12]})")
        sh["route"].append(a)
        P.hit("city_visit_recorded")
    sh["n_seen"] = len(trace)
    if sh.get("void"):
        return []  # a masked-out action was played: outside the statement from here on
    S = trace[-1].S
    nv = int(S["num_visited"])
    route = sh["route"]
    tr = [int(x) for x in S["trajectory"][:nv]]
    if len(set(tr)) != len(tr):
        out.append(f"no_city_twice: state trajectory repeats a city: {tr[:12]}")
    if tr != route:
        out.append(f"route_matches_actions: state trajectory {tr[:12]} != cities chosen {route[:12]}")
    vis = sorted(np.flatnonzero(S["visited_mask"]).tolist())
    if vis != sorted(set(route)):
        out.append("visited_matches_actions: visited mask differs from the set of cities chosen")
    return out


def complete(P, trace):
    if not all(_mask_respecting(e) for e in trace[1:]):
        return None
    S = trace[-1].S
    n = P.params["n"]
    if int(S["num_visited"]) != n:
        return None
    out = []
    P.hit("tour_complete")
    tr = sorted(int(x) for x in S["trajectory"])
    if tr != list(range(n)):
        out.append("complete_tour: final trajectory is not a permutation of all cities")
    if not bool(np.all(S["visited_mask"])):
        out.append("complete_tour: not every city is marked visited")
    if sorted(P.shadow.get("route", tr)) != list(range(n)):
        out.append("complete_tour: the chosen cities are not a permutation of all cities")
    return out


def objective(P, trace):
    if not all(_mask_respecting(e) for e in trace[1:]):
        return None
    S = trace[-1].S
    n = P.params["n"]
    if int(S["num_visited"]) != n:
        return None
    P.hit("tour_length")
    return -_tour_length(S["coordinates"], [int(x) for x in S["trajectory"]])


def instance(P, S0, ev):
    out = []
    n = P.params["n"]
    c = S0["coordinates"]
    P.hit("tsp_instance")
    if c.shape != (n, 2):
        return [f"coordinates_shape: {c.shape} != {(n, 2)}"]
    if not (np.all(np.isfinite(c)) and np.all(c >= 0.0) and np.all(c <= 1.0)):
        out.append("coordinates_in_unit_square: a coordinate lies outside [0, 1]")
    if int(S0["position"]) != -1 or int(S0["num_visited"]) != 0:
        out.append("initial_counters: position != -1 or num_visited != 0 at reset")
    if bool(np.any(S0["visited_mask"])) or not bool(np.all(S0["trajectory"] == -1)):
        out.append("initial_route_empty: a city is visited / in the trajectory at reset")
    return out


def check_obs(P, S, O):
    out = []
    P.hit("tsp_obs_copies")
    if not np.array_equal(O["coordinates"], S["coordinates"]):
        out.append("obs_coordinates: observation coordinates != state coordinates")
    if int(O["position"]) != int(S["position"]):
        out.append(f"obs_position: observation {int(O['position'])} != state {int(S['position'])}")
    if not np.array_equal(O["trajectory"], S["trajectory"]):
        out.append("obs_trajectory: observation trajectory != state trajectory")
    return out


def policies(P):
    def nearest(ctx):
        S = ctx["state"]
        vis = np.asarray(S.visited_mask)
        c = np.asarray(S.coordinates, np.float64)
        pos = int(np.asarray(S.position))
        free = np.flatnonzero(~vis)
        if len(free) == 0:
            ctx["legal_only"] = False
            return np.asarray(0, np.int32)
        if pos < 0:
            return np.asarray(ctx["rng"].choice(free), np.int32)
        d = np.linalg.norm(c[free] - c[pos], axis=1)
        return np.asarray(free[int(np.argmin(d))], np.int32)

    return {"complete": nearest, "greedy": nearest}
