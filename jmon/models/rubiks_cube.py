"""RubiksCube — independent NumPy statement (DESIGN §4 / C17 geometry; docs/environments/rubiks_cube.md).

cube[face, row, col] = sticker colour, faces U, F, R, B, L, D = 0..5, each face read in reading order when looked
at with: U (L on the left, B up), F (L left, U up), R (F left, U up), B (R left, U up), L (B left, U up),
D (L left, F up). Action (face, depth, amount): turn the depth-th slice parallel to `face` (0 = outer layer) by
amount 0 = clockwise, 1 = anticlockwise, 2 = half turn, as seen when looking at `face`. Reward 1 iff solved after
the move. Ends: solved, or step_count reaches time_limit. Only C10, C11 and C12 apply to this environment.

The reference move is geometric: every sticker has a 3-D position and an outward normal; a move rotates the
stickers of one slice about the face's axis. No index tables.
"""
from __future__ import annotations

import itertools

import numpy as np

U, F, R, B, L, D = range(6)
NORMALS = {U: (0, 0, 1), F: (0, -1, 0), R: (1, 0, 0), B: (0, 1, 0), L: (-1, 0, 0), D: (0, 0, -1)}


def params(cfg):
    return {"n": cfg.get("cube_size", 3), "scrambles": cfg.get("scrambles", 100), "time_limit": cfg.get("time_limit", 200)}


def RANDOM_GENERATOR(cfg):
    return cfg.get("scrambles", 100) > 0


def time_limit(P):
    return P.params["time_limit"]


def _solved(cube):
    cube = np.asarray(cube)
    return all(len(set(cube[f].ravel().tolist())) == 1 for f in range(6))


def other_end_reason(P, S_prev, a, S, ev):
    return _solved(S["cube"])


# ------------------------------------------------------------------------------------------- geometry

def _sticker_pos(n):
    """pos[face, r, c] = integer (x, y, z) of the cubie carrying the sticker; x to the right (R), y to the back
    (B), z up (U); derived from the documented viewing orientations."""
    pos = np.zeros((6, n, n, 3), int)
    for r in range(n):
        for c in range(n):
            pos[U, r, c] = (c, n - 1 - r, n - 1)      # L on the left, B at the top
            pos[F, r, c] = (c, 0, n - 1 - r)          # L on the left, U at the top
            pos[R, r, c] = (n - 1, c, n - 1 - r)      # F on the left, U at the top
            pos[B, r, c] = (n - 1 - c, n - 1, n - 1 - r)  # R on the left, U at the top
            pos[L, r, c] = (0, n - 1 - c, n - 1 - r)  # B on the left, U at the top
            pos[D, r, c] = (c, r, 0)                  # L on the left, F at the top
    return pos


def _rot90(axis, v):
    """v rotated by +90 degrees (right-hand rule) about the unit axis."""
    axis, v = np.asarray(axis), np.asarray(v)
    return np.cross(axis, v) + axis * int(np.dot(axis, v))


_perm_cache = {}


def ref_perm(n, face, depth, amount):
    """Index array p with new_cube.ravel() = old_cube.ravel()[p] for the move (face, depth, amount)."""
    key = (n, face, depth, amount)
    if key in _perm_cache:
        return _perm_cache[key]
    pos = _sticker_pos(n)
    ax = np.array(NORMALS[face])
    quarter_turns = {0: 3, 1: 1, 2: 2}[amount]  # clockwise seen from outside = -90 degrees about the outward normal
    index = {}
    for f in range(6):
        for r in range(n):
            for c in range(n):
                index[(tuple(pos[f, r, c]), NORMALS[f])] = (f * n + r) * n + c
    layer = (n - 1 - depth) if ax.sum() > 0 else depth
    coord_axis = int(np.flatnonzero(ax)[0])
    perm = np.arange(6 * n * n)
    centre2 = n - 1  # work with doubled coordinates to stay in integers
    for f in range(6):
        for r in range(n):
            for c in range(n):
                p = pos[f, r, c]
                if p[coord_axis] != layer:
                    continue
                q = 2 * p - centre2
                m = np.array(NORMALS[f])
                for _ in range(quarter_turns):
                    q, m = _rot90(ax, q), _rot90(ax, m)
                q = (q + centre2) // 2
                perm[index[(tuple(int(x) for x in q), tuple(int(x) for x in m))]] = (f * n + r) * n + c
    _perm_cache[key] = perm
    return perm


def apply_move(cube, face, depth, amount):
    cube = np.asarray(cube)
    n = cube.shape[-1]
    return cube.ravel()[ref_perm(n, int(face), int(depth), int(amount))].reshape(cube.shape)


def unflatten(flat, n):
    fd, amount = divmod(int(flat), 3)
    face, depth = divmod(fd, n // 2)
    return face, depth, amount


# ------------------------------------------------------------------------------------------- C10

def instance(P, S0, ev):
    out = []
    n, k = P.params["n"], P.params["scrambles"]
    cube = np.asarray(S0["cube"])
    P.hit("cube_instance")
    if cube.shape != (6, n, n):
        return [f"cube_shape: {cube.shape} != {(6, n, n)}"]
    counts = {c: int((cube == c).sum()) for c in range(6)}
    if any(v != n * n for v in counts.values()) or cube.min() < 0 or cube.max() > 5:
        out.append(f"sticker_multiset: colour counts {counts}, expected {n * n} of each of 0..5")
    if int(S0["step_count"]) != 0:
        out.append("initial_step_count: step_count != 0 at reset")
    if k == 0:
        P.hit("zero_scrambles_is_solved")
        if not _solved(cube):
            out.append("zero_scrambles_is_solved: cube not solved although num_scrambles_on_reset = 0")
    # cheap necessary conditions of membership in the move group
    if n % 2 == 1:
        mid = n // 2
        P.hit("centres_fixed")
        centres = [int(cube[f, mid, mid]) for f in range(6)]
        if centres != list(range(6)):  # no move of depth < n//2 touches a face centre
            out.append(f"centres_fixed: face centres {centres} moved, but no available move turns the middle slice")
    # corner cubies move as rigid pieces: each carries three colours of mutually adjacent faces (never two opposite
    # colours, never a repeated colour)
    pos = _sticker_pos(n)
    corner = {}
    for f in range(6):
        for r in (0, n - 1):
            for c in (0, n - 1):
                corner.setdefault(tuple(pos[f, r, c]), []).append(int(cube[f, r, c]))
    P.hit("corner_cubies_consistent")
    opposite = {U: D, D: U, F: B, B: F, L: R, R: L}
    for p_, cols in corner.items():
        if len(set(cols)) != 3 or any(opposite.get(a) in cols for a in cols):
            out.append(f"corner_cubies_consistent: corner at {p_} carries colours {cols}")
            break
    return out


def generator_checks(P, env, rng, tier):
    """Membership in the move group: the generator's own action draw replayed through the reference permutations
    must give exactly the generated cube."""
    import jax

    out = []
    gen = env.generator
    n = P.params["n"]
    if not hasattr(gen, "generate_actions_for_scramble"):
        return out
    draw = jax.jit(gen.generate_actions_for_scramble)
    make = jax.jit(gen.generate_cube)
    for i in range(6 if tier == "quick" else 40):
        key = jax.random.PRNGKey(int(rng.integers(0, 2 ** 31 - 1)))
        acts = np.asarray(draw(key))
        cube = np.asarray(make(key))
        ref = np.repeat(np.arange(6), n * n).reshape(6, n, n)
        if acts.size and (acts.min() < 0 or acts.max() >= 6 * (n // 2) * 3):
            out.append(f"scramble_actions_in_range: flat scramble actions in [{int(acts.min())}, {int(acts.max())}], {6 * (n // 2) * 3} moves exist")
            continue
        for fa in acts.tolist():
            ref = apply_move(ref, *unflatten(fa, n))
        P.hit("scramble_replayed")
        if acts.size != P.params["scrambles"]:
            out.append(f"scramble_length: {acts.size} scramble moves drawn, configured {P.params['scrambles']}")
        if not np.array_equal(cube, ref):
            out.append(f"scramble_in_move_group: generate_cube(key) differs from the reference replay of its own scramble {acts.tolist()[:12]} in {int((cube != ref).sum())} stickers")
    return out


# ------------------------------------------------------------------------------------------- C12

def check_obs(P, S, O):
    out = []
    P.hit("obs_copies")
    if not np.array_equal(O["cube"], S["cube"]):
        out.append("obs_cube: observation cube != state cube")
    if int(O["step_count"]) != int(S["step_count"]):
        out.append(f"obs_step_count: observation {int(O['step_count'])} != state {int(S['step_count'])}")
    return out


# ------------------------------------------------------------------------------------------- policies

def _search_solution(cube, max_depth, budget=120000):
    """Shortest move sequence (<= max_depth moves) that solves `cube`, by exhaustive search with the reference
    permutations; None when none is found within the budget."""
    cube = np.asarray(cube)
    n = cube.shape[-1]
    moves = [(f, d, a) for f in range(6) for d in range(n // 2) for a in range(3)]
    perms = [ref_perm(n, *m) for m in moves]
    flat = cube.ravel()

    def solved_flat(x):
        y = x.reshape(6, -1)
        return bool((y == y[:, :1]).all())

    if solved_flat(flat):
        return []
    depth = 1
    while depth <= max_depth and len(moves) ** depth <= budget:
        for seq in itertools.product(range(len(moves)), repeat=depth):
            x = flat
            for i in seq:
                x = x[perms[i]]
            if solved_flat(x):
                return [moves[i] for i in seq]
        depth += 1
    return None


def policies(P):
    max_depth = P.params["scrambles"]

    def complete(ctx):
        """Undo a short scramble (found by exhaustive search), then play randomly."""
        from jmon import actions as A

        spec = ctx["spec"]
        if "rubik_plan" not in ctx:
            ctx["rubik_plan"] = _search_solution(ctx["state"].cube, max_depth) or []
            ctx["rubik_i"] = 0
        i = ctx["rubik_i"]
        if i < len(ctx["rubik_plan"]):
            ctx["rubik_i"] = i + 1
            return np.asarray(ctx["rubik_plan"][i], np.dtype(spec.dtype))
        return A.sample_random(spec, ctx["rng"])

    return {"complete": complete}
