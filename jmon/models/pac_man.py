"""PacMan — independent NumPy statement of the rules in scope (DESIGN §4; docs/environments/pac_man.md, docstrings).

state.grid is the 31x28 maze built by the ASCII generator: 1 = free cell, 0 = wall ('X'). (The 5x5 example in the
.md, copied from the Maze page, shows the opposite convention; the generator's own encoding is the data we get.)
player_locations.x is the ROW index (< 31), player_locations.y the COLUMN index (< 28). ghost_locations,
pellet_locations and power_up_locations rows are (column, row) pairs; an eaten pellet / power-up row is (0, 0).

Actions 0..3 move one cell with wrap-around (tunnel), 4 is the no-op. Direction vectors are those of the
environment's MOVES table: 0 = row-1 (up), 1 = col-1, 2 = row+1 (down), 3 = col+1. The documentation *names*
1 "right" and 3 "left" (and lists "up, left, right, down" in its introduction); mask and movement agree with each
other on the table's vectors, so the vectors — not the names — are the rule (observation reported to the lead).
legal(0..3) <=> the target cell is not a wall; a blocked move leaves the player where it is and the episode goes
on. The no-op column of the mask is not judged (DESIGN §3 C04 R). Ends: dead, no pellets left, time limit
(default 1000).
"""
from __future__ import annotations

import numpy as np

from jmon.models._routing_grid import bfs, first_step_towards

MOVES = [(-1, 0), (0, -1), (1, 0), (0, 1)]  # (d_row, d_col) of actions 0..3
ROWS, COLS = 31, 28


def _dims(cfg):
    if cfg.get("maze") == "small":  # the harness' 12x13 ASCII maze (jmon.envs.PACMAN_SMALL_MAZE)
        return 12, 13
    return ROWS, COLS


def params(cfg):
    r, c = _dims(cfg)
    return {"time_limit": cfg.get("time_limit") or 1000, "rows": r, "cols": c}


def RANDOM_GENERATOR(cfg):
    return False  # the ASCII generator is documented as deterministic


def time_limit(P):
    return P.params["time_limit"]


def _player(S):
    return int(S["player_locations.x"]), int(S["player_locations.y"])  # (row, col)


def _free(S):
    return np.asarray(S["grid"]) == 1


def _target(S, a):
    g = S["grid"]
    r, c = _player(S)
    return (r + MOVES[a][0]) % g.shape[0], (c + MOVES[a][1]) % g.shape[1]


def _legal_move(S, a):
    g = S["grid"]
    r, c = _player(S)
    if not (0 <= r < g.shape[0] and 0 <= c < g.shape[1]):
        return False
    nr, nc = _target(S, a)
    return int(g[nr, nc]) != 0


def legal(P, S, O):
    return np.array([_legal_move(S, a) for a in range(4)] + [False], bool)


def ignore_mask(P, shape):
    m = np.zeros(shape, bool)
    m[..., 4] = True  # the no-op column is not judged
    return m


def reaction(P, S, a, S2, ev, agent):
    a = int(a)
    if not 0 <= a < 4:
        return None
    if _player(S2) == _target(S, a):
        return "accepted"
    if _player(S2) == _player(S):
        return "invalid"  # documented treatment: the player remains stationary
    return None


def _pellet_count(S):
    return int((np.asarray(S["pellet_locations"]).sum(axis=1) > 0).sum())


def _other_end(S):
    return bool(S["dead"]) or int(S["pellets"]) == 0


def illegal_effect(P, S, a, S2, ev, agent):
    out = []
    P.hit("illegal_ignored")
    if _player(S2) != _player(S):
        out.append(f"illegal_player_stays: player moved from {_player(S)} to {_player(S2)} on a blocked move {int(a)}")
    if not np.array_equal(S2["grid"], S["grid"]):
        out.append("illegal_maze_untouched: the maze changed on a blocked move")
    if ev.last and not (int(S2["step_count"]) >= P.params["time_limit"] or _other_end(S2)):
        out.append("illegal_does_not_terminate: the episode ended because of a blocked (ignored) move")
    return out


def physical(P, S_prev, a, S):
    ROWS, COLS = P.params["rows"], P.params["cols"]  # per-configuration maze size
    out = []
    g = S["grid"]
    P.hit("player_and_ghosts_on_free_cells")
    if g.shape != (ROWS, COLS):
        return [f"grid_shape: grid shape {g.shape} != {(ROWS, COLS)}"]
    r, c = _player(S)
    if not (0 <= r < ROWS and 0 <= c < COLS):
        out.append(f"player_in_grid: player at (row {r}, col {c}) outside the {ROWS}x{COLS} maze")
    elif int(g[r, c]) != 1:
        out.append(f"player_not_in_wall: player at (row {r}, col {c}) is inside a wall")
    else:
        if r >= COLS:
            P.hit("player_in_rows_28_plus")  # rows that a swapped row/column bound would forbid
        if S_prev is not None and abs(c - int(S_prev["player_locations.y"])) == COLS - 1:
            P.hit("tunnel_wraparound")
    gl = np.asarray(S["ghost_locations"])
    if gl.shape != (4, 2):
        out.append(f"four_ghosts: ghost_locations shape {gl.shape}")
    else:
        for i, (gc, gr) in enumerate(gl.tolist()):
            if not (0 <= gr < ROWS and 0 <= gc < COLS):
                out.append(f"ghost_in_grid: ghost {i} at (row {gr}, col {gc}) outside the maze")
            elif int(g[gr, gc]) != 1:
                out.append(f"ghost_not_in_wall: ghost {i} at (row {gr}, col {gc}) is inside a wall")
    pl = np.asarray(S["pellet_locations"])
    n = _pellet_count(S)
    if n != int(S["pellets"]):
        out.append(f"pellet_count_consistent: pellets={int(S['pellets'])} but pellet_locations holds {n} pellets")
    live = pl[pl.sum(axis=1) > 0]
    if len(live):
        okc = (live[:, 0] >= 0) & (live[:, 0] < COLS) & (live[:, 1] >= 0) & (live[:, 1] < ROWS)
        if not okc.all():
            out.append("pellet_in_grid: a pellet lies outside the maze")
        elif not (g[live[:, 1], live[:, 0]] == 1).all():
            out.append("pellet_not_in_wall: a pellet lies inside a wall")
    if int(S["score"]) < 0:
        out.append(f"score_non_negative: score {int(S['score'])}")
    if S_prev is not None:
        P.hit("pellet_conservation")
        if not np.array_equal(S_prev["grid"], g):
            out.append("maze_constant: the maze changed during a step")
        p0 = np.asarray(S_prev["pellet_locations"])
        if p0.shape == pl.shape:
            gone = (p0.sum(axis=1) > 0) & ~((pl == p0).all(axis=1))
            back = (p0.sum(axis=1) == 0) & (pl.sum(axis=1) > 0)
            if back.any():
                out.append("pellets_never_return: an eaten pellet reappeared")
            if gone.any():
                P.hit("pellet_eaten")
                cells = {(int(y), int(x)) for x, y in p0[gone].tolist()}  # (row, col)
                if cells != {(r, c)}:
                    out.append(f"pellet_eaten_under_player: pellets vanished at {sorted(cells)[:4]} while the player is at {(r, c)}")
            d_score = int(S["score"]) - int(S_prev["score"])
            if d_score < 10 * int(gone.sum()):
                out.append(f"score_counts_pellets: score grew by {d_score} although {int(gone.sum())} pellet(s) were eaten")
        if np.asarray(S["power_up_locations"]).shape == np.asarray(S_prev["power_up_locations"]).shape:
            u0, u1 = np.asarray(S_prev["power_up_locations"]), np.asarray(S["power_up_locations"])
            if ((u0.sum(axis=1) == 0) & (u1.sum(axis=1) > 0)).any():
                out.append("power_ups_never_return: an eaten power-up reappeared")
            if ((u0.sum(axis=1) > 0) & ~((u0 == u1).all(axis=1))).any():
                P.hit("power_up_eaten")
    return out


def instance(P, S0, ev):
    ROWS, COLS = P.params["rows"], P.params["cols"]  # per-configuration maze size
    out = physical(P, None, None, S0)
    g = S0["grid"]
    P.hit("ascii_instance")
    if g.shape != (ROWS, COLS):
        return out
    if not np.isin(g, (0, 1)).all():
        out.append("grid_encoding: maze holds values other than 0/1")
    free = g == 1
    pl = np.asarray(S0["pellet_locations"])
    if len({tuple(x) for x in pl.tolist()}) != len(pl):
        out.append("pellets_distinct: two pellets on one cell")
    if int(S0["pellets"]) != len(pl):
        out.append(f"pellet_count_initial: pellets={int(S0['pellets'])} but {len(pl)} pellet cells")
    pu = np.asarray(S0["power_up_locations"])
    if pu.shape != (4, 2):
        out.append(f"four_power_ups: power_up_locations shape {pu.shape}")
    else:
        for (uc, ur) in pu.tolist():
            if not (0 <= ur < ROWS and 0 <= uc < COLS) or not free[ur, uc]:
                out.append(f"power_up_on_free_cell: power-up at (row {ur}, col {uc}) is not a free cell")
    gl = np.asarray(S0["ghost_locations"])
    if gl.shape == (4, 2) and len({tuple(x) for x in gl.tolist()}) != 4:
        out.append("ghosts_start_distinct: two ghosts start on one cell")
    r, c = _player(S0)
    if gl.shape == (4, 2) and (c, r) in {tuple(x) for x in gl.tolist()}:
        out.append("player_not_on_ghost: the player starts on a ghost")
    if 0 <= r < ROWS and 0 <= c < COLS and free[r, c]:
        reach = bfs(free, (r, c), wrap=True)
        miss = [(int(y), int(x)) for x, y in pl.tolist() if 0 <= y < ROWS and 0 <= x < COLS and (int(y), int(x)) not in reach]
        if miss:
            out.append(f"pellets_reachable: {len(miss)} pellets cannot be reached from the start, e.g. {miss[:3]}")
    if int(S0["step_count"]) != 0 or int(S0["score"]) != 0 or int(S0["frightened_state_time"]) != 0 or bool(S0["dead"]):
        out.append("initial_counters: step_count / score / frightened_state_time / dead not zero at reset")
    return out


def other_end_reason(P, S_prev, a, S, ev):
    return _other_end(S)


def check_obs(P, S, O):
    ROWS, COLS = P.params["rows"], P.params["cols"]  # per-configuration maze size
    out = []
    P.hit("obs_copies")
    for f in ("grid", "ghost_locations", "power_up_locations", "pellet_locations"):
        if O[f].shape != S[f].shape or not np.array_equal(O[f], S[f]):
            out.append(f"obs_{f}: observation field differs from the state")
    for f in ("player_locations.x", "player_locations.y", "frightened_state_time", "score"):
        if int(O[f]) != int(S[f]):
            out.append(f"obs_{f.replace('.', '_')}: observation {int(O[f])} != state {int(S[f])}")
    # the state holds no mask: the observed mask must be a function of the *current* state (stale-mask check);
    # whether that function is the right rule is C04's business, so it is only compared when the player stands
    # on a free cell inside the maze, and the no-op column is left alone
    m = np.asarray(O["action_mask"]).astype(bool)
    if m.shape != (5,):
        out.append(f"obs_action_mask_shape: {m.shape} != (5,)")
    else:
        r, c = _player(S)
        if 0 <= r < ROWS and 0 <= c < COLS:
            exp = legal(P, S, O)
            if not np.array_equal(m[:4], exp[:4]):
                out.append(f"obs_action_mask_current: mask {m[:4].tolist()} is not the mask of the current position {exp[:4].tolist()}")
    return out


# ------------------------------------------------------------------------------------------------ policies

def _np_state(ctx):
    st = ctx["state"]
    g = np.asarray(st.grid)
    pos = (int(st.player_locations.x), int(st.player_locations.y))
    ghosts = [(int(y), int(x)) for x, y in np.asarray(st.ghost_locations).tolist()]  # (row, col)
    return g == 1, pos, ghosts, st


def _danger(free, ghosts, radius=2):
    R, C = free.shape
    cells = set()
    for (gr, gc) in ghosts:
        for dr in range(-radius, radius + 1):
            for dc in range(-radius, radius + 1):
                if abs(dr) + abs(dc) <= radius:
                    cells.add(((gr + dr) % R, (gc + dc) % C))
    return cells


def _safe_first(ctx, prefer):
    """Play `prefer` unless the real look-ahead (all move sequences of length 3 through the vmapped real step) says it
    leads to death; then the move that survives longest. Workload only."""
    from jmon.rollout import _planner

    s2, ts2 = ctx["runner"].step(ctx["state"], np.asarray(prefer, np.int32))
    if int(np.asarray(ts2.step_type)) == 2 and not bool(np.asarray(s2.dead)):
        return np.asarray(prefer, np.int32)  # the move that ends the episode by clearing the maze (or at the limit)
    pl = _planner(ctx["runner"], 3)
    if pl is not None:
        f, jseqs, seqs, acts = pl
        surv = np.asarray(f(ctx["state"], jseqs)[0])
        best = {}
        for k in range(4):
            sel = surv[seqs[:, 0] == k]
            best[k] = int(sel.max()) if len(sel) else -1
        top = max(best.values())
        if best.get(int(prefer), -1) == top:
            return np.asarray(prefer, np.int32)
        ks = [k for k in ctx["rng"].permutation(4).tolist() if best[k] == top]
        return np.asarray(ks[0], np.int32)
    runner, state = ctx["runner"], ctx["state"]
    order = [prefer] + [k for k in ctx["rng"].permutation(4).tolist() if k != prefer]
    for k in order:
        _, ts2 = runner.step(state, np.asarray(k, np.int32))
        if int(np.asarray(ts2.step_type)) != 2:
            return np.asarray(k, np.int32)
    return np.asarray(prefer, np.int32)


def pol_complete(ctx):
    """Eat: BFS (with tunnel wrap-around) to the nearest pellet, keeping away from ghosts unless frightened."""
    free, pos, ghosts, st = _np_state(ctx)
    pel = {(int(y), int(x)) for x, y in np.asarray(st.pellet_locations).tolist() if x + y > 0}
    frightened = int(st.frightened_state_time) > 1
    blocked = set() if frightened else (_danger(free, ghosts) - {pos})
    k = first_step_towards(free, pos, lambda c: c in pel, MOVES, wrap=True, blocked=blocked)
    if k is None:
        k = first_step_towards(free, pos, lambda c: c in pel, MOVES, wrap=True)
    if k is None:
        k = int(ctx["rng"].integers(0, 4))
    return _safe_first(ctx, k)


FRONTIER_CELLS = [(14, 0), (14, 27), (29, 1), (29, 26), (1, 1), (1, 26), (29, 12), (20, 26)]


def pol_frontier(ctx):
    """Walk to the tunnel mouths, the last rows/columns and the corners; go through the tunnel (wrap-around) and
    bump into the border walls (blocked moves)."""
    free, pos, ghosts, st = _np_state(ctx)
    R, C = free.shape
    if "pm_targets" not in ctx:
        if (R, C) == (ROWS, COLS):
            cells = [t for t in FRONTIER_CELLS if free[t]]
        else:  # other mazes: tunnel mouths (free border cells) and the free cells nearest to the four corners
            fc = [(int(r), int(c)) for r, c in np.argwhere(free)]
            cells = [t for t in fc if t[1] in (0, C - 1) or t[0] in (0, R - 1)]
            for corner in ((0, 0), (0, C - 1), (R - 1, 0), (R - 1, C - 1)):
                cells.append(min(fc, key=lambda t: abs(t[0] - corner[0]) + abs(t[1] - corner[1])))
        order = ctx["rng"].permutation(len(cells)).tolist()
        ctx["pm_targets"] = [cells[i] for i in order]
        ctx["pm_bump"] = 0
    while ctx["pm_targets"]:
        goal = ctx["pm_targets"][0]
        if pos == goal:
            if pos[1] in (0, C - 1):
                ctx["pm_targets"].pop(0)
                ctx["pm_targets"] = [t for t in ctx["pm_targets"] if t[1] not in (0, C - 1)]
                return np.asarray(1 if pos[1] == 0 else 3, np.int32)  # through the tunnel to the other side
            if ctx["pm_bump"] < 2:
                ctx["pm_bump"] += 1
                bad = [k for k in range(4) if not free[(pos[0] + MOVES[k][0]) % R, (pos[1] + MOVES[k][1]) % C]]
                if bad:
                    ctx["legal_only"] = False
                    return np.asarray(bad[int(ctx["rng"].integers(len(bad)))], np.int32)
            ctx["pm_targets"].pop(0)
            ctx["pm_bump"] = 0
            continue
        blocked = _danger(free, ghosts, 1) - {pos}
        k = first_step_towards(free, pos, lambda c: c == goal, MOVES, wrap=False, blocked=blocked)
        if k is None:
            k = first_step_towards(free, pos, lambda c: c == goal, MOVES, wrap=False)
        if k is None:
            ctx["pm_targets"].pop(0)
            continue
        return _safe_first(ctx, k)
    return pol_complete(ctx)


def policies(P):
    return {"complete": pol_complete, "frontier": pol_frontier}
