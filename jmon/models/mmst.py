"""MMST — independent NumPy statement of the rules (DESIGN §4; docs/environments/mmst.md, class docstring).

Per agent the action is the next node v. A choice is legal iff the agent is unfinished, (pos, v) is an edge of
the graph and v is not a utility node (node type -1) already visited by *another* agent. There is no no-op:
choosing the current node is only legal when the graph has a self-loop there. An illegal choice leaves the
agent where it is (and costs the documented extra penalty); an agent that has connected all its nodes is
finished and never moves again. If several agents choose the same node in one step the tie is broken at
random and the losers stay. The episode ends when every agent has visited all of its nodes, or at the limit.

Readings where the documentation is silent (never stricter than the text):
* nodes owned by another agent are ordinary nodes: walking over them is legal (only utility nodes are exclusive);
* "visited" = the agent's position at some step of the episode. The monitor keeps this set itself (shadow
  state) for C06; functions that only see one state read the path array `connected_nodes` and always add the
  current position (the path array has `time_limit` slots, a move on the very last step may not fit);
* observation labels: node visited by agent k -> 2k, unvisited node owned by agent k -> 2k+1, unvisited
  utility node -> -1 (single-agent view = agent 0). For a node visited by several agents the documentation
  gives no rule: any visitor's label is accepted.
"""
from __future__ import annotations

from collections import deque

import numpy as np

UTILITY = -1


def params(cfg):
    return {
        "nodes": cfg.get("nodes", 36), "edges": cfg.get("edges", 72), "degree": cfg.get("degree", 5),
        "agents": cfg.get("agents", 3), "per_agent": cfg.get("per_agent", 4), "time_limit": cfg.get("time_limit", 70),
    }


def RANDOM_GENERATOR(cfg):
    return True


def time_limit(P):
    return P.params["time_limit"]


# ------------------------------------------------------------------------------------------ helpers

def _adj(S):
    return np.asarray(S["adj_matrix"]) != 0


def _visited_sets(S):
    """Per agent: nodes on its recorded path plus its current position."""
    out = []
    cn = np.asarray(S["connected_nodes"])
    pos = np.asarray(S["positions"])
    for i in range(cn.shape[0]):
        s = {int(x) for x in cn[i] if x >= 0}
        s.add(int(pos[i]))
        out.append(s)
    return out


def _finished(S, visited=None):
    """Agent i is finished iff every node it has to connect is in its visited set."""
    visited = _visited_sets(S) if visited is None else visited
    ntc = np.asarray(S["nodes_to_connect"])
    return [all(int(v) in visited[i] for v in ntc[i]) for i in range(ntc.shape[0])]


def _legal_row(S, i, adj, visited, finished):
    n = adj.shape[0]
    row = np.zeros(n, bool)
    if finished[i]:
        return row
    types = np.asarray(S["node_types"])
    p = int(S["positions"][i])
    for v in range(n):
        if not adj[p, v]:
            continue
        if types[v] == UTILITY and any(v in visited[j] for j in range(len(visited)) if j != i):
            continue
        row[v] = True
    return row


def legal(P, S, O):
    adj = _adj(S)
    visited = _visited_sets(S)
    fin = _finished(S, visited)
    if any(fin):
        P.hit("mmst_finished_agent_row")
    return np.stack([_legal_row(S, i, adj, visited, fin) for i in range(len(visited))])


def reaction(P, S, a, S2, ev, agent):
    """accepted = the agent went to the node it chose; invalid = it stayed although it chose another node."""
    a = np.asarray(a).astype(int)
    i = int(agent)
    v, p, p2 = int(a[i]), int(S["positions"][i]), int(S2["positions"][i])
    if any(int(a[j]) == v for j in range(len(a)) if j != i):
        P.hit("mmst_same_target_tie")
        return None  # random tie-break: staying is not evidence of an invalid move
    if v == p:
        # choosing the current node: a move along a self-loop cannot be told from staying
        return None if _adj(S)[p, p] else "invalid"
    if p2 == v:
        return "accepted"
    if p2 == p:
        return "invalid"
    return "accepted"


# ------------------------------------------------------------------------------------------ C06

def _shadow_update(P, trace):
    sh = P.shadow
    out = []
    if "visited" not in sh:
        n_agents = len(trace[0].S["positions"])
        sh["visited"] = [set() for _ in range(n_agents)]
        sh["n"] = 0
        sh["prev"] = None
    for ev in trace[sh["n"]:]:
        S = ev.S
        pos = [int(x) for x in S["positions"]]
        adj = _adj(S)
        if sh["prev"] is not None:
            act = [] if ev.action is None else [int(x) for x in np.asarray(ev.action)]
            if len(set(act)) < len(act):
                P.hit("mmst_same_target_chosen")
                # ties are broken at random, the losers stay: at most one of the tied agents may have *entered* the node
                for v in set(act):
                    tied = [i for i in range(len(act)) if act[i] == v]
                    entered = [i for i in tied if pos[i] == v and sh["prev"][i] != v]
                    if len(tied) > 1 and len(entered) > 1 and np.asarray(S["node_types"])[v] == UTILITY:
                        out.append(f"mmst_tie_single_winner: agents {entered} all entered utility node {v} in the same step")
            for i, (p0, p1) in enumerate(zip(sh["prev"], pos)):
                if p0 != p1:
                    P.hit("mmst_moves_along_edges")
                    if not adj[p0, p1]:
                        out.append(f"mmst_moves_along_edges: agent {i} went from node {p0} to node {p1} which are not adjacent")
        for i, p in enumerate(pos):
            sh["visited"][i].add(p)
        sh["prev"] = pos
    sh["n"] = len(trace)
    return out


def hard_constraints(P, trace):
    out = _shadow_update(P, trace)
    S = trace[-1].S
    visited = P.shadow["visited"]
    types = np.asarray(S["node_types"])
    n_agents = len(visited)
    for i in range(n_agents):
        for j in range(i + 1, n_agents):
            shared = [u for u in visited[i] & visited[j] if types[u] == UTILITY]
            if shared:
                out.append(f"mmst_utility_exclusive: utility node(s) {sorted(shared)[:5]} visited by agents {i} and {j}")
    if any(types[u] == UTILITY for s in visited for u in s):
        P.hit("mmst_utility_exclusive")
    a = trace[-1].action
    if a is not None and len(trace) >= 2 and "action_mask" in trace[-2].O:
        m0 = np.asarray(trace[-2].O["action_mask"]).astype(bool)
        av = [int(x) for x in np.asarray(a).ravel()]
        contested = [v for v in set(av) if sum(1 for i, x in enumerate(av) if x == v and i < m0.shape[0] and 0 <= x < m0.shape[1] and m0[i, x]) >= 3]
        if contested:
            P.hit("three_or_more_agents_same_legal_target")
    # the state's own record of the routes must be the route the agents really walked
    t = trace[-1].t
    cn = np.asarray(S["connected_nodes"])
    if t < cn.shape[1]:
        for i in range(n_agents):
            rec = {int(x) for x in cn[i] if x >= 0}
            if rec != visited[i]:
                out.append(f"mmst_route_record: agent {i} path array holds {sorted(rec)[:10]} but the agent visited {sorted(visited[i])[:10]}")
    return out


def complete(P, trace):
    if "visited" not in P.shadow or P.shadow.get("n") != len(trace):
        _shadow_update(P, trace)
    S = trace[-1].S
    visited = P.shadow["visited"]
    ntc = np.asarray(S["nodes_to_connect"])
    done = [all(int(v) in visited[i] for v in ntc[i]) for i in range(len(visited))]
    if not all(done):
        return None
    out = []
    P.hit("mmst_completed")
    adj = _adj(S)
    types = np.asarray(S["node_types"])
    for i, vs in enumerate(visited):
        # a walk along edges is connected by construction; recheck on the induced sub-graph
        start = int(ntc[i][0])
        seen, dq = {start}, deque([start])
        while dq:
            u = dq.popleft()
            for w in vs:
                if w not in seen and (adj[u, w] or adj[w, u]):
                    seen.add(w)
                    dq.append(w)
        if not all(int(v) in seen for v in ntc[i]):
            out.append(f"mmst_solution_tree_connected: the nodes visited by agent {i} do not connect all of its nodes {ntc[i].tolist()}")
        for j in range(i + 1, len(visited)):
            shared = [u for u in vs & visited[j] if types[u] == UTILITY]
            if shared:
                out.append(f"mmst_utility_exclusive: completed solution shares utility node(s) {sorted(shared)[:5]} between agents {i} and {j}")
    if trace[-1].t < P.params["time_limit"] and not np.all(S["finished_agents"]):
        out.append(f"mmst_finished_flags: all agents connected their nodes but finished_agents = {np.asarray(S['finished_agents']).tolist()}")
    return out


# ------------------------------------------------------------------------------------------ C10

def _connected(adj, nodes):
    nodes = [int(x) for x in nodes]
    if not nodes:
        return True
    ns = set(nodes)
    seen, dq = {nodes[0]}, deque([nodes[0]])
    while dq:
        u = dq.popleft()
        for v in np.flatnonzero(adj[u] | adj[:, u]):
            v = int(v)
            if v in ns and v not in seen:
                seen.add(v)
                dq.append(v)
    return len(seen) == len(ns)


def instance(P, S0, ev):
    out = []
    n, A, k = P.params["nodes"], P.params["agents"], P.params["per_agent"]
    raw = np.asarray(S0["adj_matrix"])
    P.hit("mmst_instance")
    if raw.shape != (n, n):
        return [f"mmst_adj_shape: adjacency matrix shape {raw.shape} != {(n, n)}"]
    if not np.isin(raw, (0, 1)).all():
        out.append("mmst_adj_binary: adjacency matrix holds values other than 0/1")
    adj = raw != 0
    if not np.array_equal(adj, adj.T):
        out.append("mmst_adj_symmetric: adjacency matrix is not symmetric")
    loops = np.flatnonzero(np.diag(adj))
    if len(loops):
        out.append(f"mmst_no_self_loops: self-loop at node(s) {loops.tolist()[:5]}")
    if not _connected(adj, range(n)):
        out.append("mmst_graph_connected: the graph is not connected")
    # per-agent edge tables: entry (u, v) = v when the edge exists, -1 otherwise (nobody stands on a utility node yet)
    ne = np.asarray(S0["node_edges"])
    ref = np.where(adj, np.arange(n)[None, :], -1)
    for i in range(ne.shape[0]):
        if not np.array_equal(ne[i], ref):
            out.append(f"mmst_node_edges_match_adjacency: edge table of agent {i} differs from the adjacency matrix in {int((ne[i] != ref).sum())} entries")
            break
    ntc = np.asarray(S0["nodes_to_connect"])
    types = np.asarray(S0["node_types"])
    pos = np.asarray(S0["positions"])
    if ntc.shape != (A, k):
        return out + [f"mmst_terminals_shape: nodes_to_connect shape {ntc.shape} != {(A, k)}"]
    blocks = np.array_split(np.arange(n), A)  # the generator splits the node range into contiguous blocks
    exp_types = np.full(n, UTILITY)
    for i in range(A):
        t = [int(x) for x in ntc[i]]
        if len(set(t)) != k or min(t) < 0 or max(t) >= n:
            out.append(f"mmst_terminals_distinct: agent {i} terminals {t} are not {k} distinct nodes")
            continue
        if not set(t) <= set(blocks[i].tolist()):
            out.append(f"mmst_terminals_in_block: agent {i} terminals {t} leave its block {int(blocks[i][0])}..{int(blocks[i][-1])}")
        if not _connected(adj, blocks[i]):
            out.append(f"mmst_agent_block_connected: the sub-graph induced by block {int(blocks[i][0])}..{int(blocks[i][-1])} of agent {i} is not connected")
        exp_types[t] = i
        if int(pos[i]) not in t:
            out.append(f"mmst_start_on_own_node: agent {i} starts on node {int(pos[i])}, not one of its nodes {t}")
    if not np.array_equal(types, exp_types):
        out.append("mmst_node_types_consistent: node_types does not label exactly the agents' terminals (utility = -1)")
    cn = np.asarray(S0["connected_nodes"])
    for i in range(A):
        if int(cn[i, 0]) != int(pos[i]) or (cn[i, 1:] != -1).any():
            out.append(f"mmst_initial_route: agent {i} path array does not hold exactly its start node")
            break
    if np.any(S0["finished_agents"]) or int(S0["step_count"]) != 0:
        out.append("mmst_initial_counters: finished flags / step_count not cleared at reset")
    return out


# ------------------------------------------------------------------------------------------ C11

def other_end_reason(P, S_prev, a, S, ev):
    return all(_finished(S))


# ------------------------------------------------------------------------------------------ C12

def check_obs(P, S, O):
    out = []
    A = len(S["positions"])
    types = np.asarray(S["node_types"]).astype(int)
    n = len(types)
    visited = _visited_sets(S)
    got = np.asarray(O["node_types"]).astype(int)
    P.hit("mmst_relabelling")
    if got.shape != (n,):
        return [f"obs_node_types_shape: {got.shape} != {(n,)}"]
    bad = []
    for u in range(n):
        vis = [k for k in range(A) if u in visited[k]]
        if vis:
            allowed = {2 * k for k in vis}
        elif types[u] == UTILITY:
            allowed = {-1}
        else:
            allowed = {2 * int(types[u]) + 1}
        if int(got[u]) not in allowed:
            bad.append((u, int(got[u]), sorted(allowed)))
    if bad:
        out.append(f"obs_node_types_relabelling: (node, observed, expected) {bad[:4]}")
    if got.min() < -1 or got.max() > 2 * A - 1:
        out.append(f"obs_node_types_range: labels outside [-1, {2 * A - 1}]")
    if any(len(v) > 1 for v in visited):
        P.hit("mmst_relabelling_connected_nodes")
    for f in ("adj_matrix", "positions", "action_mask"):
        if not np.array_equal(np.asarray(O[f]), np.asarray(S[f])):
            out.append(f"obs_{f}: observation field differs from the state")
    if int(O["step_count"]) != int(S["step_count"]):
        out.append(f"obs_step_count: observation {int(O['step_count'])} != state {int(S['step_count'])}")
    return out


# ------------------------------------------------------------------------------------------ policies

def _np_state(ctx):
    st = ctx["state"]
    return {
        "adj": np.asarray(st.adj_matrix) != 0, "pos": np.asarray(st.positions).astype(int),
        "ntc": np.asarray(st.nodes_to_connect).astype(int), "cn": np.asarray(st.connected_nodes).astype(int),
        "types": np.asarray(st.node_types).astype(int), "mask": np.asarray(ctx["ts"].observation.action_mask).astype(bool),
    }


def _bfs_next(adj, src, targets, allowed):
    """First hop of a shortest path from src to any node of `targets` through `allowed` nodes (None if none)."""
    prev = {src: None}
    dq = deque([src])
    while dq:
        u = dq.popleft()
        if u in targets and u != src:
            while prev[u] != src:
                u = prev[u]
            return u
        for v in np.flatnonzero(adj[u]):
            v = int(v)
            if v not in prev and v in allowed:
                prev[v] = u
                dq.append(v)
    return None


def _visited_from(st):
    return [{int(x) for x in st["cn"][i] if x >= 0} | {int(st["pos"][i])} for i in range(len(st["pos"]))]


def _fallback(row):
    idx = np.flatnonzero(row)
    return int(idx[0]) if len(idx) else 0


def _pol_complete(ctx):
    """Every agent walks (BFS) to its nearest unconnected node, inside its own block when possible."""
    st = _np_state(ctx)
    n, A = len(st["types"]), len(st["pos"])
    blocks = np.array_split(np.arange(n), A)
    vis = _visited_from(st)
    act = []
    for i in range(A):
        p = int(st["pos"][i])
        todo = {int(v) for v in st["ntc"][i]} - vis[i]
        row = st["mask"][i]
        if not todo or not row.any():
            act.append(_fallback(row))  # finished agent: its action is ignored by the rules
            continue
        own = set(blocks[i].tolist())
        nxt = _bfs_next(st["adj"], p, todo, own)
        if nxt is None or not row[nxt]:
            others_util = {u for j in range(A) if j != i for u in vis[j] if st["types"][u] == UTILITY}
            nxt = _bfs_next(st["adj"], p, todo, set(range(n)) - others_util)
        if nxt is None or not row[nxt]:
            nxt = _fallback(row)
        act.append(int(nxt))
    return np.asarray(act, np.int32)


def _pol_collide(ctx):
    """Mask-respecting but hostile: agent 1.. walk towards agent 0 and all agents pick a common legal
    neighbour whenever they have one (same-target ties, attempts on each other's utility nodes)."""
    st = _np_state(ctx)
    rng = ctx["rng"]
    n, A = len(st["types"]), len(st["pos"])
    mask = st["mask"]
    act = [None] * A
    # a node that as many agents as possible may enter on this step (three-way and wider ties), utility nodes first
    cnt = mask.sum(axis=0)
    if cnt.max() >= 3:
        best = np.flatnonzero(cnt == cnt.max())
        util = [int(v) for v in best if st["types"][v] == UTILITY]
        v = int(rng.choice(util)) if util else int(rng.choice(best))
        for i in range(A):
            if mask[i, v]:
                act[i] = v
    for i in range(A):
        for j in range(i + 1, A):
            both = np.flatnonzero(mask[i] & mask[j])
            if len(both) and act[i] is None and act[j] is None:
                # prefer a utility node: that is the contested resource
                util = [int(v) for v in both if st["types"][v] == UTILITY]
                v = int(rng.choice(util)) if util else int(rng.choice(both))
                act[i] = act[j] = v
    for i in range(A):
        if act[i] is not None:
            continue
        row = mask[i]
        if not row.any():
            act[i] = 0
            continue
        if i == 0:
            # agent 0 strolls over utility nodes so that they become forbidden for the others
            util = [int(v) for v in np.flatnonzero(row) if st["types"][v] == UTILITY]
            act[i] = int(rng.choice(util)) if util and rng.random() < 0.7 else int(rng.choice(np.flatnonzero(row)))
        else:
            legal_nodes = set(np.flatnonzero(row).tolist())
            nxt = _bfs_next(st["adj"], int(st["pos"][i]), {int(st["pos"][0])} | {int(v) for v in np.flatnonzero(st["adj"][int(st["pos"][0])])}, set(range(n)))
            act[i] = int(nxt) if nxt is not None and nxt in legal_nodes else int(rng.choice(np.flatnonzero(row)))
    return np.asarray(act, np.int32)


def _blockadable(adj, pos, ntc):
    """Agents whose current node has only utility-type neighbours (nodes no agent has to connect)."""
    owned = {int(v) for row in ntc for v in row}
    out = []
    for i, p in enumerate(pos):
        nb = [int(v) for v in np.flatnonzero(adj[int(p)]) if int(v) != int(p)]
        if nb and all(v not in owned for v in nb):
            out.append(i)
    return out


def key_score(P, S0):
    """Workload hint: reset instances in which some agent can be boxed in at its start node (dead-lock workloads)."""
    return float(len(_blockadable(_adj(S0), np.asarray(S0["positions"]).astype(int), np.asarray(S0["nodes_to_connect"]).astype(int))))


def _pol_blockade(ctx):
    """Dead-lock workload (in-spec, not mask-respecting): one agent whose start node has only utility neighbours never moves
    (it keeps choosing its own node), the others first walk over all of those neighbours - which makes them forbidden for the
    victim - and then connect their own nodes. The victim ends up unfinished with an empty mask row."""
    st = _np_state(ctx)
    n, A = len(st["types"]), len(st["pos"])
    if "victim" not in ctx:
        cand = _blockadable(st["adj"], st["pos"], st["ntc"]) if ctx["t"] == 0 else []
        ctx["victim"] = cand[0] if cand else None
    vi = ctx["victim"]
    if vi is None:
        return _pol_collide(ctx)
    ctx["legal_only"] = False
    vis = _visited_from(st)
    p = int(st["pos"][vi])
    ring = {int(v) for v in np.flatnonzero(st["adj"][p]) if int(v) != p}
    blocked_by_others = {u for j in range(A) if j != vi for u in vis[j]}
    todo_ring = ring - blocked_by_others
    base = _pol_complete(ctx)
    act = [int(x) for x in base]
    act[vi] = p  # stays (an illegal choice unless the node has a self-loop)
    for j in range(A):
        if j == vi or not st["mask"][j].any():
            continue
        if todo_ring:
            others_util = {u for k in range(A) if k != j for u in vis[k] if st["types"][u] == UTILITY}
            nxt = _bfs_next(st["adj"], int(st["pos"][j]), todo_ring, set(range(n)) - others_util)
            if nxt is not None and st["mask"][j][nxt]:
                act[j] = int(nxt)
    return np.asarray(act, np.int32)


POLICY_WEIGHT = {"collide": 5}  # ties between three or more agents are rare events: more episodes of the hostile workload


def policies(P):
    return {"complete": _pol_complete, "collide": _pol_collide, "frontier": _pol_blockade}


def qualify(P, clause, ev):
    """Known-finding key: the generator's random walk mis-handles refused edges when the degree cap is tight."""
    if clause in ("mmst_no_self_loops", "mmst_agent_block_connected", "mmst_graph_connected", "mmst_node_edges_match_adjacency"):
        return "max_degree<=4" if P.params["degree"] <= 4 else ""
    return ""
