"""FlatPack — independent NumPy statement of the rules (DESIGN §4; docs/environments/flat_pack.md, class docstring).

A (2*row_blocks+1) x (2*col_blocks+1) grid has to be covered with num_blocks = row_blocks*col_blocks blocks,
each given as a 3x3 array whose non-zero cells carry the block's number. Action (b, k, r, c): rotate block b
by k clockwise quarter turns and put the top-left corner of its 3x3 box on cell (r, c) (the action space keeps
the box inside the grid). legal <=> block b not placed yet and every non-zero cell of the rotated block falls
on an empty cell. A legal action writes the block's number into those cells and marks the block placed; an
illegal action changes nothing and the episode goes on. The episode ends exactly after num_blocks steps.
Reward: cells of the placed block / cells of the grid (default) or 1 / num_blocks per placed block ("block").
"""
from __future__ import annotations

import sys
from collections import defaultdict

import numpy as np


def params(cfg):
    gen = cfg.get("gen")
    if gen in ("toy_rot", "toy_norot"):
        rb, cb = 2, 2  # "deterministic toy FlatPack environment with 4 blocks"
    else:
        rb, cb = cfg.get("row_blocks", 5), cfg.get("col_blocks", 5)
        gen = "random"
    return {"gen": gen, "row_blocks": rb, "col_blocks": cb, "rows": 2 * rb + 1, "cols": 2 * cb + 1, "num_blocks": rb * cb,
            "reward": cfg.get("reward", "cell")}


def RANDOM_GENERATOR(cfg):
    # a single 3x3 block leaves the construction no choice (DESIGN C10: degenerate sizes are exempt)
    p = params(cfg)
    return p["gen"] == "random" and p["num_blocks"] > 1


def horizon(P):
    return int(P.params["num_blocks"])


def time_limit(P):
    # "ends exactly after num_blocks steps": judged with the never-earlier / never-later clauses of C11
    return int(P.params["num_blocks"])


def other_end_reason(P, S_prev, a, S, ev):
    # the documentation also names a filled grid / all blocks placed as an end reason
    return bool(np.all(np.asarray(S["grid"]) != 0)) or bool(np.all(S["placed_blocks"]))


# ------------------------------------------------------------------------------------------ rules

def rotate(block, k):
    """k clockwise quarter turns of a square array, cell by cell."""
    cur = [[int(v) for v in row] for row in np.asarray(block)]
    n = len(cur)
    for _ in range(int(k) % 4):
        cur = [[cur[n - 1 - j][i] for j in range(n)] for i in range(n)]
    return np.asarray(cur, np.int64)


def _cells(block, k, r, c):
    """[(row, col, value)] of the non-zero cells of block rotated k times with its box corner at (r, c)."""
    rb = rotate(block, k)
    return [(int(r) + i, int(c) + j, int(rb[i, j])) for i in range(rb.shape[0]) for j in range(rb.shape[1]) if rb[i, j] != 0]


def _legal_one(S, b, k, r, c):
    grid = np.asarray(S["grid"])
    if bool(S["placed_blocks"][b]):
        return False
    for (y, x, _) in _cells(S["blocks"][b], k, r, c):
        if not (0 <= y < grid.shape[0] and 0 <= x < grid.shape[1]) or grid[y, x] != 0:
            return False
    return True


def legal(P, S, O):
    blocks = np.asarray(S["blocks"])
    grid = np.asarray(S["grid"])
    R, C = grid.shape
    N = blocks.shape[0]
    rot = np.zeros((N, 4, 3, 3), np.int64)
    for b in range(N):
        for k in range(4):
            rot[b, k] = rotate(blocks[b], k) != 0
    win = np.lib.stride_tricks.sliding_window_view((grid != 0).astype(np.int64), (3, 3))  # (R-2, C-2, 3, 3)
    overlap = np.einsum("nkij,rcij->nkrc", rot, win) > 0
    free = ~np.asarray(S["placed_blocks"]).astype(bool)
    return free[:, None, None, None] & ~overlap


def reaction(P, S, a, S2, ev, agent):
    same = np.array_equal(S["grid"], S2["grid"]) and np.array_equal(S["placed_blocks"], S2["placed_blocks"])
    return "invalid" if same else "accepted"


def illegal_effect(P, S, a, S2, ev, agent):
    out = []
    b = int(a[0])
    P.hit("illegal_ignored")
    P.hit("illegal_kind_block_already_placed" if bool(S["placed_blocks"][b]) else "illegal_kind_overlap")
    if not np.array_equal(S["grid"], S2["grid"]):
        out.append("illegal_grid_unchanged: an illegal placement changed the grid")
    if not np.array_equal(S["placed_blocks"], S2["placed_blocks"]):
        out.append("illegal_placed_blocks_unchanged: an illegal placement changed placed_blocks")
    if not np.array_equal(S["blocks"], S2["blocks"]):
        out.append("illegal_blocks_unchanged: an illegal placement changed the block set")
    if ev.last and int(S["step_count"]) + 1 < int(P.params["num_blocks"]):
        out.append(f"illegal_episode_continues: illegal placement at step {int(S['step_count']) + 1} < num_blocks ended the episode")
    return out


# ------------------------------------------------------------------------------------------ C09

def check_step(P, S, a, S2, reward, last, ev):
    out = []
    b, k, r, c = (int(x) for x in a)
    N = int(P.params["num_blocks"])
    grid = np.asarray(S["grid"]).astype(np.int64)
    R, C = grid.shape
    ok = _legal_one(S, b, k, r, c)
    exp_grid = grid.copy()
    exp_placed = np.asarray(S["placed_blocks"]).astype(bool).copy()
    exp_reward = 0.0
    if ok:
        P.hit("ref_legal_placement")
        if k:
            P.hit("ref_rotated_placement")
        cells = _cells(S["blocks"][b], k, r, c)
        for (y, x, v) in cells:
            exp_grid[y, x] = v
        exp_placed[b] = True
        exp_reward = len(cells) / float(R * C) if P.params["reward"] == "cell" else 1.0 / N
    else:
        P.hit("ref_illegal_placement")
    if not np.array_equal(S2["grid"], exp_grid):
        d = np.argwhere(np.asarray(S2["grid"]) != exp_grid)
        out.append(f"ref_grid: grid differs from the reference placement (legal={ok}) at {d[:4].tolist()}")
    if not np.array_equal(np.asarray(S2["placed_blocks"]).astype(bool), exp_placed):
        out.append(f"ref_placed_blocks: placed_blocks differs from the reference (legal={ok})")
    if not np.array_equal(S2["blocks"], S["blocks"]):
        out.append("ref_blocks_constant: the block set changed")
    if int(S2["step_count"]) != int(S["step_count"]) + 1:
        out.append("ref_step_count: step_count did not increase by one")
    if int(S2["num_blocks"]) != int(S["num_blocks"]):
        out.append("ref_num_blocks_constant: num_blocks changed")
    if not abs(float(reward) - exp_reward) <= 1e-6:
        out.append(f"ref_reward: reward {float(reward)!r} != {exp_reward!r} (legal={ok}, reward={P.params['reward']})")
    exp_last = int(S["step_count"]) + 1 >= N
    if exp_last:
        P.hit("ref_last_step")
    if bool(last) != exp_last:
        out.append(f"ref_last: last={bool(last)} after step {int(S['step_count']) + 1} of {N}")
    return out


def synthetic(P, rng, tier):
    """rotate_block (public util) against np.rot90 with k clockwise turns, on random 3x3 blocks."""
    import jax
    import jax.numpy as jnp
    from jumanji.environments.packing.flat_pack.utils import rotate_block

    out = []
    n = 40 if tier == "quick" else 400
    f = jax.jit(rotate_block)
    for t in range(n):
        blk = rng.integers(0, 2, (3, 3)) * int(rng.integers(1, 26))
        if t == 0:
            blk = np.arange(1, 10).reshape(3, 3)  # all cells distinct: the rotation is fully determined
        for k in range(4):
            got = np.asarray(f(jnp.asarray(blk, jnp.int32), k))
            P.hit("rotate_block_vs_rot90")
            if not np.array_equal(got, np.rot90(blk, -k)) or not np.array_equal(got, rotate(blk, k)):
                out.append(f"rotate_block_clockwise: rotate_block({blk.tolist()}, {k}) = {got.tolist()} != np.rot90(block, -{k})")
                return out
    return out


# ------------------------------------------------------------------------------------------ C06 / C08

def _block_ids(blocks):
    """id carried by each block (0 when the block is empty or mixes several numbers)."""
    ids = []
    for blk in np.asarray(blocks):
        vals = np.unique(blk[blk != 0])
        ids.append(int(vals[0]) if len(vals) == 1 else 0)
    return ids


def _shape(cells):
    cells = sorted(cells)
    r0 = min(y for y, _ in cells)
    c0 = min(x for _, x in cells)
    return tuple((y - r0, x - c0) for y, x in cells)


def _state_problems(P, S):
    """Feasibility read from the raw arrays only: every number on the grid belongs to a placed block and forms
    a (rotated) copy of that block; unplaced blocks are absent. Overlaps add numbers up and break both."""
    out = []
    R, C, N = P.params["rows"], P.params["cols"], P.params["num_blocks"]
    grid = np.asarray(S["grid"]).astype(np.int64)
    blocks = np.asarray(S["blocks"]).astype(np.int64)
    placed = np.asarray(S["placed_blocks"]).astype(bool)
    if grid.shape != (R, C):
        return [f"grid_shape: grid shape {grid.shape} != {(R, C)}"]
    if grid.min() < 0 or grid.max() > N:
        out.append(f"grid_values_are_block_numbers: grid holds values outside 0..{N}: {np.unique(grid[(grid < 0) | (grid > N)])[:5].tolist()}")
    ids = _block_ids(blocks)
    known = set()
    for b in range(len(blocks)):
        v = ids[b]
        if v == 0:
            continue
        known.add(v)
        on_grid = [(int(y), int(x)) for y, x in np.argwhere(grid == v)]
        if not placed[b]:
            if on_grid:
                out.append(f"unplaced_block_absent: block {b} (number {v}) is not placed but covers {len(on_grid)} cells")
            continue
        n_cells = int((blocks[b] != 0).sum())
        if len(on_grid) != n_cells:
            out.append(f"placed_block_cell_count: block {b} (number {v}) has {n_cells} cells but {len(on_grid)} cells of the grid carry its number")
            continue
        shapes = {_shape([(y, x) for y, x, _ in _cells(blocks[b], k, 0, 0)]) for k in range(4)}
        if _shape(on_grid) not in shapes:
            out.append(f"placed_block_shape: the cells numbered {v} are not a rotated copy of block {b}")
    extra = set(np.unique(grid[grid != 0]).tolist()) - known
    if extra:
        out.append(f"grid_values_are_block_numbers: numbers {sorted(extra)[:5]} on the grid belong to no block (cells covered twice add up)")
    return out


def _masked_in(prev_ev, action):
    m = np.asarray(prev_ev.O["action_mask"])
    ix = tuple(int(x) for x in action)
    return all(0 <= i < n for i, n in zip(ix, m.shape)) and bool(m[ix])


def _mask_respecting(trace):
    """FlatPack can leave the agent without any legal action before the episode is over; the deterministic
    workload policies then play an arbitrary action. Such episodes are no longer mask-respecting play."""
    return all(_masked_in(trace[i - 1], trace[i].action) for i in range(1, len(trace)))


def hard_constraints(P, trace):
    ev = trace[-1]
    S = ev.S
    R, C = P.params["rows"], P.params["cols"]
    sh = P.shadow
    if ev.action is not None and (sh.get("void") or not _masked_in(trace[-2], ev.action)):
        if not sh.get("void"):
            P.hit("off_mask_action_ends_judgement")
        sh["void"] = True
        return []
    out = _state_problems(P, S)
    if ev.action is None or "count" not in sh:
        sh["count"] = np.zeros((R, C), np.int64)   # how many blocks cover each cell (cell multiset)
        sh["numbers"] = np.zeros((R, C), np.int64)
        sh["placed"] = set()
    if ev.action is not None:
        # mask-respecting play: every action of the trace was offered as legal, so it is laid on the shadow grid
        b, k, r, c = (int(x) for x in ev.action)
        blocks = np.asarray(trace[0].S["blocks"])
        P.hit("placement_on_shadow_grid")
        if b in sh["placed"]:
            out.append(f"block_placed_once: block {b} was offered and placed a second time")
        sh["placed"].add(b)
        for (y, x, v) in _cells(blocks[b], k, r, c):
            if not (0 <= y < R and 0 <= x < C):
                out.append(f"cells_inside_grid: block {b} placed at {(r, c)} rotation {k} covers cell {(y, x)} outside the {R}x{C} grid")
                continue
            sh["count"][y, x] += 1
            sh["numbers"][y, x] += v
    if sh["count"].max() > 1:
        yx = np.argwhere(sh["count"] > 1)
        out.append(f"cell_holds_one_block: {len(yx)} cells are covered by more than one block, e.g. {yx[0].tolist()}")
    if not np.array_equal(np.asarray(S["grid"]), sh["numbers"]):
        out.append("grid_matches_placements: the grid is not the sum of the placements played so far")
    exp_placed = np.zeros(len(S["placed_blocks"]), bool)
    exp_placed[list(sh["placed"])] = True
    if not np.array_equal(np.asarray(S["placed_blocks"]).astype(bool), exp_placed):
        out.append("placed_blocks_match_placements: placed_blocks differs from the set of blocks played so far")
    return out


def complete(P, trace):
    S = trace[-1].S
    if not _mask_respecting(trace) or not np.all(S["placed_blocks"]):
        P.hit("ended_not_all_placed")
        return None
    P.hit("all_blocks_placed")
    out = _state_problems(P, S)
    if np.any(np.asarray(S["grid"]) == 0):
        out.append(f"complete_grid_covered: all blocks are placed but {int((np.asarray(S['grid']) == 0).sum())} cells are empty")
    return out


def objective(P, trace):
    S = trace[-1].S
    if not _mask_respecting(trace):
        P.hit("episode_with_off_mask_action_skipped")
        return None
    if P.params["reward"] == "cell":
        P.hit("covered_fraction")
        return float(np.mean(np.asarray(S["grid"]) != 0))
    P.hit("placed_fraction")
    return float(np.mean(np.asarray(S["placed_blocks"]).astype(bool)))


# ------------------------------------------------------------------------------------------ C10

def _placements(blocks, R, C, mode):
    """{first cell (row-major) : [(block, bitmask, (k, r, c))]}.
    mode "boxed": what the action space can express (3x3 box inside the grid);
    mode "free":  any translation of any rotation with all cells inside the grid (abstract tiling);
    mode "home":  free placements lying inside one of the overlapping 3x3 homes (2i..2i+2, 2j..2j+2)."""
    by_first = defaultdict(list)
    for b, blk in enumerate(blocks):
        seen = set()
        for k in range(4):
            cells = [(y, x) for y, x, _ in _cells(blk, k, 0, 0)]
            if not cells:
                continue
            if mode == "boxed":
                rr, cc = range(R - 2), range(C - 2)
            else:
                r0, c0 = min(y for y, _ in cells), min(x for _, x in cells)
                cells = [(y - r0, x - c0) for y, x in cells]
                key = tuple(sorted(cells))
                if key in seen:
                    continue
                seen.add(key)
                rr, cc = range(R), range(C)
            h, w = max(y for y, _ in cells) + 1, max(x for _, x in cells) + 1
            for r in rr:
                for c in cc:
                    if mode != "boxed" and (r + h > R or c + w > C):
                        continue
                    if mode == "home":
                        # rows r..r+h-1 inside some [2i, 2i+2]: the home starting at the even row <= r must hold it
                        if (r % 2) + h > 3 or (c % 2) + w > 3:
                            continue
                    mask = 0
                    for (y, x) in cells:
                        mask |= 1 << ((y + r) * C + (x + c))
                    by_first[(mask & -mask).bit_length() - 1].append((b, mask, (k, r, c)))
    return by_first


def _exact_cover(blocks, R, C, mode, cap):
    """Exact cover of the R x C cells (and "every block exactly once") by the placements of `mode`, Knuth's
    Algorithm X with the fewest-candidates column first. Blocks whose placement sets coincide are
    interchangeable, so a cell set is tried once per such class.
    Returns (True, [(block, (k, r, c))]) | (False, None) | (None, None) when the node cap was reached."""
    N, nc = len(blocks), R * C
    rows, info = [], []
    for lst in _placements(blocks, R, C, mode).values():
        for (b, mask, pl) in lst:
            rows.append((b, mask))
            info.append((b, pl))
    n_rows = len(rows)
    A = np.zeros((n_rows, nc + N), np.uint8)
    masks_of = defaultdict(set)
    for p, (b, mask) in enumerate(rows):
        m = mask
        while m:
            low = m & -m
            A[p, low.bit_length() - 1] = 1
            m ^= low
        A[p, nc + b] = 1
        masks_of[b].add(mask)
    classes = {}
    cls = [classes.setdefault(frozenset(masks_of[b]), len(classes)) for b in range(N)]
    nodes = [0]
    sol = []

    def rec(live, uncovered):
        # live: indices of the placements still compatible with the partial cover
        nodes[0] += 1
        if nodes[0] > cap:
            return None
        if not uncovered.any():
            return True
        sub = A[live]
        cnt = sub.sum(axis=0, dtype=np.int64)
        cnt[~uncovered] = n_rows + 1
        col = int(np.argmin(cnt))
        if cnt[col] == 0:
            return False
        tried = set()
        for p in live[sub[:, col] > 0]:
            b, mask = rows[p]
            if (cls[b], mask) in tried:
                continue
            tried.add((cls[b], mask))
            cols = np.flatnonzero(A[p])
            left = uncovered.copy()
            left[cols] = False
            res = rec(live[~sub[:, cols].any(axis=1)], left)
            if res:
                sol.append(info[p])
                return True
            if res is None:
                return None
        return False

    if n_rows == 0:
        return False, None
    old = sys.getrecursionlimit()
    sys.setrecursionlimit(max(old, 5000))
    try:
        res = rec(np.arange(n_rows), np.ones(nc + N, bool))
    finally:
        sys.setrecursionlimit(old)
    return (res, sol[::-1]) if res else (res, None)


def _first_cell_search(blocks, R, C, mode, cap):
    """Plain depth-first fallback: the lowest empty cell must be the lowest cell of the placement covering it."""
    by_first = _placements(blocks, R, C, mode)
    full = (1 << (R * C)) - 1
    nodes = [0]

    def rec(occ, used):
        nodes[0] += 1
        if nodes[0] > cap:
            return None
        if occ == full:
            return True
        inv = ~occ & full
        first = (inv & -inv).bit_length() - 1
        for (b, mask, _) in by_first.get(first, ()):
            if (used >> b) & 1 or (mask & occ):
                continue
            res = rec(occ | mask, used | (1 << b))
            if res or res is None:
                return res
        return False

    old = sys.getrecursionlimit()
    sys.setrecursionlimit(max(old, 5000))
    try:
        return rec(0, 0)
    finally:
        sys.setrecursionlimit(old)


def instance(P, S0, ev):
    out = []
    R, C, N = P.params["rows"], P.params["cols"], P.params["num_blocks"]
    blocks = np.asarray(S0["blocks"]).astype(np.int64)
    grid = np.asarray(S0["grid"])
    P.hit("block_set_checked")
    if blocks.shape != (N, 3, 3) or grid.shape != (R, C):
        return [f"instance_shapes: blocks {blocks.shape} / grid {grid.shape}, expected {(N, 3, 3)} / {(R, C)}"]
    if int(S0["num_blocks"]) != N:
        out.append(f"num_blocks_field: state.num_blocks {int(S0['num_blocks'])} != {N}")
    if grid.any() or np.asarray(S0["placed_blocks"]).any() or int(S0["step_count"]) != 0:
        out.append("reset_state_empty: grid not empty, a block already placed or step_count != 0 at reset")
    ids = _block_ids(blocks)
    if sorted(ids) != list(range(1, N + 1)):
        out.append(f"block_numbers_once_each: the blocks carry the numbers {sorted(ids)}, expected each of 1..{N} once (0 = empty or mixed block)")
    n_cells = int((blocks != 0).sum())
    if n_cells != R * C:
        out.append(f"cells_sum_to_grid: the blocks have {n_cells} cells in total, the grid has {R * C}")
    if out:
        return out
    # abstract tiling (rotations allowed, only the cells have to stay inside the grid); any tiling is a certificate
    res, _ = _exact_cover(blocks, R, C, "home", cap=500)
    if res:
        P.hit("tiling_certified_home_aligned")
    else:
        res, _ = _exact_cover(blocks, R, C, "free", cap=30000)
        if res is None:
            res = _first_cell_search(blocks, R, C, "free", cap=150000)
        if res:
            P.hit("tiling_certified_free_search")
    if res is None:
        P.hit("tiling_undecided")
    elif res is False:
        out.append("blocks_tile_grid: exhaustive exact-cover search proves that the blocks cannot tile the grid")
    else:
        P.hit("tiling_certified")
    # playability through the action space (3x3 box inside the grid): an observation, never a verdict
    play, _ = _exact_cover(blocks, R, C, "boxed", cap=30000)
    P.hit("playable_completion_exists" if play else ("playable_completion_undecided" if play is None else "no_playable_completion"))
    return out


# ------------------------------------------------------------------------------------------ C12

def check_obs(P, S, O):
    out = []
    P.hit("obs_copies")
    for f in ("grid", "blocks", "action_mask"):
        if np.asarray(O[f]).shape != np.asarray(S[f]).shape or not np.array_equal(O[f], S[f]):
            out.append(f"obs_{f}: observation.{f} != state.{f}")
    if np.asarray(S["grid"]).any():
        P.hit("obs_nonempty_grid")
    return out


# ------------------------------------------------------------------------------------------ workload policies

def _pol_complete(ctx):
    """Solve the instance with the placements the action space can express and play the solution; instances
    without a playable completion are played with uniform masked actions."""
    from jmon.rollout import pol_masked

    st = ctx["state"]
    if "fp_plan" not in ctx:
        blocks = np.asarray(st.blocks).astype(np.int64)
        R, C = np.asarray(st.grid).shape
        res, sol = _exact_cover(blocks, R, C, "boxed", cap=30000)
        ctx["fp_plan"] = sol if res else []
    m = np.asarray(ctx["ts"].observation.action_mask)
    placed = np.asarray(st.placed_blocks)
    for (b, (k, r, c)) in ctx["fp_plan"]:
        if not placed[b] and m[b, k, r, c]:
            return np.asarray([b, k, r, c], np.int32)
    return pol_masked(ctx)


def _pol_frontier(ctx):
    """Prefer placements whose box touches the last row / last column of the grid."""
    from jmon.rollout import pol_masked

    m = np.asarray(ctx["ts"].observation.action_mask)
    idx = np.argwhere(m)
    if len(idx) == 0:
        return pol_masked(ctx)
    edge = idx[(idx[:, 2] == m.shape[2] - 1) | (idx[:, 3] == m.shape[3] - 1)]
    pool = edge if len(edge) else idx
    return pool[ctx["rng"].integers(len(pool))].astype(np.int32)


def policies(P):
    return {"complete": _pol_complete, "frontier": _pol_frontier}
