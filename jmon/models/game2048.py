"""Game2048 — independent NumPy statement of the rules (DESIGN §4; docs/environments/game_2048.md, class docstring).

Board cells hold exponents (0 = empty, e = tile of value 2**e). Actions 0..3 = up, right, down, left.
Every line slides toward the wall of the move; two equal neighbours (after removing the gaps) merge once per
move, the pair closest to the wall first ([1,1,1] -> [2,1,0]); reward = sum of the values 2**(e+1) of the tiles
created. A move is legal iff the slide changes the board. After a legal move exactly one empty cell of the slid
board receives exponent 1 or 2; after an illegal move nothing is added and the episode continues. The episode
ends when no legal move remains after the spawn.
"""
from __future__ import annotations

import itertools

import numpy as np


def params(cfg):
    return {"board_size": cfg.get("board_size", 4)}


def RANDOM_GENERATOR(cfg):
    return True


# ------------------------------------------------------------------------------------------- reference rules

def ref_row(row):
    """Slide one line toward index 0. Returns (new line, reward, number of merges)."""
    tiles = [int(x) for x in row if int(x) != 0]
    out, reward, merges, i = [], 0, 0, 0
    while i < len(tiles):
        if i + 1 < len(tiles) and tiles[i] == tiles[i + 1]:
            out.append(tiles[i] + 1)
            reward += 2 ** (tiles[i] + 1)
            merges += 1
            i += 2
        else:
            out.append(tiles[i])
            i += 1
    return out + [0] * (len(row) - len(out)), reward, merges


def _lines(n, a):
    """For action a: list of lines, each a list of (r, c) cells ordered from the wall outwards."""
    out = []
    for k in range(n):
        if a == 0:  # up: columns, wall at row 0
            out.append([(i, k) for i in range(n)])
        elif a == 1:  # right: rows, wall at the last column
            out.append([(k, n - 1 - i) for i in range(n)])
        elif a == 2:  # down: columns, wall at the last row
            out.append([(n - 1 - i, k) for i in range(n)])
        else:  # left: rows, wall at column 0
            out.append([(k, i) for i in range(n)])
    return out


def ref_slide(board, a):
    """(slid board, reward, merges, triple) where triple says a line held >= 3 equal consecutive tiles."""
    board = np.asarray(board).astype(np.int64)
    n = board.shape[0]
    new = board.copy()
    reward = merges = 0
    triple = False
    for line in _lines(n, int(a)):
        vals = [board[r, c] for r, c in line]
        t = [v for v in vals if v]
        triple = triple or any(t[i] == t[i + 1] == t[i + 2] for i in range(len(t) - 2))
        nv, rw, mg = ref_row(vals)
        reward += rw
        merges += mg
        for (r, c), v in zip(line, nv):
            new[r, c] = v
    return new, reward, merges, triple


def _legal_board(board):
    board = np.asarray(board).astype(np.int64)
    return np.array([not np.array_equal(ref_slide(board, a)[0], board) for a in range(4)])


def _tile_sum(board):
    return sum(2 ** int(e) for e in np.asarray(board).ravel() if int(e) > 0)


def legal(P, S, O):
    return _legal_board(S["board"])


def reaction(P, S, a, S2, ev, agent):
    # the environment "accepts" a move when the position changes (slide and/or new tile); an ignored move
    # leaves the board exactly as it was
    return "invalid" if np.array_equal(S["board"], S2["board"]) else "accepted"


def illegal_effect(P, S, a, S2, ev, agent):
    out = []
    P.hit("illegal_move_ignored")
    if not np.array_equal(S["board"], S2["board"]):
        added = int((np.asarray(S2["board"]) > 0).sum() - (np.asarray(S["board"]) > 0).sum())
        out.append(f"illegal_board_unchanged: board changed after an illegal move (tile count change {added:+d})")
    if float(ev.reward) != 0.0:
        out.append(f"illegal_no_merge_reward: reward {float(ev.reward)} for a move that cannot merge anything")
    if float(S2["score"]) != float(S["score"]):
        out.append("illegal_score_unchanged: score changed after an illegal move")
    # S is non-terminal, so some other move is legal and stays legal on the unchanged board
    if ev.last and _legal_board(S["board"]).any():
        out.append("illegal_episode_continues: illegal move ended the episode although legal moves remain")
    return out


def check_step(P, S, a, S2, reward, last, ev):
    out = []
    a = int(a)
    board = np.asarray(S["board"]).astype(np.int64)
    got = np.asarray(S2["board"]).astype(np.int64)
    slid, rw, merges, triple = ref_slide(board, a)
    is_legal = not np.array_equal(slid, board)
    if int(S2["step_count"]) != int(S["step_count"]) + 1:
        out.append("step_count_increments: step_count did not increase by one")
    if got.shape != board.shape:
        return out + [f"ref_board_shape: {got.shape} != {board.shape}"]
    if not is_legal:
        P.hit("ref_illegal_move")
        if not np.array_equal(got, board):
            out.append("ref_illegal_board_unchanged: board changed although the slide moves nothing")
        if float(reward) != 0.0:
            out.append(f"ref_reward: reward {float(reward)} != 0 for an illegal move")
    else:
        P.hit("ref_legal_move")
        if merges:
            P.hit("ref_merge")
        if triple:
            P.hit("ref_three_equal_in_line")
        diff = np.argwhere(got != slid)
        if len(diff) != 1:
            out.append(f"ref_slide_and_one_new_tile: successor differs from the reference slide in {len(diff)} cells (expected exactly the one new tile); slid={slid.tolist()} got={got.tolist()}")
        else:
            r, c = diff[0]
            if slid[r, c] != 0:
                out.append(f"ref_new_tile_on_empty_cell: cell {(int(r), int(c))} held {int(slid[r, c])} after the slide and now holds {int(got[r, c])}")
            elif got[r, c] not in (1, 2):
                out.append(f"ref_new_tile_value: new tile exponent {int(got[r, c])} not in (1, 2)")
            else:
                P.hit("ref_spawn_2" if got[r, c] == 1 else "ref_spawn_4")
        if float(reward) != float(rw):
            out.append(f"ref_reward: reward {float(reward)} != sum of created tiles {rw}")
    if abs(float(S2["score"]) - (float(S["score"]) + float(reward))) > 1e-3:
        out.append(f"ref_score: score {float(S2['score'])} != previous {float(S['score'])} + reward {float(reward)}")
    exp_last = not _legal_board(got).any()
    if exp_last:
        P.hit("ref_no_move_left")
    if bool(last) != exp_last:
        out.append(f"ref_last: last={bool(last)} but legal moves on the successor board: {_legal_board(got).tolist()}")
    return out


def physical(P, S_prev, a, S):
    out = []
    n = P.params["board_size"]
    b = np.asarray(S["board"])
    if b.shape != (n, n):
        return [f"grid_shape: board shape {b.shape} != {(n, n)}"]
    if (b < 0).any():
        out.append("tiles_nonnegative: negative exponent on the board")
    if S_prev is None:
        return out
    before, after = _tile_sum(S_prev["board"]), _tile_sum(b)
    moved = bool(_legal_board(S_prev["board"])[int(a)])
    P.hit("tile_sum_legal_move" if moved else "tile_sum_illegal_move")
    if moved and (after - before) not in (2, 4):
        out.append(f"tile_sum_conserved: tile sum went {before} -> {after} across a legal move (expected +2 or +4 for the new tile)")
    if (not moved) and after != before:
        out.append(f"tile_sum_conserved: tile sum went {before} -> {after} across an illegal move (expected no change)")
    return out


OBJECTIVE_HOLDS_ON_PREFIX = True  # the objective is a running quantity: valid after every step of a legal episode


def objective(P, trace):
    """Sum of the values of all tiles created by merges (shadow count from the reference slide), which the
    documentation also calls the score."""
    shadow = 0
    for e in trace[1:]:
        shadow += ref_slide(e.S0["board"], int(e.action))[1]
    score = float(trace[-1].S["score"])
    ret = float(sum(float(e.reward) for e in trace[1:]))
    P.hit("merged_tiles_sum")
    if int(np.max(trace[-1].S["board"])) >= 12:
        P.hit("episode_reached_tile_4096_plus")
    # the return must equal both the shadow sum and state.score: hand back whichever disagrees with it
    if abs(ret - shadow) <= 1e-3 and abs(score - shadow) > 1e-3:
        return score
    return float(shadow)


def instance(P, S0, ev):
    out = []
    n = P.params["board_size"]
    b = np.asarray(S0["board"])
    P.hit("initial_board")
    if b.shape != (n, n):
        return [f"initial_board_shape: {b.shape} != {(n, n)}"]
    nz = b[b != 0]
    # class docstring / _generate_board: an empty board with one random cell of exponent 1 or 2
    if len(nz) != 1:
        out.append(f"initial_one_tile: {len(nz)} tiles on the initial board")
    if not all(int(v) in (1, 2) for v in nz):
        out.append(f"initial_tile_value: initial tile exponents {nz.tolist()} not in (1, 2)")
    if int(S0["step_count"]) != 0 or float(S0["score"]) != 0.0:
        out.append("initial_counters: step_count or score not zero at reset")
    return out


def check_obs(P, S, O):
    out = []
    P.hit("obs_copies")
    if not np.array_equal(O["board"], S["board"]):
        out.append("obs_board: observation board != state board")
    if not np.array_equal(O["action_mask"], S["action_mask"]):
        out.append("obs_action_mask: observation mask != state mask")
    return out


# ------------------------------------------------------------------------------------------- synthetic (C09)

def synthetic(P, rng, tier):
    """All rows of length 2..5 (quick: 2..4) over exponents 0..6 through move_left_row / can_move_left_row,
    and random boards through move / can_move and the named direction functions."""
    import jax
    import jax.numpy as jnp
    from jumanji.environments.logic.game_2048 import utils as gu

    out = []
    maxlen = 4 if tier == "quick" else 5
    total = 0
    mv = jax.jit(jax.vmap(gu.move_left_row))
    cm = jax.jit(jax.vmap(gu.can_move_left_row))
    for L in range(2, maxlen + 1):
        rows = np.array(list(itertools.product(range(7), repeat=L)), dtype=np.int32)
        new, rew = mv(jnp.asarray(rows))
        can = np.asarray(cm(jnp.asarray(rows)))
        new, rew = np.asarray(new), np.asarray(rew)
        bad_row = bad_rew = bad_can = 0
        first = None
        for i, row in enumerate(rows):
            e, r, _ = ref_row(row.tolist())
            ok1 = new[i].tolist() == e
            ok2 = abs(float(rew[i]) - r) <= 1e-6
            ok3 = bool(can[i]) == (e != row.tolist())
            bad_row += not ok1
            bad_rew += not ok2
            bad_can += not ok3
            if first is None and not (ok1 and ok2 and ok3):
                first = (row.tolist(), new[i].tolist(), float(rew[i]), bool(can[i]), e, r)
        total += len(rows)
        P.hit("synthetic_rows", len(rows))
        if bad_row:
            out.append(f"rows_move_left_row: {bad_row} of {len(rows)} rows of length {L} slide differently from the reference; first {first}")
        if bad_rew:
            out.append(f"rows_move_left_reward: {bad_rew} of {len(rows)} rows of length {L} give another reward; first {first}")
        if bad_can:
            out.append(f"rows_can_move_left_row: {bad_can} of {len(rows)} rows of length {L}: can_move_left_row != (slide changes the row); first {first}")
    # late-game rows: exponents up to 17 (tile 131072, the largest a 4x4 board can hold), many equal neighbours
    for L in (3, 4, 6):
        nbig = 1500 if tier == "quick" else 12000
        rows = rng.integers(0, 18, size=(nbig, L)).astype(np.int32)
        dup = rng.random((nbig, L - 1)) < 0.45
        for j in range(L - 1):
            rows[:, j + 1] = np.where(dup[:, j], rows[:, j], rows[:, j + 1])
        rows[rng.random((nbig, L)) < 0.15] = 0
        new, rew = mv(jnp.asarray(rows))
        can = np.asarray(cm(jnp.asarray(rows)))
        new, rew = np.asarray(new), np.asarray(rew)
        bad, first = 0, None
        for i, row in enumerate(rows):
            e, r, _ = ref_row(row.tolist())
            ok = new[i].tolist() == e and abs(float(rew[i]) - r) <= 1e-6 * max(1.0, r) and bool(can[i]) == (e != row.tolist())
            bad += not ok
            if first is None and not ok:
                first = (row.tolist(), new[i].tolist(), float(rew[i]), bool(can[i]), e, r)
        P.hit("synthetic_big_rows", len(rows))
        if bad:
            out.append(f"rows_big_exponents: {bad} of {len(rows)} random rows of length {L} over exponents 0..17 differ from the reference (row, reward or can_move); first {first}")
    P.rep.exhaustive["C09:Game2048:rows"] = {"lengths": [2, maxlen], "exponents": [0, 6], "rows": total, "functions": ["move_left_row", "can_move_left_row"]}

    nb = 60 if tier == "quick" else 400
    named_move = [gu.move_up, gu.move_right, gu.move_down, gu.move_left]
    named_can = [gu.can_move_up, gu.can_move_right, gu.can_move_down, gu.can_move_left]
    for n in (2, 3, 4, 5):
        hi = rng.integers(2, 5, size=(nb, 1, 1))
        boards = (rng.integers(0, 5, size=(nb, n, n)) % (hi + 1)).astype(np.int32)  # few distinct values: many merges
        boards[0] = 0
        boards[1] = 1
        jb = jnp.asarray(boards)
        gen_move = jax.jit(jax.vmap(gu.move, in_axes=(0, None)))
        gen_can = jax.jit(jax.vmap(gu.can_move, in_axes=(0, None)))
        for a in range(4):
            nbd, rw = gen_move(jb, jnp.asarray(a, jnp.int32))
            cn = gen_can(jb, jnp.asarray(a, jnp.int32))
            nbd2, rw2 = jax.jit(jax.vmap(named_move[a]))(jb)
            cn2 = jax.jit(jax.vmap(named_can[a]))(jb)
            nbd, rw, cn, nbd2, rw2, cn2 = (np.asarray(x) for x in (nbd, rw, cn, nbd2, rw2, cn2))
            for i in range(nb):
                e, r, _, _ = ref_slide(boards[i], a)
                changes = not np.array_equal(e, boards[i])
                P.hit("synthetic_boards")
                if not np.array_equal(nbd[i], e) or abs(float(rw[i]) - r) > 1e-6:
                    out.append(f"boards_move: move(board, {a}) on {boards[i].tolist()} gave {nbd[i].tolist()} reward {float(rw[i])}, reference {e.tolist()} reward {r}")
                if bool(cn[i]) != changes:
                    out.append(f"boards_can_move: can_move(board, {a}) on {boards[i].tolist()} = {bool(cn[i])}, reference {changes}")
                if not np.array_equal(nbd2[i], e) or abs(float(rw2[i]) - r) > 1e-6:
                    out.append(f"boards_named_move: {named_move[a].__name__} on {boards[i].tolist()} gave {nbd2[i].tolist()}, reference {e.tolist()}")
                if bool(cn2[i]) != changes:
                    out.append(f"boards_named_can_move: {named_can[a].__name__} on {boards[i].tolist()} = {bool(cn2[i])}, reference {changes}")
                if len(out) > 12:
                    return out
    return out


# ------------------------------------------------------------------------------------------- policies

def _pol_complete(ctx):
    """Drive to the end of the game quickly: among the legal moves prefer the one that merges least and leaves the
    fewest merge opportunities / legal moves (the opposite of good play), so that 'no legal move' is reached within
    the step cap."""
    b = np.asarray(ctx["state"].board)
    best, best_key = None, None
    for a in range(4):
        slid, rw, merges, _ = ref_slide(b, a)
        if np.array_equal(slid, b):
            continue
        future = sum(ref_slide(slid, k)[2] for k in range(4))
        key = (merges, future, int(_legal_board(slid).sum()), ctx["rng"].random())
        if best_key is None or key < best_key:
            best, best_key = a, key
    if best is None:
        best = 0
        ctx["legal_only"] = False
    return np.asarray(best, np.int32)


def policies(P):
    return {"complete": _pol_complete}
