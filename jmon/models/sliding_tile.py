"""SlidingTilePuzzle — independent NumPy statement of the rules (DESIGN §4; docs/environments/sliding_tile_puzzle.md).

n x n board holding 0 (blank) and tiles 1..n*n-1; goal = 1..n*n-1 in reading order with the blank last.
Actions 0..3 move the blank up, right, down, left. Legal iff the blank stays inside the board; an illegal move
leaves the board unchanged and the episode continues. Dense reward = change in the number of cells equal to the
goal; sparse reward = 1 iff the puzzle is solved after the move. Ends: solved, or step_count reaches time_limit.
"""
from __future__ import annotations

from collections import deque

import numpy as np

MOVES = [(-1, 0), (0, 1), (1, 0), (0, -1)]


def params(cfg):
    return {
        "n": cfg.get("grid_size", 5), "moves": cfg.get("moves", 200),
        "reward": cfg.get("reward", "dense"), "time_limit": cfg.get("time_limit", 500),
    }


def RANDOM_GENERATOR(cfg):
    return cfg.get("moves", 200) > 0


def time_limit(P):
    return P.params["time_limit"]


def _goal(n):
    g = np.arange(1, n * n + 1).reshape(n, n)
    g[n - 1, n - 1] = 0
    return g


def _solved(puzzle):
    puzzle = np.asarray(puzzle)
    return bool(np.array_equal(puzzle, _goal(puzzle.shape[0])))


def _correct(puzzle):
    puzzle = np.asarray(puzzle)
    return int((puzzle == _goal(puzzle.shape[0])).sum())


def _blank(S):
    e = np.asarray(S["empty_tile_position"])
    return int(e[0]), int(e[1])


def _inside(n, r, c):
    return 0 <= r < n and 0 <= c < n


def legal(P, S, O):
    n = np.asarray(S["puzzle"]).shape[0]
    r, c = _blank(S)
    return np.array([_inside(n, r + dr, c + dc) for dr, dc in MOVES])


def reaction(P, S, a, S2, ev, agent):
    # accepted = the blank moved; ignored = blank and board exactly as before
    moved = _blank(S) != _blank(S2) or not np.array_equal(S["puzzle"], S2["puzzle"])
    return "accepted" if moved else "invalid"


def other_end_reason(P, S_prev, a, S, ev):
    return _solved(S["puzzle"])


def illegal_effect(P, S, a, S2, ev, agent):
    out = []
    P.hit("illegal_move_ignored")
    if not np.array_equal(S["puzzle"], S2["puzzle"]):
        out.append("illegal_board_unchanged: puzzle changed after a move that leaves the board")
    if _blank(S) != _blank(S2):
        out.append(f"illegal_blank_unchanged: blank moved {_blank(S)} -> {_blank(S2)} on an illegal move")
    # LAST is allowed only for reasons independent of the move: time limit, or a board that was already solved
    if ev.last and not (int(S["step_count"]) + 1 >= P.params["time_limit"] or _solved(S["puzzle"])):
        out.append("illegal_episode_continues: an illegal move ended the episode")
    return out


def check_step(P, S, a, S2, reward, last, ev):
    out = []
    p = P.params
    a = int(a)
    puzzle = np.asarray(S["puzzle"]).astype(np.int64)
    n = puzzle.shape[0]
    r, c = _blank(S)
    nr, nc = r + MOVES[a][0], c + MOVES[a][1]
    exp = puzzle.copy()
    if _inside(n, nr, nc):
        P.hit("ref_legal_move")
        exp[r, c] = puzzle[nr, nc]
        exp[nr, nc] = 0
        eb = (nr, nc)
    else:
        P.hit("ref_illegal_move")
        eb = (r, c)
    if not np.array_equal(S2["puzzle"], exp):
        out.append(f"ref_puzzle: successor puzzle differs from the reference move (blank {(r, c)}, action {a})")
    if _blank(S2) != eb:
        out.append(f"ref_blank: empty_tile_position {_blank(S2)} != expected {eb}")
    if int(S2["step_count"]) != int(S["step_count"]) + 1:
        out.append("step_count_increments: step_count did not increase by one")
    solved = _solved(exp)
    if p["reward"] == "sparse":
        er = float(solved)
    else:
        er = float(_correct(exp) - _correct(puzzle))
        if er != 0:
            P.hit("ref_dense_nonzero")
    if float(reward) != er:
        out.append(f"ref_reward: reward {float(reward)} != {er} ({p['reward']})")
    if solved:
        P.hit("ref_solved")
    at_limit = int(S["step_count"]) + 1 >= p["time_limit"]
    if at_limit:
        P.hit("ref_time_limit")
    if bool(last) != (solved or at_limit):
        out.append(f"ref_last: last={bool(last)} but solved={solved}, time limit reached={at_limit}")
    return out


def objective(P, trace):
    """dense: correctly placed cells at the end minus at reset; sparse: 1 iff the puzzle is solved at the end."""
    first, final = trace[0].S["puzzle"], trace[-1].S["puzzle"]
    if P.params["reward"] == "sparse":
        P.hit("objective_sparse_solved" if _solved(final) else "objective_sparse_unsolved")
        return float(_solved(final))
    P.hit("objective_dense_delta")
    return float(_correct(final) - _correct(first))


def dense_sparse(P, trace, ret, ret_twin, twin_ended_at=None):
    """Relation between the two documented reward functions on the same legal trajectory (C08). They are
    different objectives: the sparse return is 1 iff the final puzzle is solved (else 0), the dense return is the
    change in correctly placed cells. `ret` belongs to this configuration's reward, `ret_twin` to the other one.
    (Hook offered to the shared C08 machinery, which otherwise compares the two returns for equality.)"""
    out = []
    n = len(trace) - 1
    if twin_ended_at is not None and twin_ended_at != n:
        out.append(f"dense_sparse_same_length: twin reward function ended at {twin_ended_at}, original at {n}")
    first, final = trace[0].S["puzzle"], trace[-1].S["puzzle"]
    dense, sparse = (ret_twin, ret) if P.params["reward"] == "sparse" else (ret, ret_twin)
    P.hit("dense_sparse_related")
    if float(sparse) != float(_solved(final)):
        out.append(f"sparse_return_is_solved: sparse return {sparse} but final puzzle solved = {_solved(final)}")
    if float(dense) != float(_correct(final) - _correct(first)):
        out.append(f"dense_return_is_delta: dense return {dense} != {_correct(final) - _correct(first)}")
    return out


def _perm_parity(seq):
    seq = list(seq)
    seen = [False] * len(seq)
    parity = 0
    for i in range(len(seq)):
        if seen[i]:
            continue
        j, ln = i, 0
        while not seen[j]:
            seen[j] = True
            j = seq[j]
            ln += 1
        parity ^= (ln - 1) & 1
    return parity


def solvable(puzzle):
    """Exact reachability test: every move is a transposition (tile <-> blank) and moves the blank by one cell,
    so a position is reachable from the goal iff the parity of the permutation (blank included, relative to the
    goal) equals the parity of the blank's Manhattan distance from its home corner."""
    puzzle = np.asarray(puzzle)
    n = puzzle.shape[0]
    goal = _goal(n).ravel().tolist()
    where = {v: i for i, v in enumerate(goal)}
    perm = [where[int(v)] for v in puzzle.ravel()]
    br, bc = np.argwhere(puzzle == 0)[0]
    dist = (n - 1 - int(br)) + (n - 1 - int(bc))
    return _perm_parity(perm) == (dist & 1)


def instance(P, S0, ev):
    out = []
    p = P.params
    n, k = p["n"], p["moves"]
    puzzle = np.asarray(S0["puzzle"])
    P.hit("puzzle_instance")
    if puzzle.shape != (n, n):
        return [f"puzzle_shape: {puzzle.shape} != {(n, n)}"]
    if sorted(puzzle.ravel().tolist()) != list(range(n * n)):
        return [f"puzzle_is_permutation: values {sorted(puzzle.ravel().tolist())[:8]}... are not 0..{n * n - 1} once each"]
    br, bc = (int(x) for x in np.argwhere(puzzle == 0)[0])
    if _blank(S0) != (br, bc):
        out.append(f"blank_position_consistent: empty_tile_position {_blank(S0)} but the 0 is at {(br, bc)}")
    if not solvable(puzzle):
        out.append(f"puzzle_solvable: parity test fails, the position cannot be reached from the goal: {puzzle.tolist()}")
    # advertised construction: exactly `moves` valid random moves from the solved board
    dist = (n - 1 - br) + (n - 1 - bc)
    if dist > k or (k - dist) % 2:
        out.append(f"random_walk_length: blank is {dist} cells from home after {k} random moves")
    misplaced = int(((puzzle != _goal(n)) & (puzzle != 0)).sum())
    if misplaced > k:
        out.append(f"random_walk_length: {misplaced} tiles displaced by only {k} moves")
    if k == 0:
        P.hit("zero_moves_is_goal")
    if int(S0["step_count"]) != 0:
        out.append("initial_step_count: step_count != 0 at reset")
    return out


def check_obs(P, S, O):
    out = []
    P.hit("obs_copies")
    if not np.array_equal(O["puzzle"], S["puzzle"]):
        out.append("obs_puzzle: observation puzzle != state puzzle")
    if not np.array_equal(O["empty_tile_position"], S["empty_tile_position"]):
        out.append("obs_empty_tile_position: observation != state")
    if int(O["step_count"]) != int(S["step_count"]):
        out.append(f"obs_step_count: observation {int(O['step_count'])} != state {int(S['step_count'])}")
    # the state carries no mask: the observed mask must be the one of the *current* blank position
    if not np.array_equal(np.asarray(O["action_mask"]).astype(bool), legal(P, S, O)):
        out.append("obs_action_mask: observation mask is not the mask of the state's blank position")
    return out


# ------------------------------------------------------------------------------------------- policies

_dist_tables = {}


def _bfs_table(n):
    """distance-to-goal of every reachable position (n <= 3)."""
    if n not in _dist_tables:
        goal = tuple(_goal(n).ravel().tolist())
        dist = {goal: 0}
        dq = deque([goal])
        while dq:
            s = dq.popleft()
            z = s.index(0)
            r, c = divmod(z, n)
            for dr, dc in MOVES:
                rr, cc = r + dr, c + dc
                if _inside(n, rr, cc):
                    t = list(s)
                    t[z], t[rr * n + cc] = t[rr * n + cc], 0
                    t = tuple(t)
                    if t not in dist:
                        dist[t] = dist[s] + 1
                        dq.append(t)
        _dist_tables[n] = dist
    return _dist_tables[n]


def _manhattan(t, n):
    return sum(abs((v - 1) // n - i // n) + abs((v - 1) % n - i % n) for i, v in enumerate(t) if v)


def _ida(start, n, node_cap=150000):
    """IDA* with the Manhattan heuristic; returns a list of actions or None."""
    nodes = [0]
    path = []

    def rec(s, z, g, bound, last):
        h = _manhattan(s, n)
        if g + h > bound:
            return g + h
        if h == 0:
            return True
        nodes[0] += 1
        if nodes[0] > node_cap:
            raise TimeoutError
        best = 10 ** 9
        r, c = divmod(z, n)
        for a, (dr, dc) in enumerate(MOVES):
            if last is not None and a == (last + 2) % 4:
                continue
            rr, cc = r + dr, c + dc
            if not _inside(n, rr, cc):
                continue
            t = list(s)
            t[z], t[rr * n + cc] = t[rr * n + cc], 0
            path.append(a)
            res = rec(tuple(t), rr * n + cc, g + 1, bound, a)
            if res is True:
                return True
            path.pop()
            best = min(best, res)
        return best

    bound = _manhattan(start, n)
    try:
        while bound < 80:
            res = rec(start, start.index(0), 0, bound, None)
            if res is True:
                return list(path)
            bound = res
    except TimeoutError:
        return None
    return None


def _pol_complete(ctx):
    """Solve: BFS distance table on 2x2 / 3x3, IDA* (bounded) on larger boards; masked-random when that fails."""
    puzzle = np.asarray(ctx["state"].puzzle)
    n = puzzle.shape[0]
    s = tuple(int(v) for v in puzzle.ravel())
    z = s.index(0)
    r, c = divmod(z, n)
    if n <= 3:
        dist = _bfs_table(n)
        best = None
        for a, (dr, dc) in enumerate(MOVES):
            rr, cc = r + dr, c + dc
            if _inside(n, rr, cc):
                t = list(s)
                t[z], t[rr * n + cc] = t[rr * n + cc], 0
                d = dist.get(tuple(t))
                if d is not None and (best is None or d < best[0]):
                    best = (d, a)
        if best is not None:
            return np.asarray(best[1], np.int32)
    else:
        plan = ctx.get("stp_plan")
        if plan is None:
            plan = _ida(s, n) or []
            ctx["stp_plan"] = plan
            ctx["stp_i"] = 0
        i = ctx.get("stp_i", 0)
        if i < len(plan):
            ctx["stp_i"] = i + 1
            return np.asarray(plan[i], np.int32)
    ok = [a for a, (dr, dc) in enumerate(MOVES) if _inside(n, r + dr, c + dc)]
    return np.asarray(ok[ctx["rng"].integers(len(ok))], np.int32)


def policies(P):
    return {"complete": _pol_complete}
