"""RobotWarehouse — independent NumPy statement of the rules (DESIGN §4; docs/environments/robot_warehouse.md,
class docstring of the environment and of its generator).

Floor: H = (column_height + 1) * shelf_rows + 2 rows, W = 3 * shelf_columns + 1 columns. Row blocks of
`column_height` shelf rows are separated by horizontal highway rows, the last two rows (queueing row and
delivery row) are highway, every third column is a vertical highway, and the middle cluster of the last shelf
row is removed (highway) so that agents can queue in front of the two goal cells in the middle of the last
row. Every non-highway cell starts with exactly one shelf. Positions are (x = row, y = column); directions
0..3 = up, right, down, left; actions 0..4 = no-op, forward, turn left, turn right, toggle load.

Rules: the only illegal action is *forward while carrying a shelf into an in-grid cell that holds another
shelf*; it is replaced by a no-op and a no-op changes nothing. Forward against the outer wall is a legal
move whose effect is to stay. Toggle picks up the shelf under the agent or (when carrying) puts it down on a
non-highway cell; on a highway cell the agent keeps its load. Agents act one after the other in id order; an
agent entering a cell occupied by another agent (at that moment) is a collision and ends the episode. A
requested shelf on a goal cell is delivered: reward +1, it is replaced in the request queue by a shelf that
was not requested.
"""
from __future__ import annotations

from collections import deque

import numpy as np

NOOP, FORWARD, LEFT, RIGHT, TOGGLE = 0, 1, 2, 3, 4
DX = [-1, 0, 1, 0]
DY = [0, 1, 0, -1]
SHELF_LAYER, AGENT_LAYER = 0, 1


def params(cfg):
    p = {
        "shelf_rows": cfg.get("shelf_rows", 2), "shelf_cols": cfg.get("shelf_cols", 3), "height": cfg.get("height", 8),
        "agents": cfg.get("agents", 4), "sensor": cfg.get("sensor", 1), "queue": cfg.get("queue", 8),
        "time_limit": cfg.get("time_limit", 500),
    }
    p["H"] = (p["height"] + 1) * p["shelf_rows"] + 2
    p["W"] = 3 * p["shelf_cols"] + 1
    return p


def RANDOM_GENERATOR(cfg):
    return True


def time_limit(P):
    return P.params["time_limit"]


def highways(p):
    """Boolean (H, W) array of highway cells, from the layout rules of the documentation."""
    H, W, h = p["H"], p["W"], p["height"]
    hw = np.zeros((H, W), bool)
    for x in range(H):
        for y in range(W):
            if y % 3 == 0:  # vertical corridors left of / between / right of the two-cell-wide clusters
                hw[x, y] = True
            elif x % (h + 1) == 0:  # horizontal corridor above every shelf row block (and the queueing row H-2)
                hw[x, y] = True
            elif x == H - 1:  # delivery row
                hw[x, y] = True
            elif x >= H - 2 - h and y in (W // 2 - 1, W // 2):  # removed middle cluster of the last block
                hw[x, y] = True
    return hw


def goals(p):
    return [(p["H"] - 1, p["W"] // 2 - 1), (p["H"] - 1, p["W"] // 2)]


# ------------------------------------------------------------------------------------------ helpers

def _agents(S):
    return (np.asarray(S["agents.position.x"]).astype(int), np.asarray(S["agents.position.y"]).astype(int),
            np.asarray(S["agents.direction"]).astype(int), np.asarray(S["agents.is_carrying"]).astype(int))


def _shelves(S):
    return (np.asarray(S["shelves.position.x"]).astype(int), np.asarray(S["shelves.position.y"]).astype(int),
            np.asarray(S["shelves.is_requested"]))


def _shelf_map(S, H, W):
    """(H, W) int array: 1 + id of a shelf standing on the cell (from the shelf table), 0 if none."""
    sx, sy, _ = _shelves(S)
    m = np.zeros((H, W), int)
    for k in range(len(sx)):
        if 0 <= sx[k] < H and 0 <= sy[k] < W:
            m[sx[k], sy[k]] = k + 1
    return m


def _forward_cell(x, y, d, H, W):
    """Cell in front of (x, y, d) or None when it lies outside the floor."""
    nx, ny = x + DX[d], y + DY[d]
    return (nx, ny) if (0 <= nx < H and 0 <= ny < W) else None


def _legal_agent(S, i, smap, H, W):
    ax, ay, ad, ac = _agents(S)
    row = np.ones(5, bool)
    if ac[i]:
        t = _forward_cell(ax[i], ay[i], ad[i] % 4, H, W)
        if t is not None and smap[t] > 0:
            row[FORWARD] = False
    return row


def legal(P, S, O):
    H, W = P.params["H"], P.params["W"]
    smap = _shelf_map(S, H, W)
    n = len(S["agents.direction"])
    L = np.stack([_legal_agent(S, i, smap, H, W) for i in range(n)])
    if not L.all():
        P.hit("rw_forward_with_load_into_shelf_masked")
    return L


def _effective_actions(P, S, a):
    """Joint action with the illegal components replaced by no-ops (rule sheet)."""
    H, W = P.params["H"], P.params["W"]
    smap = _shelf_map(S, H, W)
    a = np.asarray(a).astype(int).copy()
    for i in range(len(a)):
        if not (0 <= a[i] <= 4) or not _legal_agent(S, i, smap, H, W)[a[i]]:
            a[i] = NOOP
    return a


def _collision(P, S, a):
    """Agents act in id order; does some agent enter a cell that another agent occupies at that moment?"""
    H, W = P.params["H"], P.params["W"]
    ax, ay, ad, _ = _agents(S)
    pos = [(int(ax[i]), int(ay[i])) for i in range(len(ax))]
    eff = _effective_actions(P, S, a)
    for i in range(len(pos)):
        if eff[i] == FORWARD:
            t = _forward_cell(pos[i][0], pos[i][1], ad[i] % 4, H, W)
            if t is None:
                continue
            if any(pos[j] == t for j in range(len(pos)) if j != i):
                return True
            pos[i] = t
    return len(set(pos)) < len(pos)


def reaction(P, S, a, S2, ev, agent):
    """accepted = the documented effect of the chosen action is visible on the agent; invalid = the agent is
    exactly as before although the action should have changed it; None = the action has no visible effect."""
    H, W = P.params["H"], P.params["W"]
    i = int(agent)
    act = int(np.asarray(a)[i])
    ax, ay, ad, ac = _agents(S)
    bx, by, bd, bc = _agents(S2)
    if act == NOOP:
        return None
    if act == FORWARD:
        t = _forward_cell(ax[i], ay[i], ad[i] % 4, H, W)
        if t is None:
            return None  # against the wall: staying is the legal outcome
        if (bx[i], by[i]) == t:
            return "accepted"
        return "invalid" if (bx[i], by[i]) == (ax[i], ay[i]) else "accepted"
    if act in (LEFT, RIGHT):
        want = (ad[i] + (1 if act == RIGHT else -1)) % 4
        return "accepted" if bd[i] == want else ("invalid" if bd[i] == ad[i] else "accepted")
    # toggle
    smap = _shelf_map(S, H, W)
    if ac[i]:
        if highways(P.params)[ax[i], ay[i]]:
            return None  # cannot unload on a highway: nothing visible either way
        return "accepted" if not bc[i] else "invalid"
    if smap[ax[i], ay[i]] > 0:
        return "accepted" if bc[i] else "invalid"
    return None


# ------------------------------------------------------------------------------------------ C05

def illegal_effect(P, S, a, S2, ev, agent):
    """Forward with a load into a shelf cell: ignored — position, direction, load and the shelves stay."""
    out = []
    H, W = P.params["H"], P.params["W"]
    i = int(agent)
    ax, ay, ad, ac = _agents(S)
    bx, by, bd, bc = _agents(S2)
    P.hit("rw_illegal_forward_with_load_into_shelf")
    if (bx[i], by[i]) != (ax[i], ay[i]):
        out.append(f"rw_illegal_position_unchanged: agent {i} moved from {(ax[i], ay[i])} to {(bx[i], by[i])}")
    if bd[i] != ad[i]:
        out.append(f"rw_illegal_direction_unchanged: agent {i} direction {ad[i]} -> {bd[i]}")
    if bool(bc[i]) != bool(ac[i]):
        out.append(f"rw_illegal_load_unchanged: agent {i} is_carrying {ac[i]} -> {bc[i]} (the shelf was dropped / changed)")
    sx, sy, _ = _shelves(S)
    tx, ty, _ = _shelves(S2)
    smap = _shelf_map(S, H, W)
    own = smap[ax[i], ay[i]] - 1
    t = _forward_cell(ax[i], ay[i], ad[i] % 4, H, W)
    other = smap[t] - 1 if t is not None else -1
    # a blocking shelf that is itself carried by another agent may be moved - by its carrier, on that agent's own legal move;
    # that is not an effect of the ignored action (seen once the probes let the partners act while one agent deviates)
    carried_by_other = t is not None and any(j != i and bool(ac[j]) and (ax[j], ay[j]) == tuple(t) for j in range(len(ax)))
    if carried_by_other:
        P.hit("rw_blocking_shelf_carried_by_another_agent")
    for k, what in ((own, "carried"), (other, "blocking")):
        if what == "blocking" and carried_by_other:
            continue
        if k >= 0 and (sx[k], sy[k]) != (tx[k], ty[k]):
            out.append(f"rw_illegal_shelves_unchanged: the {what} shelf {k} moved from {(sx[k], sy[k])} to {(tx[k], ty[k])}")
    eff = _effective_actions(P, S, a)
    if not np.any(eff == FORWARD):
        # nobody moves: the whole shelf table and both grid layers must be as before
        P.hit("rw_illegal_whole_floor_unchanged")
        if not (np.array_equal(sx, tx) and np.array_equal(sy, ty)):
            out.append("rw_illegal_shelves_unchanged: shelf positions changed although no agent moved")
        if not np.array_equal(S["grid"], S2["grid"]):
            out.append("rw_illegal_grid_unchanged: the floor grid changed although no agent moved")
    if ev.last and int(S2["step_count"]) < P.params["time_limit"] and not _collision(P, S, a):
        out.append("rw_illegal_continues: the episode ended on an ignored move (no time limit, no collision)")
    return out


# ------------------------------------------------------------------------------------------ C07

def physical(P, S_prev, a, S):
    out = []
    p = P.params
    H, W = p["H"], p["W"]
    g = np.asarray(S["grid"])
    P.hit("rw_floor_consistent")
    if g.shape != (2, H, W):
        return [f"rw_grid_shape: grid shape {g.shape} != {(2, H, W)}"]
    ax, ay, ad, ac = _agents(S)
    sx, sy, req = _shelves(S)
    n, ns = len(ax), len(sx)
    hw = highways(p)
    inside = [(0 <= ax[i] < H and 0 <= ay[i] < W) for i in range(n)]
    if not all(inside):
        return [f"rw_agents_in_grid: agent(s) {[i for i in range(n) if not inside[i]]} outside the {H}x{W} floor"]
    cells = [(int(ax[i]), int(ay[i])) for i in range(n)]
    if len(set(cells)) < n:
        out.append(f"rw_agents_distinct_cells: two agents share a cell {cells}")
    exp_a = np.zeros((H, W), int)
    for i, c in enumerate(cells):
        exp_a[c] = i + 1
    if len(set(cells)) == n and not np.array_equal(g[AGENT_LAYER], exp_a):
        out.append("rw_agent_layer_matches_positions: grid agent layer differs from agents.position")
    if np.any((ad < 0) | (ad > 3)) or np.any((ac != 0) & (ac != 1)):
        out.append("rw_agent_fields_in_range: direction outside 0..3 or is_carrying outside {0, 1}")
    # shelves: ids form a permutation, table <-> grid layer
    ids = sorted(g[SHELF_LAYER][g[SHELF_LAYER] > 0].tolist())
    if ids != list(range(1, ns + 1)):
        missing = sorted(set(range(1, ns + 1)) - set(ids))
        out.append(f"rw_shelf_ids_permutation: shelf layer holds {len(ids)} ids, missing {missing[:5]} of 1..{ns}")
    s_in = (sx >= 0) & (sx < H) & (sy >= 0) & (sy < W)
    if not s_in.all():
        out.append(f"rw_shelves_in_grid: shelf(s) {np.flatnonzero(~s_in).tolist()[:5]} outside the floor")
    else:
        bad = [k for k in range(ns) if g[SHELF_LAYER, sx[k], sy[k]] != k + 1]
        if bad:
            out.append(f"rw_shelf_layer_matches_positions: shelves {bad[:5]} are not at their table position in the grid")
    # request queue
    q = np.asarray(S["request_queue"]).astype(int)
    if len(set(q.tolist())) != len(q):
        out.append(f"rw_queue_distinct: request queue {q.tolist()} repeats an id")
    if np.any((q < 0) | (q >= ns)):
        out.append(f"rw_queue_ids_in_range: request queue {q.tolist()} holds an id outside 0..{ns - 1}")
    if not np.isin(req, (0, 1)).all() or sorted(np.flatnonzero(req != 0).tolist()) != sorted(set(q.tolist())):
        out.append(f"rw_queue_matches_requested: requested shelves {np.flatnonzero(req != 0).tolist()} != queue {sorted(q.tolist())}")
    # loads
    smap = _shelf_map(S, H, W)
    for i in range(n):
        if ac[i] and smap[cells[i]] == 0:
            out.append(f"rw_load_under_agent: agent {i} is carrying but no shelf is at its cell {cells[i]}")
    if s_in.all():
        carried_cells = {cells[i] for i in range(n) if ac[i]}
        loose = [k for k in range(ns) if hw[sx[k], sy[k]] and (int(sx[k]), int(sy[k])) not in carried_cells]
        if loose:
            out.append(f"rw_loose_shelf_off_highway: shelf {loose[0]} stands on highway cell {(int(sx[loose[0]]), int(sy[loose[0]]))} without a carrier")
    if S_prev is None:
        return out
    # conservation across the step
    px, py, pd, pc = _agents(S_prev)
    qx, qy, _ = _shelves(S_prev)
    pmap = _shelf_map(S_prev, H, W)
    for i in range(n):
        if pc[i] and ac[i]:
            P.hit("rw_carried_shelf_moves_with_agent")
            if pmap[px[i], py[i]] != smap[cells[i]]:
                out.append(f"rw_carried_shelf_moves_with_agent: agent {i} carried shelf {pmap[px[i], py[i]] - 1}, now stands on shelf {smap[cells[i]] - 1}")
    moved = [k for k in range(ns) if (qx[k], qy[k]) != (sx[k], sy[k])]
    for k in moved:
        P.hit("rw_shelves_move_only_when_carried")
        ok = any(pc[i] and (px[i], py[i]) == (qx[k], qy[k]) and cells[i] == (int(sx[k]), int(sy[k])) for i in range(n))
        if not ok:
            out.append(f"rw_shelves_move_only_when_carried: shelf {k} moved {(qx[k], qy[k])} -> {(sx[k], sy[k])} without a carrying agent making that move")
    # the request queue only changes by a delivery: the replaced id is a shelf standing on a goal cell, the new id was
    # not requested before
    q0 = np.asarray(S_prev["request_queue"]).astype(int)
    if len(q0) == len(q) and s_in.all():
        for k in np.flatnonzero(q0 != q):
            P.hit("rw_delivery_replaces_request")
            o, nw = int(q0[k]), int(q[k])
            if not (0 <= o < ns) or (int(sx[o]), int(sy[o])) not in goals(p):
                out.append(f"rw_delivery_replaces_request: request {o} left the queue although shelf {o} is not on a goal cell")
            if nw in q0.tolist():
                out.append(f"rw_delivery_new_request_fresh: new request {nw} was already in the queue {q0.tolist()}")
    if a is not None:
        eff = _effective_actions(P, S_prev, a)
        for i in range(n):
            if eff[i] == NOOP:
                P.hit("rw_noop_changes_nothing")
                if (px[i], py[i], pd[i], pc[i]) != (ax[i], ay[i], ad[i], ac[i]):
                    out.append(f"rw_noop_changes_nothing: agent {i} (action {int(np.asarray(a)[i])}, effective no-op) changed from {(px[i], py[i], pd[i], pc[i])} to {(ax[i], ay[i], ad[i], ac[i])}")
    return out


# ------------------------------------------------------------------------------------------ C10

def instance(P, S0, ev):
    p = P.params
    H, W = p["H"], p["W"]
    out = list(physical(P, None, None, S0))
    P.hit("rw_instance")
    sx, sy, req = _shelves(S0)
    hw = highways(p)
    want = {(int(x), int(y)) for x, y in np.argwhere(~hw)}
    have = [(int(sx[k]), int(sy[k])) for k in range(len(sx))]
    if len(have) != len(want) or set(have) != want:
        out.append(f"rw_shelves_on_non_highway_cells: {len(have)} shelves on {len(set(have))} cells, the layout has {len(want)} shelf cells; off-layout {sorted(set(have) - want)[:4]}, empty {sorted(want - set(have))[:4]}")
    q = np.asarray(S0["request_queue"])
    if len(q) != p["queue"]:
        out.append(f"rw_queue_size: request queue of length {len(q)} != {p['queue']}")
    _, _, _, ac = _agents(S0)
    if ac.any() or int(S0["step_count"]) != 0:
        out.append("rw_initial_counters: an agent starts loaded or step_count != 0")
    if len(ac) != p["agents"]:
        out.append(f"rw_num_agents: {len(ac)} agents != {p['agents']}")
    return out


# ------------------------------------------------------------------------------------------ C11

def other_end_reason(P, S_prev, a, S, ev):
    return _collision(P, S_prev, a)


# ------------------------------------------------------------------------------------------ C12

def _expected_view(p, hw, ax, ay, ad, ac, amap, smap, req, i):
    H, W, r = p["H"], p["W"], p["sensor"]
    v = [int(ax[i]), int(ay[i]), int(ac[i])] + [int(ad[i] == d) for d in range(4)] + [int(hw[ax[i], ay[i]])]
    window = [(ax[i] + dx, ay[i] + dy) for dx in range(-r, r + 1) for dy in range(-r, r + 1)]
    for (x, y) in window:
        if (x, y) == (ax[i], ay[i]):
            continue  # the agent's own cell has no neighbour block
        j = amap[x, y] - 1 if (0 <= x < H and 0 <= y < W) else -1
        v += [0] * 5 if j < 0 else [1] + [int(ad[j] == d) for d in range(4)]
    for (x, y) in window:
        k = smap[x, y] - 1 if (0 <= x < H and 0 <= y < W) else -1
        v += [0, 0] if k < 0 else [1, int(req[k] != 0)]
    return v


def check_obs(P, S, O):
    out = []
    p = P.params
    H, W = p["H"], p["W"]
    if int(O["step_count"]) != int(S["step_count"]):
        out.append(f"obs_step_count: observation {int(O['step_count'])} != state {int(S['step_count'])}")
    if not np.array_equal(O["action_mask"], S["action_mask"]):
        out.append("obs_action_mask: observation mask != state mask")
    ax, ay, ad, ac = _agents(S)
    n = len(ax)
    view = np.asarray(O["agents_view"])
    nfeat = 8 + ((2 * p["sensor"] + 1) ** 2 - 1) * 5 + (2 * p["sensor"] + 1) ** 2 * 2
    if view.shape != (n, nfeat):
        return out + [f"obs_agents_view_shape: {view.shape} != {(n, nfeat)}"]
    g = np.asarray(S["grid"])
    amap = np.zeros((H, W), int)
    inside = all(0 <= ax[i] < H and 0 <= ay[i] < W for i in range(n))
    if inside:
        for i in range(n):
            amap[ax[i], ay[i]] = i + 1
    if not inside or len({(int(ax[i]), int(ay[i])) for i in range(n)}) < n or not np.array_equal(g[AGENT_LAYER], amap):
        # collision (terminal) state: the agent layer is overwritten, the sensor reading is not defined
        P.hit("rw_obs_collision_state_skipped")
        return out
    smap = _shelf_map(S, H, W)
    _, _, req = _shelves(S)
    hw = highways(p)
    P.hit("rw_sensor_vectors")
    edge = False
    for i in range(n):
        exp = _expected_view(p, hw, ax, ay, ad, ac, amap, smap, req, i)
        r = p["sensor"]
        edge = edge or ax[i] < r or ay[i] < r or ax[i] >= H - r or ay[i] >= W - r
        got = view[i].astype(int).tolist()
        if exp != got:
            d = [j for j in range(min(len(exp), len(got))) if exp[j] != got[j]]
            out.append(f"obs_sensor_vector: agent {i} at {(int(ax[i]), int(ay[i]))}: {len(d)} features differ, first index {d[:1]} (expected {exp[d[0]] if d else '?'}, observed {got[d[0]] if d else '?'})")
            break
    if edge:
        P.hit("rw_sensor_window_beyond_floor")
    if any(amap[x, y] > 0 for i in range(n) for (x, y) in [(ax[i] + dx, ay[i] + dy) for dx in (-1, 0, 1) for dy in (-1, 0, 1) if (dx, dy) != (0, 0)] if 0 <= x < H and 0 <= y < W):
        P.hit("rw_sensor_sees_other_agent")
    return out


# ------------------------------------------------------------------------------------------ policies

def _st(ctx):
    st = ctx["state"]
    return {
        "ax": np.asarray(st.agents.position.x).astype(int), "ay": np.asarray(st.agents.position.y).astype(int),
        "ad": np.asarray(st.agents.direction).astype(int), "ac": np.asarray(st.agents.is_carrying).astype(int),
        "sx": np.asarray(st.shelves.position.x).astype(int), "sy": np.asarray(st.shelves.position.y).astype(int),
        "req": np.asarray(st.shelves.is_requested) != 0,
    }


def _bfs(src, targets, blocked, H, W):
    """(distance, first step cell) of a shortest 4-connected path src -> one of `targets` avoiding `blocked`."""
    if src in targets:
        return 0, src
    prev = {src: None}
    dq = deque([(src, 0)])
    while dq:
        u, d = dq.popleft()
        for k in range(4):
            v = (u[0] + DX[k], u[1] + DY[k])
            if not (0 <= v[0] < H and 0 <= v[1] < W) or v in prev or (v in blocked and v not in targets):
                continue
            prev[v] = u
            if v in targets:
                while prev[v] != src:
                    v = prev[v]
                return d + 1, v
            dq.append((v, d + 1))
    return None, None


def _towards(x, y, d, cell):
    """Action that brings the agent at (x, y) facing d closer to the adjacent cell: turn or forward."""
    want = [k for k in range(4) if (x + DX[k], y + DY[k]) == cell][0]
    if want == d:
        return FORWARD
    return LEFT if (d - want) % 4 == 1 else RIGHT


def _shelf_cells(s):
    return {(int(s["sx"][k]), int(s["sy"][k])): k for k in range(len(s["sx"]))}


def _pol_collide(ctx):
    """The two closest agents drive at each other (head-on / one chasing a standing one) until they collide."""
    P = ctx["rw_params"]
    H, W = P["H"], P["W"]
    s = _st(ctx)
    n = len(s["ax"])
    act = np.zeros(n, np.int32)
    if n < 2:
        return act
    if "rw_pair" not in ctx:
        best = min(((abs(s["ax"][i] - s["ax"][j]) + abs(s["ay"][i] - s["ay"][j]), i, j) for i in range(n) for j in range(n) if i != j))
        ctx["rw_pair"] = (best[1], best[2])
        ctx["rw_headon"] = bool(ctx["rng"].random() < 0.5)
    i, j = ctx["rw_pair"]
    pi, pj = (int(s["ax"][i]), int(s["ay"][i])), (int(s["ax"][j]), int(s["ay"][j]))
    _, step = _bfs(pi, {pj}, set(), H, W)
    if step is not None and step != pi:
        act[i] = _towards(pi[0], pi[1], int(s["ad"][i]), step)
    if ctx["rw_headon"]:
        _, step = _bfs(pj, {pi}, set(), H, W)
        if step is not None and step != pj:
            act[j] = _towards(pj[0], pj[1], int(s["ad"][j]), step)
    return act


def _pick_agent(ctx, s, targets, H, W):
    if "rw_agent" not in ctx:
        best = None
        for i in range(len(s["ax"])):
            others = {(int(s["ax"][j]), int(s["ay"][j])) for j in range(len(s["ax"])) if j != i}
            d, _ = _bfs((int(s["ax"][i]), int(s["ay"][i])), targets, others, H, W)
            if d is not None and (best is None or d < best[0]):
                best = (d, i)
        ctx["rw_agent"] = best[1] if best is not None else 0
    return ctx["rw_agent"]


def _pol_complete(ctx):
    """One agent fetches the nearest requested shelf, carries it along shelf-free cells to a goal cell
    (delivery reward), puts it back on a free shelf cell and starts again; the others stand still."""
    P = ctx["rw_params"]
    H, W = P["H"], P["W"]
    hw = highways(P)
    s = _st(ctx)
    n = len(s["ax"])
    act = np.zeros(n, np.int32)
    shelves = _shelf_cells(s)
    requested = {c for c, k in shelves.items() if s["req"][k]}
    i = _pick_agent(ctx, s, requested, H, W)
    me = (int(s["ax"][i]), int(s["ay"][i]))
    d = int(s["ad"][i])
    others = {(int(s["ax"][j]), int(s["ay"][j])) for j in range(n) if j != i}
    if not s["ac"][i]:
        targets = {c for c in requested if c not in others}
        if me in targets:
            act[i] = TOGGLE
            return act
        _, step = _bfs(me, targets, others, H, W)
    else:
        mine = shelves.get(me)
        blocked = others | {c for c in shelves if c != me}
        if mine is not None and s["req"][mine]:
            _, step = _bfs(me, set(goals(P)), blocked, H, W)
        else:
            free = {(int(x), int(y)) for x, y in np.argwhere(~hw)} - set(shelves) - others
            if not hw[me]:
                act[i] = TOGGLE  # standing on a free shelf cell with the load: put it down
                return act
            _, step = _bfs(me, free, blocked, H, W)
    if step is not None and step != me:
        act[i] = _towards(me[0], me[1], d, step)
    return act


def _pol_frontier(ctx):
    """One agent loads a shelf that has a neighbouring shelf and pushes into the neighbour (the illegal move,
    three times), then carries its load into the four corners and pushes against the outer walls."""
    P = ctx["rw_params"]
    H, W = P["H"], P["W"]
    s = _st(ctx)
    n = len(s["ax"])
    act = np.zeros(n, np.int32)
    shelves = _shelf_cells(s)
    others = {(int(s["ax"][j]), int(s["ay"][j])) for j in range(n)}
    paired = {c for c in shelves if any((c[0] + DX[k], c[1] + DY[k]) in shelves for k in range(4))}
    i = _pick_agent(ctx, s, paired, H, W)
    me = (int(s["ax"][i]), int(s["ay"][i]))
    d = int(s["ad"][i])
    others.discard(me)
    if not s["ac"][i]:
        if me in paired:
            act[i] = TOGGLE
            return act
        _, step = _bfs(me, paired - others, others, H, W)
        if step is not None and step != me:
            act[i] = _towards(me[0], me[1], d, step)
        return act
    nb = [(me[0] + DX[k], me[1] + DY[k]) for k in range(4)]
    shelf_nb = [c for c in nb if c in shelves]
    if ctx.get("rw_pushes", 0) < 3 and shelf_nb:
        a = _towards(me[0], me[1], d, shelf_nb[0])
        if a == FORWARD:
            ctx["rw_pushes"] = ctx.get("rw_pushes", 0) + 1
            ctx["legal_only"] = False  # knowingly masked-out
        act[i] = a
        return act
    corners = [(0, 0), (0, W - 1), (H - 1, W - 1), (H - 1, 0)]
    c = corners[ctx.get("rw_corner", 0) % 4]
    if me == c:
        # push against both walls of the corner, then head for the next corner
        walls = [k for k in range(4) if not (0 <= me[0] + DX[k] < H and 0 <= me[1] + DY[k] < W)]
        done = ctx.setdefault("rw_wall_pushes", 0)
        if done < 2:
            want = walls[done % len(walls)]
            if d == want:
                act[i] = FORWARD
                ctx["rw_wall_pushes"] = done + 1
            else:
                act[i] = LEFT if (d - want) % 4 == 1 else RIGHT
            return act
        ctx["rw_wall_pushes"] = 0
        ctx["rw_corner"] = ctx.get("rw_corner", 0) + 1
        c = corners[ctx["rw_corner"] % 4]
    blocked = others | {x for x in shelves if x != me}
    _, step = _bfs(me, {c}, blocked, H, W)
    if step is not None and step != me:
        act[i] = _towards(me[0], me[1], d, step)
    elif shelf_nb:
        a = _towards(me[0], me[1], d, shelf_nb[0])
        if a == FORWARD:
            ctx["legal_only"] = False
        act[i] = a
    return act


def _pol_convoy(ctx):
    """Every robot loads the nearest shelf; the loaded robots then drive in single file: the lowest-numbered loaded robot
    tours the corners along shelf-free cells, the others chase it and keep pushing FORWARD when they face it (a move the
    mask forbids while the cell ahead holds the leader's shelf, and allows on the step after the leader has left)."""
    P = ctx["rw_params"]
    H, W = P["H"], P["W"]
    s = _st(ctx)
    n = len(s["ax"])
    act = np.zeros(n, np.int32)
    shelves = _shelf_cells(s)
    pos = [(int(s["ax"][j]), int(s["ay"][j])) for j in range(n)]
    loaded = [j for j in range(n) if s["ac"][j]]
    taken = set()
    for i in range(n):
        me, d = pos[i], int(s["ad"][i])
        others = {pos[j] for j in range(n) if j != i}
        if not s["ac"][i]:
            if me in shelves and me not in taken:
                act[i] = TOGGLE
                taken.add(me)
                continue
            targets = {c for c in shelves if c not in others and c not in taken}
            _, step = _bfs(me, targets, others, H, W)
        else:
            blocked = others | {c for c in shelves if c != me}
            if loaded and i == loaded[0]:
                corners = [(0, 0), (0, W - 1), (H - 1, W - 1), (H - 1, 0)]
                k = ctx.get("rw_convoy_corner", 0)
                if me == corners[k % 4]:
                    k += 1
                    ctx["rw_convoy_corner"] = k
                _, step = _bfs(me, {corners[k % 4]}, blocked, H, W)
            else:
                lead = pos[loaded[0]]
                if abs(me[0] - lead[0]) + abs(me[1] - lead[1]) == 1:
                    a = _towards(me[0], me[1], d, lead)
                    if a == FORWARD:
                        ctx["legal_only"] = False  # usually masked-out: the leader's shelf is in the cell ahead
                    act[i] = a
                    continue
                _, step = _bfs(me, {lead}, blocked - {lead}, H, W)
        if step is not None and step != me:
            act[i] = _towards(me[0], me[1], d, step)
    return act


def policies(P):
    def wrap(fn):
        def pol(ctx):
            ctx["rw_params"] = P.params
            return fn(ctx)
        return pol
    return {"complete": wrap(_pol_complete), "collide": wrap(_pol_collide), "frontier": wrap(_pol_frontier), "convoy": wrap(_pol_convoy)}
