"""LevelBasedForaging — independent NumPy statement of the rules (DESIGN §4; docs/environments/lbf.md, class and
observer docstrings).

Per agent: 0 noop, 1 up, 2 down, 3 left, 4 right, 5 load. A move is legal iff the target cell is inside the grid
and holds neither another agent nor an uneaten food; load is legal iff an uneaten food is 4-adjacent; noop is
always legal. Illegal actions are ignored (DESIGN §4: the "terminates" sentence of the docs is not implemented and
the property lists LBF under ignore-invalid). Movement is simultaneous from the old positions; agents that would
share a cell all stay. A food is eaten when the levels of the 4-adjacent loading agents add up to at least its
level. Reward of agent i for an eaten food f: level_i * level_f, divided by (sum of loader levels * sum of all
food levels) when normalised; a failed loading attempt (0 < loader levels < level_f) costs `penalty` (the docs do
not say whom: every agent is charged, the reading validated at design time). Ends: all food eaten (termination,
discount 0) or step_count >= time_limit (truncation, discount 1).
time_limit default: the constructor signature says 100, the class docstring 200; an episode of the default
configuration is driven by the signature, so 100 is used (nobody "passed" a value; C11 speaks of passed values).
"""
from __future__ import annotations

import collections

import numpy as np

MOVES = {0: (0, 0), 1: (-1, 0), 2: (1, 0), 3: (0, -1), 4: (0, 1), 5: (0, 0)}
LOAD = 5
NBRS = ((-1, 0), (1, 0), (0, -1), (0, 1))


def params(cfg):
    custom = "grid_size" in cfg
    G = cfg.get("grid_size", 8)
    return {
        "grid_size": G, "agents": cfg.get("agents", 2), "food": cfg.get("food", 2),
        "fov": cfg.get("fov", 8) if custom else 8, "max_level": cfg.get("max_level", 2),
        "force_coop": cfg.get("force_coop", False) if custom else True,
        "time_limit": cfg.get("time_limit", 100), "grid_obs": bool(cfg.get("grid_obs", False)),
        "normalize": bool(cfg.get("normalize", True)), "penalty": float(cfg.get("penalty", 0.0)),
    }


def RANDOM_GENERATOR(cfg):
    return True


def time_limit(P):
    return P.params["time_limit"]


# ------------------------------------------------------------------------------------------------ basics

def _unpack(S):
    return (S["agents.position"].astype(np.int64), S["agents.level"].astype(np.int64), S["food_items.position"].astype(np.int64),
            S["food_items.level"].astype(np.int64), S["food_items.eaten"].astype(bool))


def _adjacent(p, q):
    return abs(int(p[0]) - int(q[0])) + abs(int(p[1]) - int(q[1])) == 1


def _move_ok(G, apos, fpos, eaten, i, a):
    t = (int(apos[i][0]) + MOVES[a][0], int(apos[i][1]) + MOVES[a][1])
    if not (0 <= t[0] < G and 0 <= t[1] < G):
        return False, t, "out_of_grid"
    for j in range(len(apos)):
        if j != i and tuple(apos[j]) == t:
            return False, t, "into_agent"
    for k in range(len(fpos)):
        if not eaten[k] and tuple(fpos[k]) == t:
            return False, t, "into_food"
    return True, t, ""


def _load_ok(apos, fpos, eaten, i):
    return any((not eaten[k]) and _adjacent(apos[i], fpos[k]) for k in range(len(fpos)))


def _legal_table(G, apos, fpos, eaten):
    n = len(apos)
    L = np.zeros((n, 6), bool)
    for i in range(n):
        L[i, 0] = True
        for a in (1, 2, 3, 4):
            L[i, a] = _move_ok(G, apos, fpos, eaten, i, a)[0]
        L[i, LOAD] = _load_ok(apos, fpos, eaten, i)
    return L


def legal(P, S, O):
    apos, _, fpos, _, eaten = _unpack(S)
    return _legal_table(P.params["grid_size"], apos, fpos, eaten)


def _ref_step(P, S, act):
    G = P.params["grid_size"]
    apos, alev, fpos, flev, eaten = _unpack(S)
    n, nf = len(apos), len(fpos)
    want, info = [], {"collided": 0, "illegal": 0, "eaten": 0, "failed_load": 0}
    for i in range(n):
        a = int(act[i])
        if 1 <= a <= 4:
            ok, t, _ = _move_ok(G, apos, fpos, eaten, i, a)
            if not ok:
                info["illegal"] += 1
            want.append(t if ok else tuple(int(x) for x in apos[i]))
        else:
            want.append(tuple(int(x) for x in apos[i]))
            if a == LOAD and not _load_ok(apos, fpos, eaten, i):
                info["illegal"] += 1
    cnt = collections.Counter(want)
    newpos = []
    for i in range(n):
        if cnt[want[i]] == 1:
            newpos.append(want[i])
        else:  # several agents would share the cell: all of them stay
            newpos.append(tuple(int(x) for x in apos[i]))
            info["collided"] += 1
    info["max_group"] = max(cnt.values()) if cnt else 0
    loading = [int(act[i]) == LOAD for i in range(n)]
    rew = np.zeros(n, np.float64)
    new_eaten = eaten.copy()
    total = float(flev.sum())
    for k in range(nf):
        adj = np.array([alev[i] if (loading[i] and not eaten[k] and _adjacent(newpos[i], fpos[k])) else 0 for i in range(n)], np.float64)
        s = float(adj.sum())
        ate = (not eaten[k]) and s >= flev[k]
        failed = s != 0 and s < flev[k]
        pen = P.params["penalty"] if failed else 0.0
        r = adj * float(ate) * float(flev[k]) - pen
        if P.params["normalize"]:
            r = r / (s * total) if s * total != 0 else np.zeros(n)
        rew += r
        if ate:
            new_eaten[k] = True
            info["eaten"] += 1
        if failed:
            info["failed_load"] += 1
    return np.array(newpos, np.int64).reshape(n, 2), new_eaten, rew, np.array(loading), info


# ------------------------------------------------------------------------------------------------ C04 / C05

def reaction(P, S, a, S2, ev, agent):
    i = int(agent)
    act = np.asarray(a).astype(np.int64)
    ai = int(act[i])
    apos, alev, fpos, flev, eaten = _unpack(S)
    G = P.params["grid_size"]
    if ai == 0:
        return "accepted"
    if 1 <= ai <= 4:
        t = (int(apos[i][0]) + MOVES[ai][0], int(apos[i][1]) + MOVES[ai][1])
        if tuple(S2["agents.position"][i]) == t:
            return "accepted"
        for j in range(len(apos)):  # a legal move may have been cancelled by a same-cell conflict: undecidable
            aj = int(act[j])
            if j != i and 1 <= aj <= 4 and (int(apos[j][0]) + MOVES[aj][0], int(apos[j][1]) + MOVES[aj][1]) == t:
                return None
        return "invalid"
    # load: "invalid" = it had no effect although the rules would have let it eat; "accepted" = it contributed
    p2 = S2["agents.position"].astype(np.int64)
    e2 = S2["food_items.eaten"].astype(bool)
    adj = [k for k in range(len(fpos)) if not eaten[k] and _adjacent(apos[i], fpos[k])]
    if not adj:
        # nothing adjacent: the environment can only ignore it, unless a food vanished that the others could not eat
        for k in range(len(fpos)):
            if e2[k] and not eaten[k]:
                others = sum(int(alev[j]) for j in range(len(apos)) if j != i and int(act[j]) == LOAD and _adjacent(p2[j], fpos[k]))
                if others < flev[k]:
                    return "accepted"
        return "invalid"
    if any(e2[k] for k in adj):
        return "accepted"
    for k in adj:
        s = sum(int(alev[j]) for j in range(len(apos)) if int(act[j]) == LOAD and _adjacent(p2[j], fpos[k]))
        if s >= flev[k]:
            return "invalid"  # enough level around the food and still not eaten: the load was dropped
    return None  # not enough level: a legal load without visible effect


def illegal_effect(P, S, a, S2, ev, agent):
    out = []
    i = int(agent)
    act = np.asarray(a).astype(np.int64)
    ai = int(act[i])
    apos, alev, fpos, flev, eaten = _unpack(S)
    G = P.params["grid_size"]
    P.hit("illegal_ignored")
    if 1 <= ai <= 4:
        P.hit("illegal_move_" + _move_ok(G, apos, fpos, eaten, i, ai)[2])
    else:
        P.hit("illegal_load_without_food")
    p2 = S2["agents.position"].astype(np.int64)
    e2 = S2["food_items.eaten"].astype(bool)
    if not np.array_equal(p2[i], apos[i]):
        out.append(f"illegal_position_unchanged: agent {i} played illegal action {ai} and moved {apos[i].tolist()} -> {p2[i].tolist()}")
    if int(S2["agents.level"][i]) != int(alev[i]):
        out.append(f"illegal_level_unchanged: level of agent {i} changed")
    # no food eaten thanks to that agent: every food eaten on this step must be explained by the *other* loaders
    for k in range(len(fpos)):
        if e2[k] and not eaten[k]:
            others = sum(int(alev[j]) for j in range(len(apos)) if j != i and int(act[j]) == LOAD and _adjacent(p2[j], fpos[k]))
            if others < flev[k]:
                out.append(f"illegal_no_food_eaten: food {k} (level {int(flev[k])}) was eaten although the other loaders only reach level {others}: agent {i}'s illegal action {ai} contributed")
    if not np.array_equal(S2["food_items.position"], S["food_items.position"]) or not np.array_equal(S2["food_items.level"], S["food_items.level"]):
        out.append("illegal_food_untouched: food positions/levels changed")
    if ev.last and not (e2.all() or int(S2["step_count"]) >= P.params["time_limit"]):
        out.append(f"illegal_episode_continues: LAST after illegal action {ai} of agent {i} with food left and the limit not reached")
    return out


# ------------------------------------------------------------------------------------------------ C07

def physical(P, S_prev, a, S):
    out = []
    G, n, nf = P.params["grid_size"], P.params["agents"], P.params["food"]
    apos, alev, fpos, flev, eaten = _unpack(S)
    P.hit("occupancy")
    if apos.shape != (n, 2) or fpos.shape != (nf, 2):
        return [f"entity_counts: agents {apos.shape}, food {fpos.shape} for {n} agents, {nf} food"]
    for i in range(n):
        if not (0 <= apos[i][0] < G and 0 <= apos[i][1] < G):
            out.append(f"agent_in_grid: agent {i} at {apos[i].tolist()} outside the {G}x{G} grid")
    if len({tuple(p) for p in apos.tolist()}) != n:
        out.append(f"agents_distinct: two agents share a cell: {apos.tolist()}")
    for i in range(n):
        for k in range(nf):
            if not eaten[k] and tuple(apos[i]) == tuple(fpos[k]):
                out.append(f"agent_not_on_food: agent {i} stands on uneaten food {k} at {fpos[k].tolist()}")
    for k in range(nf):
        if not (0 <= fpos[k][0] < G and 0 <= fpos[k][1] < G):
            out.append(f"food_in_grid: food {k} at {fpos[k].tolist()} outside the grid")
    if S_prev is not None:
        P.hit("conservation")
        ap0, al0, fp0, fl0, e0 = _unpack(S_prev)
        if not np.array_equal(fp0, fpos):
            out.append("food_never_moves: a food item changed position")
        if not np.array_equal(fl0, flev) or not np.array_equal(al0, alev):
            out.append("levels_constant: an agent or food level changed")
        if np.any(e0 & ~eaten):
            out.append("eaten_monotone: an eaten food became uneaten")
        if eaten.sum() > e0.sum():
            P.hit("food_eaten")
        for i in range(n):
            if abs(int(ap0[i][0] - apos[i][0])) + abs(int(ap0[i][1] - apos[i][1])) > 1:
                out.append(f"move_one_cell: agent {i} moved {ap0[i].tolist()} -> {apos[i].tolist()}")
    return out


# ------------------------------------------------------------------------------------------------ C08

def objective(P, trace):
    if not P.params["normalize"] or P.params["penalty"] != 0.0:
        return None
    S = trace[-1].S
    lev = S["food_items.level"].astype(np.float64)
    e = S["food_items.eaten"].astype(bool)
    if e.all():
        P.hit("objective_all_food")
        return 1.0
    P.hit("objective_partial")
    return float(lev[e].sum() / lev.sum())


# ------------------------------------------------------------------------------------------------ C09

def check_step(P, S, a, S2, reward, last, ev):
    out = []
    act = np.asarray(a).astype(np.int64)
    n = len(act)
    newpos, new_eaten, rew, loading, info = _ref_step(P, S, act)
    P.hit("ref_step")
    if info["collided"]:
        P.hit("ref_collision")
    if info["max_group"] >= 3:
        P.hit("ref_collision_3_agents")
    if info["illegal"]:
        P.hit("ref_illegal_ignored")
    if info["eaten"]:
        P.hit("ref_food_eaten")
    if info["failed_load"]:
        P.hit("ref_failed_load")
    p2 = S2["agents.position"].astype(np.int64)
    if not np.array_equal(p2, newpos):
        out.append(f"ref_positions: positions {p2.tolist()} != reference {newpos.tolist()} (actions {act.tolist()}, collided {info['collided']})")
    if not np.array_equal(S2["food_items.eaten"].astype(bool), new_eaten):
        out.append(f"ref_eaten: eaten {S2['food_items.eaten'].tolist()} != reference {new_eaten.tolist()}")
    if not np.array_equal(S2["agents.loading"].astype(bool), loading):
        out.append(f"ref_loading: loading flags {S2['agents.loading'].tolist()} != (action == load) {loading.tolist()}")
    for f in ("agents.level", "agents.id", "food_items.position", "food_items.level", "food_items.id"):
        if not np.array_equal(S2[f], S[f]):
            out.append(f"ref_constant_fields: {f} changed")
    if int(S2["step_count"]) != int(S["step_count"]) + 1:
        out.append("ref_step_count: step_count did not increase by one")
    r = np.asarray(reward, np.float64)
    if r.shape != rew.shape or not np.allclose(r, rew, rtol=1e-5, atol=1e-6):
        out.append(f"ref_reward: reward {r.tolist()} != reference {rew.tolist()} (normalize={P.params['normalize']}, penalty={P.params['penalty']})")
    terminate = bool(new_eaten.all())
    truncate = int(S["step_count"]) + 1 >= P.params["time_limit"]
    if terminate:
        P.hit("ref_termination")
    if truncate:
        P.hit("ref_truncation")
    if bool(last) != (terminate or truncate):
        out.append(f"ref_last: last={bool(last)} expected {terminate or truncate} (all eaten {terminate}, limit {truncate})")
    exp_d = 0.0 if terminate else 1.0
    d = np.asarray(ev.discount, np.float64)
    if not np.allclose(d, exp_d):
        out.append(f"ref_discount: discount {d.tolist()} != {exp_d} (termination {terminate}, truncation {truncate})")
    return out


# ------------------------------------------------------------------------------------------------ C10

def instance(P, S0, ev):
    out = []
    G, n, nf = P.params["grid_size"], P.params["agents"], P.params["food"]
    apos, alev, fpos, flev, eaten = _unpack(S0)
    P.hit("instance_wellformed")
    out.extend(physical(P, None, None, S0))
    if out:
        return out
    if len({tuple(p) for p in fpos.tolist()}) != nf:
        out.append(f"food_distinct: two food items share a cell: {fpos.tolist()}")
    for k in range(nf):
        if not (1 <= fpos[k][0] <= G - 2 and 1 <= fpos[k][1] <= G - 2):
            out.append(f"food_off_border: food {k} at {fpos[k].tolist()} lies on the border of the {G}x{G} grid")
        for m in range(k + 1, nf):
            if _adjacent(fpos[k], fpos[m]):
                out.append(f"food_not_adjacent: food {k} and {m} are adjacent: {fpos[k].tolist()} {fpos[m].tolist()}")
    for i in range(n):
        if any(tuple(apos[i]) == tuple(fpos[k]) for k in range(nf)):
            out.append(f"agent_not_on_food: agent {i} spawned on a food cell")
    if alev.min() < 1 or alev.max() > P.params["max_level"]:
        out.append(f"agent_levels_in_range: agent levels {alev.tolist()} outside [1, {P.params['max_level']}]")
    if flev.min() < 1:
        out.append(f"food_levels_in_range: food levels {flev.tolist()} below 1")
    best4 = int(np.sort(alev)[::-1][:4].sum())  # at most four agents fit around a food item
    for k in range(nf):
        if flev[k] > best4:
            out.append(f"food_loadable: food {k} has level {int(flev[k])} but the four strongest agents only reach {best4}")
    if eaten.any() or S0["agents.loading"].any() or int(S0["step_count"]) != 0:
        out.append("initial_flags: eaten/loading/step_count not all zero at reset")
    if not np.array_equal(S0["agents.id"], np.arange(n)) or not np.array_equal(S0["food_items.id"], np.arange(nf)):
        out.append("entity_ids: ids are not 0..n-1")
    return out


# ------------------------------------------------------------------------------------------------ C11 / C12

def other_end_reason(P, S_prev, a, S, ev):
    return bool(S["food_items.eaten"].all())


def _vector_view(G, fov, apos, alev, fpos, flev, eaten):
    n, nf = len(apos), len(fpos)
    out = np.zeros((n, 3 * (n + nf)), np.int64)
    for i in range(n):
        off = np.array([min(fov, apos[i][0]), min(fov, apos[i][1])])
        v = []
        for k in range(nf):
            vis = bool((np.abs(apos[i] - fpos[k]) <= fov).all()) and not eaten[k]
            v += (list(fpos[k] - apos[i] + off) + [flev[k]]) if vis else [-1, -1, 0]
        v += list(off) + [alev[i]]  # the observing agent itself comes first among the agents
        for j in range(n):
            if j == i:
                continue
            vis = bool((np.abs(apos[i] - apos[j]) <= fov).all())
            v += (list(apos[j] - apos[i] + off) + [alev[j]]) if vis else [-1, -1, 0]
        out[i] = v
    return out


def _grid_view(G, fov, apos, alev, fpos, flev, eaten):
    n = len(apos)
    Pd = G + 2 * fov
    ag = np.zeros((Pd, Pd), np.int64)
    fg = np.zeros((Pd, Pd), np.int64)
    inside = np.zeros((Pd, Pd), bool)
    inside[fov:fov + G, fov:fov + G] = True
    for i in range(n):
        ag[apos[i][0] + fov, apos[i][1] + fov] += alev[i]
    for k in range(len(fpos)):
        if not eaten[k]:
            fg[fpos[k][0] + fov, fpos[k][1] + fov] += flev[k]
    acc = ((ag + fg) == 0) & inside
    w = 2 * fov + 1
    out = np.zeros((n, 3, w, w), np.int64)
    for i in range(n):
        r, c = int(apos[i][0]), int(apos[i][1])
        out[i, 0] = ag[r:r + w, c:c + w]
        out[i, 1] = fg[r:r + w, c:c + w]
        out[i, 2] = acc[r:r + w, c:c + w]
    return out


def check_obs(P, S, O):
    out = []
    G, fov = P.params["grid_size"], P.params["fov"]
    apos, alev, fpos, flev, eaten = _unpack(S)
    if np.any(apos < 0) or np.any(apos >= G) or np.any(fpos < 0) or np.any(fpos >= G):
        return out  # not a physical state: C07's business
    if P.params["grid_obs"]:
        exp = _grid_view(G, fov, apos, alev, fpos, flev, eaten)
        P.hit("obs_grid_observer")
    else:
        exp = _vector_view(G, fov, apos, alev, fpos, flev, eaten)
        P.hit("obs_vector_observer")
    if fov < G and np.any(np.abs(apos[:, None, :] - apos[None, :, :]).max(-1) > fov):
        P.hit("obs_entity_out_of_view")
    if eaten.any():
        P.hit("obs_with_eaten_food")
    got = O["agents_view"]
    if got.shape != exp.shape:
        out.append(f"obs_agents_view_shape: {got.shape} != {exp.shape}")
    elif not np.array_equal(got.astype(np.int64), exp):
        bad = sorted({int(k[0]) for k in np.argwhere(got != exp)})
        i = bad[0]
        out.append(f"obs_agents_view: view of agent(s) {bad} differs from the state (fov {fov}); agent {i}: got {got[i].ravel()[:24].tolist()} expected {exp[i].ravel()[:24].tolist()}")
    if int(O["step_count"]) != int(S["step_count"]):
        out.append(f"obs_step_count: observation {int(O['step_count'])} != state {int(S['step_count'])}")
    L = _legal_table(G, apos, fpos, eaten)
    if O["action_mask"].shape != L.shape or not np.array_equal(O["action_mask"].astype(bool), L):
        out.append("obs_action_mask: observation mask differs from the mask recomputed from the state of the same timestep")
    return out


# ------------------------------------------------------------------------------------------------ policies

def _bfs_first_move(G, blocked, s, goals):
    """First action (1..4) of a shortest path from s to any goal cell avoiding blocked cells, 0 if none/at goal."""
    if s in goals:
        return 0, s
    prev = {s: None}
    dq = collections.deque([s])
    while dq:
        u = dq.popleft()
        if u in goals:
            while prev[u] != s:
                u = prev[u]
            for a in (1, 2, 3, 4):
                if (s[0] + MOVES[a][0], s[1] + MOVES[a][1]) == u:
                    return a, u
        for a in (1, 2, 3, 4):
            v = (u[0] + MOVES[a][0], u[1] + MOVES[a][1])
            if 0 <= v[0] < G and 0 <= v[1] < G and v not in blocked and v not in prev:
                prev[v] = u
                dq.append(v)
    return 0, s


def pol_complete(ctx):
    """Everybody walks next to the first uneaten food and loads."""
    from jmon.common import decode

    S = decode(ctx["state"])
    apos, alev, fpos, flev, eaten = _unpack(S)
    G = int(ctx["runner"].env.grid_size)
    n = len(apos)
    M = np.asarray(ctx["ts"].observation.action_mask).astype(bool)
    act = np.zeros(n, np.int64)
    left = [k for k in range(len(fpos)) if not eaten[k]]
    # the cell of a food item that has just been collected is an ordinary free cell again: the nearest agent steps onto it and
    # stays there for one step before the team moves on (agents standing on freed cells, moves onto them)
    done_cells = [tuple(int(x) for x in fpos[m]) for m in range(len(fpos)) if eaten[m]]
    visited = ctx.setdefault("lbf_freed_visited", set())
    for cell in done_cells:
        if cell in visited:
            continue
        occupied = {tuple(int(x) for x in apos[j]) for j in range(n)}
        if cell in occupied:
            visited.add(cell)
            return act.astype(np.int32)  # everybody waits one step with an agent on the freed cell
        for i in range(n):
            cur = tuple(int(x) for x in apos[i])
            if _adjacent(cur, cell):
                for a_ in (1, 2, 3, 4):
                    d = MOVES[a_]
                    if (cur[0] + d[0], cur[1] + d[1]) == cell and M[i, a_]:
                        act[i] = a_
                        return act.astype(np.int32)
        visited.add(cell)  # nobody is next to it any more
    if not left:
        return act.astype(np.int32)
    k = left[0]
    food_cells = {tuple(fpos[m]) for m in left}
    claimed, taken = set(), set()
    order = sorted(range(n), key=lambda i: abs(int(apos[i][0] - fpos[k][0])) + abs(int(apos[i][1] - fpos[k][1])))
    for i in order:
        cur = tuple(int(x) for x in apos[i])
        if _adjacent(cur, fpos[k]):
            act[i] = LOAD
            claimed.add(cur)
            continue
        others = {tuple(int(x) for x in apos[j]) for j in range(n) if j != i}
        goals = {(int(fpos[k][0]) + d[0], int(fpos[k][1]) + d[1]) for d in NBRS} - others - claimed - food_cells
        a, nxt = _bfs_first_move(G, others | food_cells, cur, goals)
        if a and M[i, a] and nxt not in taken:
            act[i] = a
            taken.add(nxt)
            goal = min(goals, key=lambda g: abs(g[0] - cur[0]) + abs(g[1] - cur[1])) if goals else None
            if goal is not None:
                claimed.add(goal)
    return act.astype(np.int32)


def pol_collide(ctx):
    """Send two or three agents into the same empty cell whenever possible, else walk the agents together."""
    from jmon.common import decode

    S = decode(ctx["state"])
    rng = ctx["rng"]
    apos, alev, fpos, flev, eaten = _unpack(S)
    n = len(apos)
    M = np.asarray(ctx["ts"].observation.action_mask).astype(bool)
    act = np.array([int(rng.choice(np.flatnonzero(r))) if (r.any() and rng.random() < 0.3) else 0 for r in M], np.int64)
    cand = collections.defaultdict(list)
    for i in range(n):
        for a in (1, 2, 3, 4):
            if M[i, a]:
                cand[(int(apos[i][0]) + MOVES[a][0], int(apos[i][1]) + MOVES[a][1])].append((i, a))
    multi = [(d, v) for d, v in cand.items() if len(v) >= 2]
    if multi and rng.random() < 0.8:
        top = max(len(v) for _, v in multi)
        best = [m for m in multi if len(m[1]) == top]
        d, v = best[int(rng.integers(len(best)))]
        for i, a in v:
            act[i] = a
        # chain: a further agent steps into the cell one of the contenders is about to (fail to) leave - an illegal
        # move (occupied cell), so the episode no longer counts as mask-respecting
        if rng.random() < 0.5:
            movers = {i for i, _ in v}
            for j in range(n):
                if j in movers:
                    continue
                for a in (1, 2, 3, 4):
                    t = (int(apos[j][0]) + MOVES[a][0], int(apos[j][1]) + MOVES[a][1])
                    if any(t == (int(apos[i][0]), int(apos[i][1])) for i in movers):
                        act[j] = a
                        ctx["legal_only"] = False
                        break
        return act.astype(np.int32)
    centre = apos.mean(axis=0)
    for i in range(n):
        opts = [a for a in (1, 2, 3, 4) if M[i, a]]
        if opts and n > 1:
            act[i] = min(opts, key=lambda a: abs(apos[i][0] + MOVES[a][0] - centre[0]) + abs(apos[i][1] + MOVES[a][1] - centre[1]) + 0.3 * rng.random())
    return act.astype(np.int32)


def pol_frontier(ctx):
    """Agent i walks to corner i mod 4 (exercises the grid bounds of mask, movement and observers)."""
    from jmon.common import decode

    S = decode(ctx["state"])
    apos = S["agents.position"].astype(np.int64)
    G = int(ctx["runner"].env.grid_size)
    M = np.asarray(ctx["ts"].observation.action_mask).astype(bool)
    corners = [(0, 0), (0, G - 1), (G - 1, G - 1), (G - 1, 0)]
    act = np.zeros(len(apos), np.int64)
    for i in range(len(apos)):
        t = corners[i % 4]
        opts = [a for a in (1, 2, 3, 4) if M[i, a]]
        if opts:
            act[i] = min(opts, key=lambda a: abs(apos[i][0] + MOVES[a][0] - t[0]) + abs(apos[i][1] + MOVES[a][1] - t[1]) + 0.1 * ctx["rng"].random())
    return act.astype(np.int32)


def key_score(P, S0):
    """Workload hint: instances whose largest food level is extreme reach the top of the declared observation range."""
    return float(np.max(np.asarray(S0["food_items.level"])))


def policies(P):
    return {"complete": pol_complete, "collide": pol_collide, "frontier": pol_frontier}
