"""Cleaner — independent NumPy statement of the rules (DESIGN §4; docs/environments/cleaner.md, class docstring).

Grid of rows x cols tiles: 0 dirty, 1 clean, 2 wall. Every agent plays up/right/down/left (0..3). A component is
legal iff its target lies inside the rows x cols grid and is not a wall. Legal movers move, every tile holding an
agent becomes clean; reward = number of tiles cleaned during the step - penalty_per_timestep. Any illegal
component => LAST, that agent stays where it is (the others still move). Ends: illegal component, no dirty tile
left, time limit (default rows*cols). Agents start on the (clean, free) top-left tile; the maze is connected.
"""
from __future__ import annotations

import numpy as np

from jmon.models._routing_grid import all_connected, first_step_towards

MOVES = [(-1, 0), (0, 1), (1, 0), (0, -1)]  # up, right, down, left (docs: 0 up, 1 right, 2 down, 3 left)
DIRTY, CLEAN, WALL = 0, 1, 2


def params(cfg):
    rows, cols = cfg.get("rows", 10), cfg.get("cols", 10)
    return {"rows": rows, "cols": cols, "agents": cfg.get("agents", 3), "penalty": float(cfg.get("penalty", 0.5)),
            "time_limit": cfg.get("time_limit") or rows * cols}


def RANDOM_GENERATOR(cfg):
    # the recursive-division maze has (almost) no freedom on degenerate sizes (DESIGN §3 C10)
    return cfg.get("rows", 10) >= 4 and cfg.get("cols", 10) >= 4


def time_limit(P):
    return P.params["time_limit"]


def _locs(S):
    return [(int(r), int(c)) for r, c in np.asarray(S["agents_locations"]).reshape(-1, 2)]


def _legal_move(P, grid, loc, a):
    R, C = P.params["rows"], P.params["cols"]
    nr, nc = loc[0] + MOVES[a][0], loc[1] + MOVES[a][1]
    if not (0 <= nr < R and 0 <= nc < C):
        return False
    if nr >= grid.shape[0] or nc >= grid.shape[1]:
        return False
    return int(grid[nr, nc]) != WALL


def legal(P, S, O):
    grid = S["grid"]
    return np.array([[_legal_move(P, grid, loc, a) for a in range(4)] for loc in _locs(S)], bool)


def _ref(P, S, action):
    """Reference step: (new locations, new grid, legality per agent, tiles cleaned)."""
    grid = S["grid"].astype(np.int64).copy()
    locs = _locs(S)
    act = [int(x) for x in np.asarray(action).reshape(-1)]
    ok, new = [], []
    for loc, a in zip(locs, act):
        good = 0 <= a < 4 and _legal_move(P, S["grid"], loc, a)
        ok.append(good)
        new.append((loc[0] + MOVES[a][0], loc[1] + MOVES[a][1]) if good else loc)
    cleaned = 0
    for (r, c) in new:
        if 0 <= r < grid.shape[0] and 0 <= c < grid.shape[1]:
            if grid[r, c] == DIRTY:
                cleaned += 1
            grid[r, c] = CLEAN
    return new, grid, ok, cleaned


def reaction(P, S, a, S2, ev, agent):
    i = 0 if agent is None else int(agent)
    ai = int(np.asarray(a).reshape(-1)[i])
    loc, loc2 = _locs(S)[i], _locs(S2)[i]
    moved = loc2 == (loc[0] + MOVES[ai][0], loc[1] + MOVES[ai][1])
    if moved:
        return "accepted"
    # the agent stayed: the documented treatment of an invalid component (and the episode must be LAST)
    return "invalid" if ev.last else None


def illegal_effect(P, S, a, S2, ev, agent):
    out = []
    i = 0 if agent is None else int(agent)
    new, grid, ok, cleaned = _ref(P, S, a)
    P.hit("illegal_terminates")
    ai = int(np.asarray(a).reshape(-1)[i])
    tr, tc = _locs(S)[i][0] + MOVES[ai][0], _locs(S)[i][1] + MOVES[ai][1]
    P.hit("illegal_into_wall" if (0 <= tr < P.params["rows"] and 0 <= tc < P.params["cols"]) else "illegal_out_of_grid")
    if not ev.last:
        out.append("illegal_terminates: an illegal component did not end the episode")
    if _locs(S2)[i] != _locs(S)[i]:
        out.append(f"illegal_agent_stays: agent {i} moved from {_locs(S)[i]} to {_locs(S2)[i]} on an illegal action")
    exp = cleaned - P.params["penalty"]
    if abs(float(ev.reward) - exp) > 1e-5:
        out.append(f"illegal_reward: reward {float(ev.reward)} != tiles cleaned by the legal movers ({cleaned}) - penalty = {exp}")
    if not any(ok):
        P.hit("all_components_illegal")
        if not np.array_equal(S2["grid"], S["grid"]) or _locs(S2) != _locs(S):
            out.append("illegal_state_untouched: all components illegal but grid / locations changed")
    elif sum(ok) < len(ok):
        P.hit("offender_among_legal_movers")
    return out


def check_step(P, S, a, S2, reward, last, ev):
    out = []
    new, grid, ok, cleaned = _ref(P, S, a)
    P.hit("ref_all_legal" if all(ok) else "ref_illegal_component")
    if cleaned:
        P.hit("ref_tiles_cleaned")
    if len(set(new)) < len(new) and len(new) > 1:
        P.hit("ref_agents_share_cell")
    if _locs(S2) != new:
        out.append(f"ref_locations: agents at {_locs(S2)} expected {new}")
    if not np.array_equal(S2["grid"].astype(np.int64), grid):
        out.append(f"ref_grid: grid differs from the reference in {int((S2['grid'].astype(np.int64) != grid).sum())} tiles")
    if int(S2["step_count"]) != int(S["step_count"]) + 1:
        out.append("step_count_increments: step_count did not increase by one")
    exp_r = cleaned - P.params["penalty"]
    if abs(float(reward) - exp_r) > 1e-5:
        out.append(f"ref_reward: reward {float(reward)} != {cleaned} - {P.params['penalty']}")
    no_dirty = not bool((grid == DIRTY).any())
    limit = int(S["step_count"]) + 1 >= P.params["time_limit"]
    if no_dirty:
        P.hit("ref_all_clean")
    if limit:
        P.hit("ref_time_limit")
    exp_last = (not all(ok)) or no_dirty or limit
    if bool(last) != exp_last:
        out.append(f"ref_last: last={bool(last)} expected {exp_last} (illegal={not all(ok)}, all clean={no_dirty}, limit={limit})")
    return out


def physical(P, S_prev, a, S):
    out = []
    R, C = P.params["rows"], P.params["cols"]
    grid = S["grid"]
    P.hit("agents_on_free_tiles")
    if grid.shape != (R, C):
        return [f"grid_shape: grid shape {grid.shape} != {(R, C)}"]
    if not np.isin(grid, (DIRTY, CLEAN, WALL)).all():
        out.append("grid_encoding: grid holds values other than 0/1/2")
    locs = _locs(S)
    if len(locs) != P.params["agents"]:
        out.append(f"agent_count: {len(locs)} agents != {P.params['agents']}")
    for i, (r, c) in enumerate(locs):
        if not (0 <= r < R and 0 <= c < C):
            out.append(f"agent_in_grid: agent {i} at {(r, c)} outside the {R}x{C} grid")
        elif int(grid[r, c]) == WALL:
            out.append(f"agent_not_on_wall: agent {i} at {(r, c)} stands on a wall")
        elif int(grid[r, c]) != CLEAN:
            out.append(f"agent_tile_clean: agent {i} at {(r, c)} stands on a dirty tile")
        elif r == R - 1 or c == C - 1:
            P.hit("agent_in_last_row" if r == R - 1 else "agent_in_last_col")
    if S_prev is not None and S_prev["grid"].shape == grid.shape:
        g0 = S_prev["grid"]
        P.hit("grid_monotone")
        if not np.array_equal(g0 == WALL, grid == WALL):
            out.append("walls_constant: the wall layout changed during a step")
        if bool(((g0 == CLEAN) & (grid == DIRTY)).any()):
            out.append("clean_stays_clean: a clean tile became dirty again")
    return out


OBJECTIVE_HOLDS_ON_PREFIX = True  # the objective is a running quantity: valid after every step of a legal episode


def objective(P, trace):
    """Tiles cleaned over the episode minus the step penalties (the docs' 'clean as many tiles as possible in
    a given time budget': defined for episodes ended by completion and by the time limit alike)."""
    d0 = int((trace[0].S["grid"] == DIRTY).sum())
    dT = int((trace[-1].S["grid"] == DIRTY).sum())
    T = len(trace) - 1
    P.hit("cleaned_minus_penalties")
    if dT == 0:
        P.hit("objective_all_clean")
    return float(d0 - dT) - P.params["penalty"] * T


def instance(P, S0, ev):
    out = []
    R, C = P.params["rows"], P.params["cols"]
    grid = S0["grid"]
    P.hit("maze_connected")
    if grid.shape != (R, C):
        return [f"grid_shape: grid shape {grid.shape} != {(R, C)}"]
    if not np.isin(grid, (DIRTY, CLEAN, WALL)).all():
        out.append("grid_encoding: grid holds values other than 0/1/2")
    if int(grid[0, 0]) == WALL:
        out.append("origin_free: the top-left tile is a wall")
    elif int(grid[0, 0]) != CLEAN:
        out.append("origin_clean: the top-left tile (agents' start) is not clean at reset")
    locs = _locs(S0)
    if len(locs) != P.params["agents"] or any(l != (0, 0) for l in locs):
        out.append(f"agents_start_top_left: agents start at {locs}, expected {P.params['agents']} agents on (0, 0)")
    free = grid != WALL
    ok, reached, n = all_connected(free)
    if not ok:
        out.append(f"maze_connected: only {reached} of {n} non-wall tiles are mutually reachable")
    rest = free.copy()
    rest[0, 0] = False
    if bool((grid[rest] != DIRTY).any()):
        out.append("all_other_tiles_dirty: a non-wall tile other than the origin is not dirty at reset")
    if int(S0["step_count"]) != 0:
        out.append("initial_counters: step_count != 0 at reset")
    return out


def other_end_reason(P, S_prev, a, S, ev):
    _, _, ok, _ = _ref(P, S_prev, a)
    return (not all(ok)) or not bool((S["grid"] == DIRTY).any())


def check_obs(P, S, O):
    out = []
    P.hit("obs_copies")
    for f in ("grid", "agents_locations", "action_mask"):
        if O[f].shape != S[f].shape or not np.array_equal(O[f], S[f]):
            out.append(f"obs_{f}: observation field differs from the state")
    if int(O["step_count"]) != int(S["step_count"]):
        out.append(f"obs_step_count: observation {int(O['step_count'])} != state {int(S['step_count'])}")
    return out


# ------------------------------------------------------------------------------------------------ policies

def _np_state(ctx):
    st = ctx["state"]
    return np.asarray(st.grid), [(int(r), int(c)) for r, c in np.asarray(st.agents_locations)]


def _any_legal(free, loc, rng):
    R, C = free.shape
    opts = [k for k, (dr, dc) in enumerate(MOVES) if 0 <= loc[0] + dr < R and 0 <= loc[1] + dc < C and free[loc[0] + dr, loc[1] + dc]]
    return int(rng.choice(opts)) if opts else 0


def pol_complete(ctx):
    """Every agent walks (BFS) to the nearest dirty tile not already claimed by a lower-numbered agent."""
    grid, locs = _np_state(ctx)
    free = grid != WALL
    claimed, act = set(), []
    for loc in locs:
        k = first_step_towards(free, loc, lambda c: grid[c] == DIRTY and c not in claimed, MOVES)
        if k is None:
            k = first_step_towards(free, loc, lambda c: grid[c] == DIRTY, MOVES)
        if k is None:
            act.append(_any_legal(free, loc, ctx["rng"]))
            continue
        t = (loc[0] + MOVES[k][0], loc[1] + MOVES[k][1])
        if grid[t] == DIRTY:
            claimed.add(t)  # the tile this agent cleans now: the next agent looks elsewhere
        act.append(k)
    return np.asarray(act, np.int32)


def pol_frontier(ctx):
    """Agents walk to the extreme tiles (last row, last column, corners); on arrival an agent plays the move that
    leaves the grid (an illegal component: ends the episode on a correct implementation)."""
    grid, locs = _np_state(ctx)
    free = grid != WALL
    R, C = free.shape
    cells = [(int(r), int(c)) for r, c in zip(*np.nonzero(free))]
    if "cl_targets" not in ctx:  # ctx lives for one episode
        keyfns = [lambda rc: (rc[0], rc[1]), lambda rc: (rc[1], rc[0]), lambda rc: (rc[0] + rc[1], rc[0]), lambda rc: (rc[0], -rc[1]),
                  lambda rc: (rc[1], -rc[0])]
        off = int(ctx["rng"].integers(0, len(keyfns)))
        ctx["cl_targets"] = [max(cells, key=keyfns[(i + off) % len(keyfns)]) for i in range(len(locs))]
    act = []
    for i, loc in enumerate(locs):
        tgt = ctx["cl_targets"][i]
        if loc == tgt:
            # step over the edge if the target touches one, else bump into whatever is illegal around
            if loc[0] == R - 1:
                k = 2
            elif loc[1] == C - 1:
                k = 1
            else:
                bad = [k for k, (dr, dc) in enumerate(MOVES)
                       if not (0 <= loc[0] + dr < R and 0 <= loc[1] + dc < C and free[loc[0] + dr, loc[1] + dc])]
                k = bad[0] if bad else 0
            ctx["legal_only"] = False
            act.append(k)
            continue
        k = first_step_towards(free, loc, lambda c, tgt=tgt: c == tgt, MOVES)
        act.append(k if k is not None else _any_legal(free, loc, ctx["rng"]))
    return np.asarray(act, np.int32)


def policies(P):
    return {"complete": pol_complete, "frontier": pol_frontier}
