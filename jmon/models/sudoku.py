"""Sudoku — independent NumPy statement of the rules (DESIGN §4; docs/environments/sudoku.md, class docstring).

Board 9x9, -1 = empty, 0..8 = digits. Action (row, col, digit). legal(r, c, d) iff the cell is empty and d does
not occur in row r, column c or the 3x3 box of the cell. An invalid action => LAST, reward 0 (the board need not
be preserved). After a valid action the episode is LAST when no legal action remains (solved or dead end);
reward 1 iff the board is then a valid complete grid, else 0.
"""
from __future__ import annotations

import numpy as np

N = 9


def params(cfg):
    return {"gen": cfg.get("gen", "mixed"), "n": cfg.get("n")}


def RANDOM_GENERATOR(cfg):
    g = cfg.get("gen")
    if g == "dummy":
        return False
    if g == "tiny":
        return cfg.get("n", 1) >= 2
    return True


def horizon(P):
    """Every non-final step fills an empty cell, so an episode has at most (#empty cells at reset) steps. The
    per-instance number is not known here: 81 in general; the very-easy database is documented to hold puzzles
    with at least 46 clues (docs/environments/sudoku.md, data/__init__.py); the dummy board has 17 clues."""
    g = P.params["gen"]
    if g in ("very-easy", "tiny"):
        return 81 - 46
    if g == "dummy":
        return 81 - 17
    return 81


# ------------------------------------------------------------------------------------------- rules

def _box_cells(r, c):
    r0, c0 = 3 * (r // 3), 3 * (c // 3)
    return [(r0 + i, c0 + j) for i in range(3) for j in range(3)]


def _legal_one(board, r, c, d):
    if board[r, c] != -1:
        return False
    for k in range(N):
        if board[r, k] == d or board[k, c] == d:
            return False
    return all(board[i, j] != d for i, j in _box_cells(r, c))


def _legal_all(board):
    board = np.asarray(board)
    m = np.zeros((N, N, N), bool)
    for r in range(N):
        for c in range(N):
            if board[r, c] != -1:
                continue
            seen = set(int(x) for x in board[r, :]) | set(int(x) for x in board[:, c]) | set(int(board[i, j]) for i, j in _box_cells(r, c))
            for d in range(N):
                m[r, c, d] = d not in seen
    return m


def _units():
    u = [[(r, c) for c in range(N)] for r in range(N)]
    u += [[(r, c) for r in range(N)] for c in range(N)]
    u += [_box_cells(3 * i, 3 * j) for i in range(3) for j in range(3)]
    return u


UNITS = _units()


def _conflicts(board):
    """Units that contain a repeated digit, as strings."""
    bad = []
    for k, unit in enumerate(UNITS):
        vals = [int(board[r, c]) for r, c in unit if board[r, c] != -1]
        if len(set(vals)) != len(vals):
            kind = ("row", "column", "box")[k // 9]
            bad.append(f"{kind} {k % 9}")
    return bad


def _valid_complete(board):
    return all(sorted(int(board[r, c]) for r, c in unit) == list(range(N)) for unit in UNITS)


def legal(P, S, O):
    return _legal_all(S["board"])


def reaction(P, S, a, S2, ev, agent):
    if not ev.last:
        return "accepted"
    if float(ev.reward) == 1.0:
        return "accepted"  # solved
    if np.asarray(S2["action_mask"]).any():
        return "invalid"  # legal actions remain, so the episode can only have ended on the invalid-move branch
    return None  # dead end or invalid: undecidable from outside


def illegal_effect(P, S, a, S2, ev, agent):
    out = []
    P.hit("invalid_terminates")
    if not ev.last:
        out.append("invalid_terminates: an invalid action did not end the episode")
    if float(ev.reward) != 0.0:
        out.append(f"invalid_reward: reward {float(ev.reward)} != 0 for an invalid action")
    return out


def check_step(P, S, a, S2, reward, last, ev):
    out = []
    board = np.asarray(S["board"]).astype(np.int64)
    r, c, d = (int(x) for x in a)
    if not _legal_one(board, r, c, d):
        P.hit("ref_invalid_filled_cell" if board[r, c] != -1 else "ref_invalid_repeated_digit")
        if not last:
            out.append("ref_last: an invalid action must end the episode")
        if float(reward) != 0.0:
            out.append(f"ref_reward: reward {float(reward)} != 0 for an invalid action")
        return out
    P.hit("ref_valid_placement")
    exp = board.copy()
    exp[r, c] = d
    if not np.array_equal(S2["board"], exp):
        out.append(f"ref_board: successor board is not the old board with digit {d} written at {(r, c)}")
    remaining = bool(_legal_all(exp).any())
    complete = bool((exp != -1).all())
    solved = complete and _valid_complete(exp)
    if not remaining:
        P.hit("ref_solved" if solved else "ref_dead_end")
    if bool(last) != (not remaining):
        out.append(f"ref_last: last={bool(last)} but legal actions remaining={remaining}")
    if float(reward) != float(solved):
        out.append(f"ref_reward: reward {float(reward)} != {float(solved)} (valid complete grid: {solved})")
    return out


def hard_constraints(P, trace):
    out = []
    board = np.asarray(trace[-1].S["board"])
    P.hit("no_repeated_digit")
    if board.shape != (N, N) or board.min() < -1 or board.max() > 8:
        return [f"digits_in_range: board shape {board.shape} / values outside -1..8"]
    bad = _conflicts(board)
    if bad:
        out.append(f"no_repeated_digit: repeated digit in {', '.join(bad[:4])}")
    if len(trace) > 1:
        prev = np.asarray(trace[-2].S["board"])
        if ((prev != -1) & (prev != board)).any():
            out.append("filled_cells_kept: a filled cell changed its digit under legal play")
    return out


def complete(P, trace):
    board = np.asarray(trace[-1].S["board"])
    if (board == -1).any():
        return None  # dead end / invalid move: not a completion
    out = []
    P.hit("complete_grid")
    if not _valid_complete(board):
        out.append(f"complete_valid_grid: the full board is not a valid sudoku solution ({', '.join(_conflicts(board)[:4])})")
    clues = np.asarray(trace[0].S["board"])
    if ((clues != -1) & (clues != board)).any():
        out.append("complete_respects_clues: a given clue was changed")
    return out


# ------------------------------------------------------------------------------------------- solver (bit masks, MRV)

def solve(board, node_cap=400000):
    """Backtracking solver. Returns (solution or None, decided): decided False when the node cap was hit."""
    b = [[int(board[r][c]) for c in range(N)] for r in range(N)]
    rows, cols, boxes = [0] * N, [0] * N, [0] * N
    for r in range(N):
        for c in range(N):
            d = b[r][c]
            if d >= 0:
                bit = 1 << d
                if rows[r] & bit or cols[c] & bit or boxes[3 * (r // 3) + c // 3] & bit:
                    return None, True
                rows[r] |= bit
                cols[c] |= bit
                boxes[3 * (r // 3) + c // 3] |= bit
    empties = [(r, c) for r in range(N) for c in range(N) if b[r][c] < 0]
    nodes = [0]
    FULL = (1 << N) - 1

    def rec():
        nodes[0] += 1
        if nodes[0] > node_cap:
            raise TimeoutError
        best, best_opts, best_i = None, None, -1
        for i, (r, c) in enumerate(empties):
            if b[r][c] >= 0:
                continue
            opts = FULL & ~(rows[r] | cols[c] | boxes[3 * (r // 3) + c // 3])
            n = bin(opts).count("1")
            if n == 0:
                return False
            if best is None or n < best:
                best, best_opts, best_i = n, opts, i
                if n == 1:
                    break
        if best is None:
            return True
        r, c = empties[best_i]
        k = 3 * (r // 3) + c // 3
        for d in range(N):
            bit = 1 << d
            if best_opts & bit:
                b[r][c] = d
                rows[r] |= bit
                cols[c] |= bit
                boxes[k] |= bit
                if rec():
                    return True
                b[r][c] = -1
                rows[r] &= ~bit
                cols[c] &= ~bit
                boxes[k] &= ~bit
        return False

    try:
        ok = rec()
    except TimeoutError:
        return None, False
    return (np.array(b) if ok else None), True


_solv_cache = {}


def instance(P, S0, ev):
    out = []
    board = np.asarray(S0["board"])
    P.hit("clues_conflict_free")
    if board.shape != (N, N):
        return [f"board_shape: {board.shape} != (9, 9)"]
    if board.min() < -1 or board.max() > 8:
        out.append(f"digits_in_range: board values in [{int(board.min())}, {int(board.max())}], expected -1..8")
        return out
    bad = _conflicts(board)
    if bad:
        out.append(f"clues_conflict_free: repeated digit among the clues in {', '.join(bad[:4])}")
        return out
    if not (board == -1).any():
        out.append("puzzle_has_empty_cells: the generated puzzle is already full")
    key = board.tobytes()
    if key not in _solv_cache:
        _solv_cache[key] = solve(board)
    sol, decided = _solv_cache[key]
    if not decided:
        P.hit("solver_cap_hit")
    else:
        P.hit("solvable_checked")
        if sol is None:
            out.append("puzzle_solvable: the clue set admits no completion (backtracking search exhausted)")
    return out


def check_obs(P, S, O):
    out = []
    P.hit("obs_copies")
    if not np.array_equal(O["board"], S["board"]):
        out.append("obs_board: observation board != state board")
    if not np.array_equal(O["action_mask"], S["action_mask"]):
        out.append("obs_action_mask: observation mask != state mask")
    return out


# ------------------------------------------------------------------------------------------- synthetic (C09)

def synthetic(P, rng, tier):
    """sudoku.utils.get_action_mask / is_puzzle_solved / validate_board on generated boards: valid partial grids,
    grids with conflicts, full valid and full invalid grids."""
    import jax
    import jax.numpy as jnp
    from jumanji.environments.logic.sudoku import utils as su

    out = []
    nb = 40 if tier == "quick" else 300
    base = np.array([[(3 * (r % 3) + r // 3 + c) % 9 for c in range(9)] for r in range(9)])
    boards = []
    for i in range(nb):
        g = rng.permutation(9)[base]  # relabel digits
        g = g[np.concatenate([3 * b + rng.permutation(3) for b in rng.permutation(3)])]  # shuffle rows within bands
        g = g[:, np.concatenate([3 * b + rng.permutation(3) for b in rng.permutation(3)])]
        kind = i % 4
        if kind in (0, 1):
            holes = rng.random((9, 9)) < rng.uniform(0.05, 0.9)
            g = np.where(holes, -1, g)
        if kind in (1, 2):
            for _ in range(int(rng.integers(1, 4))):  # inject conflicts / wrong digits
                g[rng.integers(9), rng.integers(9)] = rng.integers(0, 9)
        boards.append(g)
    boards = np.array(boards, np.int32)
    masks = np.asarray(jax.jit(jax.vmap(su.get_action_mask))(jnp.asarray(boards)))
    solved = np.asarray(jax.jit(jax.vmap(su.is_puzzle_solved))(jnp.asarray(boards)))
    valid = np.asarray(jax.jit(jax.vmap(su.validate_board))(jnp.asarray(boards)))
    for i, g in enumerate(boards):
        P.hit("synthetic_boards")
        exp = _legal_all(g)
        if not np.array_equal(masks[i].astype(bool), exp):
            idx = np.argwhere(masks[i].astype(bool) != exp)
            out.append(f"synthetic_get_action_mask: {len(idx)} entries differ from the rule, first (r,c,d)={idx[0].tolist()} on board {g.tolist()}")
        exp_solved = bool((g != -1).all()) and _valid_complete(g)
        if bool(solved[i]) != exp_solved:
            out.append(f"synthetic_is_puzzle_solved: {bool(solved[i])} != {exp_solved} on board {g.tolist()}")
        if bool(valid[i]) != (not _conflicts(g)):
            out.append(f"synthetic_validate_board: {bool(valid[i])} but conflicts = {_conflicts(g)[:3]} on board {g.tolist()}")
        if len(out) > 8:
            break
    return out


# ------------------------------------------------------------------------------------------- policies

def _pol_complete(ctx):
    """Fill a random empty cell with the digit of a solution found by backtracking (privileged)."""
    board = np.asarray(ctx["state"].board)
    sol = ctx.get("sudoku_solution")
    if sol is None or ((board != -1) & (board != sol)).any():
        sol, _ = solve(board)
        ctx["sudoku_solution"] = sol
    empt = np.argwhere(board == -1)
    if sol is None or len(empt) == 0:
        m = np.argwhere(np.asarray(ctx["ts"].observation.action_mask))
        if len(m) == 0:
            ctx["legal_only"] = False
            return np.zeros(3, np.int32)
        return m[ctx["rng"].integers(len(m))].astype(np.int32)
    r, c = empt[ctx["rng"].integers(len(empt))]
    return np.asarray([r, c, sol[r, c]], np.int32)


def policies(P):
    return {"complete": _pol_complete}
