"""MultiCVRP — independent NumPy statement of the rules (DESIGN §4; docs/environments/multi_cvrp.md, types.py and
generator docstrings).

Per vehicle the action is the next node: customer c is legal iff 0 < demand[c] <= remaining capacity of the
vehicle; the depot (node 0) is always legal. Illegal choices, and all but (at most) one of several vehicles
choosing the same customer, are redirected to the depot. Visiting a customer serves its whole demand (demand
becomes 0, the vehicle's capacity shrinks by it); the depot restores the full capacity. The episode ends when
all demand is served and every vehicle is back at the depot, or at the step limit: the counter starts at 1 and
the episode stops once it exceeds 2*num_customers, i.e. on step number 2*num_customers (the `order` buffer is
2*num_customers wide: "worst-case when hitting the max step length").
The observation is a copy of the state fields plus the coordinates of the node each vehicle stands on (types.py;
the `other_vehicles_*` fields listed in the markdown do not exist in the Observation type).
The action spec admits num_customers+1, one beyond the mask: not judged (DESIGN §5, observation only).
"""
from __future__ import annotations

import collections

import numpy as np

# scenario table of the generator (data from the paper's settings, generator docstring): per num_customers
# (map_max, max_capacity, max_start_window, {num_vehicles: customer_demand_max}); time window length 20,
# early coefficient range (0, 0.2), late coefficient range (0, 1).
SCENARIOS = {
    6: (10.0, 20, 10.0, {2: 10, 3: 20}),
    20: (10.0, 60, 10.0, {2: 10, 3: 15}),
    50: (20.0, 150, 20.0, {2: 10, 3: 15, 4: 20, 5: 25}),
    100: (20.0, 300, 40.0, {2: 10, 3: 15, 4: 20, 5: 25}),
}
WINDOW_LENGTH = 20.0
EARLY_RANGE = (0.0, 0.2)
LATE_RANGE = (0.0, 1.0)


def params(cfg):
    n, v = cfg.get("customers", 20), cfg.get("vehicles", 2)
    map_max, cap, max_start, dmax = SCENARIOS[n]
    return {"customers": n, "vehicles": v, "map_max": map_max, "capacity": cap, "max_start_window": max_start,
            "demand_max": dmax[v], "reward": cfg.get("reward", "dense")}


def RANDOM_GENERATOR(cfg):
    return True


def horizon(P):
    return 2 * P.params["customers"]


# ------------------------------------------------------------------------------------------------ C04

def _legal_table(demands, capacities):
    d = demands.astype(np.int64)
    V, N = len(capacities), len(d)
    L = np.zeros((V, N), bool)
    for v in range(V):
        for c in range(1, N):
            L[v, c] = 0 < d[c] <= int(capacities[v])
        L[v, 0] = True
    return L


def legal(P, S, O):
    return _legal_table(S["nodes.demands"], S["vehicles.capacities"])


def reaction(P, S, a, S2, ev, agent):
    v = int(agent)
    act = np.asarray(a).astype(np.int64)
    c = int(act[v])
    at = int(S2["vehicles.positions"][v])
    if c == 0:
        return "accepted"
    if at == c:
        return "accepted"
    if sum(1 for w in range(len(act)) if int(act[w]) == c) >= 2:
        return None  # several vehicles chose this customer: a redirection is the documented tie resolution
    return "invalid"  # redirected to the depot


# ------------------------------------------------------------------------------------------------ C06

def _replay(P, trace):
    """Shadow bookkeeping recomputed from the reset instance and the trajectory of vehicle positions."""
    S0 = trace[0].S
    cap = int(S0["vehicles.capacities"].max())
    d0 = S0["nodes.demands"].astype(np.int64)
    V = len(S0["vehicles.positions"])
    load = [0] * V
    served = {}
    out = []
    stats = collections.Counter()
    for e in trace[1:]:
        act = np.asarray(e.action).astype(np.int64)
        dest = e.S["vehicles.positions"].astype(np.int64)
        custs = [int(x) for x in dest if x != 0]
        if len(set(custs)) != len(custs):
            out.append(f"unique_destination: step {e.t}: two vehicles arrived at the same customer: {dest.tolist()}")
        choice = collections.Counter(int(x) for x in act if x != 0)
        for v in range(V):
            d, c = int(dest[v]), int(act[v])
            if c != 0 and choice[c] >= 2:
                stats["duplicate_choice"] += 1
                if d not in (0, c):
                    out.append(f"duplicate_choice_resolved: step {e.t}: vehicle {v} chose contested customer {c} and arrived at {d}")
            elif d != c:
                out.append(f"legal_choice_honoured: step {e.t}: vehicle {v} chose masked-in node {c} and arrived at {d}")
            if d == 0:
                if load[v] > 0:
                    stats["depot_refill"] += 1
                load[v] = 0
                continue
            if d in served:
                out.append(f"customer_served_once: step {e.t}: customer {d} visited by vehicle {v} was already served at step {served[d][0]} by vehicle {served[d][1]}")
            elif d0[d] == 0:
                out.append(f"customer_served_once: step {e.t}: vehicle {v} visited customer {d} that has no demand")
            served.setdefault(d, (e.t, v))
            load[v] += int(d0[d])
            stats["customer_served"] += 1
            if load[v] > cap:
                out.append(f"capacity_never_exceeded: step {e.t}: vehicle {v} carries {load[v]} > capacity {cap} since its last depot visit")
        for c, k in choice.items():
            if k >= 2 and sum(1 for x in dest if int(x) == c) > 1:
                out.append(f"duplicate_choice_resolved: step {e.t}: {k} vehicles chose customer {c} and more than one arrived")
    return load, served, cap, d0, out, stats


def hard_constraints(P, trace):
    load, served, cap, d0, out, stats = _replay(P, trace)
    S = trace[-1].S
    P.hit("routes_checked")
    for k in ("duplicate_choice", "depot_refill", "customer_served"):
        delta = stats[k] - P.shadow.get("n_" + k, 0)  # P.shadow lives for one episode
        if delta > 0:
            P.hit(k, delta)
        P.shadow["n_" + k] = stats[k]
    caps = S["vehicles.capacities"].astype(np.int64)
    for v in range(len(load)):
        if caps[v] < 0 or caps[v] > cap:
            out.append(f"capacity_never_exceeded: state capacity of vehicle {v} is {int(caps[v])}, outside [0, {cap}]")
        if int(caps[v]) != cap - load[v]:
            out.append(f"capacity_bookkeeping: vehicle {v} has remaining capacity {int(caps[v])} but delivered {load[v]} of {cap} since its last depot visit")
    d = S["nodes.demands"].astype(np.int64)
    exp = d0.copy()
    for c in served:
        exp[c] = 0
    if not np.array_equal(d, exp):
        bad = np.flatnonzero(d != exp)
        out.append(f"demand_bookkeeping: demands of nodes {bad[:6].tolist()} are {d[bad[:6]].tolist()}, expected {exp[bad[:6]].tolist()} from the visits so far")
    if not np.array_equal(S["nodes.coordinates"], trace[0].S["nodes.coordinates"]):
        out.append("instance_constant: node coordinates changed during the episode")
    return out


def _is_complete(S):
    return bool(S["nodes.demands"].sum() == 0 and (S["vehicles.positions"] == 0).all())


def complete(P, trace):
    S = trace[-1].S
    if not _is_complete(S):
        return None
    P.hit("completed_all_served")
    load, served, cap, d0, out, stats = _replay(P, trace)
    need = {int(c) for c in np.flatnonzero(d0 > 0)}
    if set(served) != need:
        out.append(f"complete_all_customers_served: customers with demand {sorted(need)[:10]} vs customers visited {sorted(served)[:10]}")
    if any(x != 0 for x in load):
        out.append("complete_all_at_depot: a vehicle still carries load although the episode completed")
    return out


# ------------------------------------------------------------------------------------------------ C08

def step_limit_reached(P, trace):
    """True when the last step of the trace is the step-limit step (number 2*num_customers)."""
    return len(trace) - 1 >= 2 * P.params["customers"]


def twin_qualifier(P, trace):
    """Qualifier for the dense-vs-sparse twin comparison: the two reward functions are documented to agree on
    completed episodes; on the step-limit step both replace the reward by a worst-case estimate."""
    return "step_limit_reached" if step_limit_reached(P, trace) else ""


def qualify(P, clause, ev):
    """Known-finding key (DESIGN §5 #11): on the step-limit step (number 2*num_customers) both reward functions
    replace the step reward by a worst-case estimate, so the dense return keeps the distance already paid and the
    sparse return does not; it also hits an episode that completes on that very step."""
    if clause == "dense_equals_sparse" and ev is not None and ev.t >= 2 * P.params["customers"]:
        return "step_limit_reached"
    return ""


def objective(P, trace):
    """-(total distance + time penalties) of an episode completed before the step limit (docs: "the negative of
    the length of the path chosen by all the agents combined. Time penalties are added ..."); None otherwise."""
    S = trace[-1].S
    if step_limit_reached(P, trace) or not _is_complete(S):
        return None
    S0 = trace[0].S
    xy = S0["nodes.coordinates"].astype(np.float64)
    ws, we = S0["windows.start"].astype(np.float64), S0["windows.end"].astype(np.float64)
    ce, cl = S0["coeffs.early"].astype(np.float64), S0["coeffs.late"].astype(np.float64)
    V = len(S0["vehicles.positions"])
    pos = S0["vehicles.positions"].astype(np.int64).copy()
    clock = np.zeros(V)
    dist = pen = 0.0
    for e in trace[1:]:
        dest = e.S["vehicles.positions"].astype(np.int64)
        for v in range(V):
            leg = float(np.linalg.norm(xy[pos[v]] - xy[dest[v]]))
            dist += leg
            clock[v] += leg  # speed 1: one unit of time per unit of distance
            if clock[v] < ws[dest[v]]:
                pen += (ws[dest[v]] - clock[v]) * ce[dest[v]]
            if clock[v] > we[dest[v]]:
                pen += (clock[v] - we[dest[v]]) * cl[dest[v]]
        pos = dest
    P.hit("objective_completed_route")
    return -(dist + pen)


# ------------------------------------------------------------------------------------------------ C10

def instance(P, S0, ev):
    out = []
    n, V = P.params["customers"], P.params["vehicles"]
    M, cap, dmax = P.params["map_max"], P.params["capacity"], P.params["demand_max"]
    xy = S0["nodes.coordinates"].astype(np.float64)
    d = S0["nodes.demands"].astype(np.int64)
    P.hit("instance_wellformed")
    if xy.shape != (n + 1, 2) or d.shape != (n + 1,):
        return [f"instance_shapes: coordinates {xy.shape}, demands {d.shape} for {n} customers"]
    if not np.all(np.isfinite(xy)) or xy.min() < 0.0 or xy.max() > M:
        out.append(f"coordinates_in_box: coordinates span [{xy.min()}, {xy.max()}], declared box [0, {M}]")
    if d[0] != 0:
        out.append(f"depot_demand_zero: depot demand is {int(d[0])}")
    if d[1:].min() < 0 or d[1:].max() > dmax:
        out.append(f"demands_in_range: customer demands span [{int(d[1:].min())}, {int(d[1:].max())}], declared maximum {dmax}")
    if d.max() > cap:
        out.append(f"demand_within_capacity: a demand of {int(d.max())} exceeds the vehicle capacity {cap}")
    if (d[1:] == 0).any():
        P.hit("customer_with_zero_demand")  # docs say "between 1 and the maximum demand"; harmless, counted only
    caps = S0["vehicles.capacities"].astype(np.int64)
    if caps.shape != (V,) or not np.all(caps == cap):
        out.append(f"initial_capacities: vehicle capacities {caps.tolist()} != {cap}")
    if not np.all(S0["vehicles.positions"] == 0):
        out.append("vehicles_start_at_depot: a vehicle does not start at the depot")
    for f in ("vehicles.local_times", "vehicles.distances", "vehicles.time_penalties"):
        if np.any(S0[f] != 0):
            out.append(f"initial_counters: {f} not zero at reset")
    ws, we = S0["windows.start"].astype(np.float64), S0["windows.end"].astype(np.float64)
    if ws.min() < 0 or ws.max() > P.params["max_start_window"] or not np.allclose(we - ws, WINDOW_LENGTH, atol=1e-4):
        out.append(f"time_windows: starts span [{ws.min()}, {ws.max()}] (max {P.params['max_start_window']}), lengths span [{(we - ws).min()}, {(we - ws).max()}] (declared {WINDOW_LENGTH})")
    ce, cl = S0["coeffs.early"].astype(np.float64), S0["coeffs.late"].astype(np.float64)
    if ce.min() < EARLY_RANGE[0] or ce.max() > EARLY_RANGE[1] + 1e-6 or cl.min() < LATE_RANGE[0] or cl.max() > LATE_RANGE[1] + 1e-6:
        out.append("penalty_coefficients: early/late coefficients outside their declared ranges")
    if ce[0] != 0 or cl[0] != 0:
        out.append("depot_no_penalty: the depot carries a time-penalty coefficient")
    L = _legal_table(d, caps)
    if not np.array_equal(S0["action_mask"].astype(bool), L):
        out.append("initial_mask: the reset action mask is not the legal set of the instance")
    return out


# ------------------------------------------------------------------------------------------------ C12

def check_obs(P, S, O):
    out = []
    P.hit("obs_copies")
    for fo, fs in (("nodes.coordinates", "nodes.coordinates"), ("nodes.demands", "nodes.demands"), ("windows.start", "windows.start"),
                   ("windows.end", "windows.end"), ("coeffs.early", "coeffs.early"), ("coeffs.late", "coeffs.late"),
                   ("vehicles.capacities", "vehicles.capacities"), ("vehicles.local_times", "vehicles.local_times"), ("action_mask", "action_mask")):
        if O[fo].shape != S[fs].shape or not np.array_equal(O[fo], S[fs]):
            out.append(f"obs_copy_{fo.replace('.', '_')}: observation field {fo} differs from the state field {fs}")
    pos = S["vehicles.positions"].astype(np.int64)
    if pos.max() >= len(S["nodes.coordinates"]) or pos.min() < 0:
        # the in-spec action num_customers+1 (one beyond the mask) leaves the vehicle on a non-existent node;
        # DESIGN §5 records the over-wide action spec as an observation, so the view of such a state is not judged
        P.hit("position_beyond_last_node_not_judged")
        return out
    exp = S["nodes.coordinates"][pos]
    if (pos != 0).any():
        P.hit("obs_vehicle_away_from_depot")
    if O["vehicles.coordinates"].shape != exp.shape or not np.array_equal(O["vehicles.coordinates"], exp):
        out.append(f"obs_vehicle_coordinates: vehicles stand on nodes {pos.tolist()} but the observed coordinates are {O['vehicles.coordinates'].tolist()}, expected {exp.tolist()}")
    return out


# ------------------------------------------------------------------------------------------------ policies

def _mask(ctx):
    return np.asarray(ctx["ts"].observation.action_mask).astype(bool)


def pol_collide(ctx):
    """All vehicles pick the same masked-in customer whenever one is legal for at least two of them."""
    rng = ctx["rng"]
    M = _mask(ctx)
    V = M.shape[0]
    act = np.zeros(V, np.int64)
    common = np.flatnonzero(M[:, 1:].sum(axis=0) >= 2) + 1
    if len(common) and rng.random() < 0.7:
        c = int(rng.choice(common))
        for v in range(V):
            if M[v, c]:
                act[v] = c
            else:
                idx = np.flatnonzero(M[v])
                act[v] = int(rng.choice(idx))
        return act.astype(np.int16)
    for v in range(V):
        act[v] = int(rng.choice(np.flatnonzero(M[v])))
    return act.astype(np.int16)


def _assign(ctx, nearest=False):
    M = _mask(ctx)
    V = M.shape[0]
    xy = np.asarray(ctx["state"].nodes.coordinates, np.float64)
    pos = np.asarray(ctx["state"].vehicles.positions).astype(np.int64)
    act = np.zeros(V, np.int64)
    taken = set()
    for v in range(V):
        opts = [int(c) for c in np.flatnonzero(M[v, 1:]) + 1 if int(c) not in taken]
        if opts:
            c = min(opts, key=lambda c: np.linalg.norm(xy[c] - xy[pos[v]])) if nearest else opts[0]
            act[v] = c
            taken.add(c)
    return act.astype(np.int16)


def pol_complete(ctx):
    """Distinct masked-in customers in index order, depot when nothing fits: serves everything and returns."""
    return _assign(ctx, nearest=False)


def pol_greedy(ctx):
    """The slowest legal way to finish (adversarial fill order "always-depot"): vehicle 0 alone drives to the
    nearest masked-in customer and returns to the depot after every single customer, the others wait at the
    depot. Needs two steps per customer with demand, so it reaches the step limit 2*num_customers exactly when
    every customer has demand (the completion/limit boundary) and finishes earlier otherwise."""
    M = _mask(ctx)
    V = M.shape[0]
    xy = np.asarray(ctx["state"].nodes.coordinates, np.float64)
    pos = np.asarray(ctx["state"].vehicles.positions).astype(np.int64)
    act = np.zeros(V, np.int64)
    if pos[0] == 0:
        opts = [int(c) for c in np.flatnonzero(M[0, 1:]) + 1]
        if opts:
            act[0] = min(opts, key=lambda c: np.linalg.norm(xy[c] - xy[0]))
    return act.astype(np.int16)


def pol_lazy(ctx):
    """Nobody ever leaves the depot (the depot is always legal): the tour is never finished, so the episode can only
    end through the step limit."""
    V = _mask(ctx).shape[0]
    return np.zeros(V, np.int16)


def policies(P):
    return {"collide": pol_collide, "complete": pol_complete, "greedy": pol_greedy, "lazy": pol_lazy}


def key_score(P, S0):
    """Workload hint (not an oracle): instances whose depot lies far from the customers make the shuttle policies
    accumulate the largest distances / local times, i.e. they come closest to the declared observation bounds."""
    xy = np.asarray(S0["nodes.coordinates"], np.float64)
    return float(np.linalg.norm(xy[1:] - xy[0], axis=1).sum())
