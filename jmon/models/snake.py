"""Snake — independent NumPy statement of the rules (DESIGN §4; docs/environments/snake.md, class docstring).

Actions 0..3 = up, right, down, left. A move is legal iff the head stays on the board and does not enter a
body cell that is still occupied once the tail has advanced. Illegal move => LAST, reward 0. Eating the
fruit => reward 1, length + 1 (the tail does not advance), new fruit on a free cell. Ends: illegal move,
board full, time limit.
"""
from __future__ import annotations

import numpy as np

MOVES = [(-1, 0), (0, 1), (1, 0), (0, -1)]


def params(cfg):
    return {"rows": cfg.get("rows", 12), "cols": cfg.get("cols", 12), "time_limit": cfg.get("time_limit", 4000)}


def RANDOM_GENERATOR(cfg):
    return True


def time_limit(P):
    return P.params["time_limit"]


def _head(S):
    return int(S["head_position.row"]), int(S["head_position.col"])


def _fruit(S):
    return int(S["fruit_position.row"]), int(S["fruit_position.col"])


def _legal_move(P, S, a):
    R, C = P.params["rows"], P.params["cols"]
    r, c = _head(S)
    nr, nc = r + MOVES[a][0], c + MOVES[a][1]
    if not (0 <= nr < R and 0 <= nc < C):
        return False
    # cells with order number >= 2 are still occupied after the tail (number 1) has advanced
    return not (S["body_state"][nr, nc] >= 2)


def legal(P, S, O):
    return np.array([_legal_move(P, S, a) for a in range(4)])


def _board_full(S):
    return bool(np.all(S["body_state"] > 0))


def reaction(P, S, a, S2, ev, agent):
    if not ev.last:
        return "accepted"
    if _board_full(S2) or int(S2["step_count"]) >= P.params["time_limit"]:
        return None  # LAST has another explanation: undecidable from outside
    return "invalid"


def illegal_effect(P, S, a, S2, ev, agent):
    out = []
    P.hit("illegal_terminates")
    if not ev.last:
        out.append("illegal_terminates: illegal move did not end the episode")
    if float(ev.reward) != 0.0:
        out.append(f"illegal_reward: reward {float(ev.reward)} != 0 for an illegal move")
    return out


def check_step(P, S, a, S2, reward, last, ev):
    out = []
    a = int(a)
    R, C = P.params["rows"], P.params["cols"]
    ok = _legal_move(P, S, a)
    if int(S2["step_count"]) != int(S["step_count"]) + 1:
        out.append("step_count_increments: step_count did not increase by one")
    if not ok:
        P.hit("ref_illegal_move")
        if not last:
            out.append("ref_last: illegal move must end the episode")
        if float(reward) != 0.0:
            out.append("ref_reward: illegal move must give reward 0")
        return out
    P.hit("ref_legal_move")
    r, c = _head(S)
    nr, nc = r + MOVES[a][0], c + MOVES[a][1]
    eaten = (nr, nc) == _fruit(S)
    length = int(S["length"]) + int(eaten)
    bs = S["body_state"].astype(np.int64).copy()
    if not eaten:
        bs = np.clip(bs - 1, 0, None)
    bs[nr, nc] = length
    if eaten:
        P.hit("ref_fruit_eaten")
    if not np.array_equal(S2["body_state"], bs):
        out.append("ref_body_state: body order numbers differ from the reference move")
    if _head(S2) != (nr, nc):
        out.append(f"ref_head: head {_head(S2)} != expected {(nr, nc)}")
    if int(S2["length"]) != length:
        out.append(f"ref_length: length {int(S2['length'])} != expected {length}")
    if not np.array_equal(S2["body"], bs > 0) or not np.array_equal(S2["tail"], bs == 1):
        out.append("ref_body_tail_planes: body/tail planes do not match the order numbers")
    full = bool(np.all(bs > 0))
    if eaten and not full:
        fr, fc = _fruit(S2)
        if not (0 <= fr < R and 0 <= fc < C) or bs[fr, fc] > 0:
            out.append(f"ref_new_fruit_on_free_cell: new fruit at {(fr, fc)} is not a free cell")
    if not eaten and _fruit(S2) != _fruit(S):
        out.append("ref_fruit_unchanged: fruit moved although it was not eaten")
    if float(reward) != float(eaten):
        out.append(f"ref_reward: reward {float(reward)} != {float(eaten)}")
    exp_last = full or (int(S["step_count"]) + 1 >= P.params["time_limit"])
    if bool(last) != exp_last:
        out.append(f"ref_last: last={bool(last)} expected {exp_last} (board full={full})")
    return out


def physical(P, S_prev, a, S):
    out = []
    R, C = P.params["rows"], P.params["cols"]
    bs = S["body_state"]
    n = int(S["length"])
    r, c = _head(S)
    P.hit("snake_chain")
    if bs.shape != (R, C):
        return [f"grid_shape: body_state shape {bs.shape} != {(R, C)}"]
    if not (0 <= r < R and 0 <= c < C):
        return [f"head_in_grid: head {(r, c)} outside the {R}x{C} board"]
    vals = sorted(bs[bs > 0].tolist())
    if vals != list(range(1, n + 1)):
        out.append(f"body_numbered_1_to_length: order numbers {vals[:8]}... != 1..{n}")
        return out
    pos = {int(bs[i, j]): (i, j) for i in range(R) for j in range(C) if bs[i, j] > 0}
    if pos[n] != (r, c):
        out.append(f"head_is_highest_number: cell numbered {n} is {pos[n]}, head_position is {(r, c)}")
    for k in range(1, n):
        (i1, j1), (i2, j2) = pos[k], pos[k + 1]
        if abs(i1 - i2) + abs(j1 - j2) != 1:
            out.append(f"body_chain_adjacent: cells numbered {k} and {k + 1} are not adjacent")
            break
    if not np.array_equal(S["body"], bs > 0):
        out.append("body_plane_consistent: body != (body_state > 0)")
    if not np.array_equal(S["tail"], bs == 1):
        out.append("tail_plane_consistent: tail != (body_state == 1)")
    fr, fc = _fruit(S)
    if n < R * C:
        if not (0 <= fr < R and 0 <= fc < C):
            out.append(f"fruit_in_grid: fruit {(fr, fc)} outside the board")
        elif bs[fr, fc] > 0:
            out.append(f"fruit_off_body: fruit {(fr, fc)} lies on the snake")
    return out


OBJECTIVE_HOLDS_ON_PREFIX = True  # the objective is a running quantity: valid after every step of a legal episode


def objective(P, trace):
    P.hit("fruits_eaten")
    return float(int(trace[-1].S["length"]) - 1)


def instance(P, S0, ev):
    out = []
    R, C = P.params["rows"], P.params["cols"]
    out.extend(physical(P, None, None, S0))
    if int(S0["length"]) != 1 or int(S0["step_count"]) != 0:
        out.append("initial_counters: length != 1 or step_count != 0 at reset")
    if R * C > 1 and _fruit(S0) == _head(S0):
        out.append("fruit_not_on_head: fruit spawned on the head")
    P.hit("snake_instance")
    return out


def other_end_reason(P, S_prev, a, S, ev):
    return (not _legal_move(P, S_prev, int(a))) or _board_full(S)


def check_obs(P, S, O):
    out = []
    bs = S["body_state"].astype(np.float64)
    R, C = bs.shape
    head = np.zeros((R, C))
    r, c = _head(S)
    if 0 <= r < R and 0 <= c < C:
        head[r, c] = 1
    fruit = np.zeros((R, C))
    fr, fc = _fruit(S)
    if 0 <= fr < R and 0 <= fc < C:
        fruit[fr, fc] = 1
    inside = (0 <= r < R and 0 <= c < C) and (0 <= fr < R and 0 <= fc < C)
    exp = np.stack([(bs > 0).astype(float), head, (bs == 1).astype(float), fruit, bs / max(1.0, bs.max())], -1)
    g = O["grid"].astype(np.float64)
    P.hit("snake_planes")
    if g.shape != exp.shape:
        return [f"obs_grid_shape: {g.shape} != {exp.shape}"]
    names = ["body", "head", "tail", "fruit", "norm_body_state"]
    for k in range(5):
        if k in (1, 3) and not inside:
            continue  # head/fruit outside the board only happens in terminal states of illegal moves
        if not np.allclose(g[..., k], exp[..., k], atol=1e-6):
            out.append(f"obs_plane_{names[k]}: feature plane {k} differs from the state")
    if int(O["step_count"]) != int(S["step_count"]):
        out.append(f"obs_step_count: observation {int(O['step_count'])} != state {int(S['step_count'])}")
    if not np.array_equal(O["action_mask"], S["action_mask"]):
        out.append("obs_action_mask: observation mask != state mask")
    return out


# ------------------------------------------------------------------------------------------------ policies

def _hamiltonian_cycle(R, C):
    """next cell of each cell along a Hamiltonian cycle of the R x C board (None when both dimensions are odd or < 2)."""
    if R < 2 or C < 2 or (R % 2 == 1 and C % 2 == 1):
        return None
    transpose = R % 2 == 1  # the construction needs an even number of rows
    r_, c_ = (C, R) if transpose else (R, C)
    order = []
    for r in range(r_):
        cols = range(1, c_) if r % 2 == 0 else range(c_ - 1, 0, -1)
        order.extend((r, c) for c in cols)
    order.extend((r, 0) for r in range(r_ - 1, -1, -1))
    if transpose:
        order = [(c, r) for r, c in order]
    return {order[i]: order[(i + 1) % len(order)] for i in range(len(order))}


def policies(P):
    R, C = P.params["rows"], P.params["cols"]
    nxt = _hamiltonian_cycle(R, C)
    if nxt is None:
        return {}

    def perfect(ctx):
        """Follows a Hamiltonian cycle of the board: never dies, eats every fruit, ends by filling the whole board."""
        st = ctx["state"]
        h = (int(st.head_position.row), int(st.head_position.col))
        t = nxt[h]
        d = (t[0] - h[0], t[1] - h[1])
        return np.asarray(MOVES.index(d), np.int32)

    return {"complete": perfect}
