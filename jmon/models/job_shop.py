"""JobShop — independent NumPy statement of the rules (DESIGN §4; docs/environments/job_shop.md, class docstring).

Joint action: one entry per machine, value j < J = "start the next operation of job j on this machine",
value J = no-op. Per machine m: no-op is always legal; job j is legal <=> m is idle (remaining time 0) and j is
unfinished and j's next operation needs m and j is not being processed anywhere. A joint action is invalid iff
some component is masked out => LAST, reward -J*O*D (the state is not promised to be preserved). If all machines
are idle after the step (everybody chose no-op and nothing was running) => LAST with the same penalty: that is
the documented "simultaneously idle" termination, not an invalid move. Otherwise reward -1, and LAST when every
operation has been scheduled and nothing is running any more. An operation scheduled at step t with duration d
occupies its machine during [t, t+d), so the return of a completed episode is -makespan.

Two machines choosing the same job in one joint action: the job's next operation needs exactly one machine, so
at most one of the two components can be masked in; by the rule above the joint action is invalid.
"""
from __future__ import annotations

import numpy as np


def params(cfg):
    if cfg.get("gen") == "toy":
        J, M, O, D = 5, 4, 4, 4
    else:
        J, M, O, D = cfg.get("jobs", 20), cfg.get("machines", 10), cfg.get("ops", 8), cfg.get("dur", 6)
    return {"J": int(J), "M": int(M), "O": int(O), "D": int(D), "toy": cfg.get("gen") == "toy"}


def RANDOM_GENERATOR(cfg):
    return cfg.get("gen") != "toy"


def horizon(P):
    # every non-final step processes at least one unit of work and the total work is sum(durations) <= J*O*D
    # (the documented upper bound of the makespan); the instance-specific bound sum(durations)+1 is enforced
    # transition by transition in check_step (clause ref_clock_within_total_work)
    p = P.params
    return p["J"] * p["O"] * p["D"] + 1


def _penalty(P):
    p = P.params
    return -float(p["J"] * p["O"] * p["D"])


def _next_op(S, j):
    """Index of job j's next operation (the first True of its ops_mask row) or None when the job is finished."""
    for o, todo in enumerate(S["ops_mask"][j]):
        if todo:
            return o
    return None


def _job_running(S, j):
    mj, rt = S["machines_job_ids"], S["machines_remaining_times"]
    for k in range(len(mj)):
        if int(mj[k]) == j and int(rt[k]) > 0:
            return True
    return False


def _why_illegal(P, S, m, j):
    """None when machine m may start job j, otherwise the reason."""
    if int(S["machines_remaining_times"][m]) > 0:
        return "busy_machine"
    o = _next_op(S, j)
    if o is None:
        return "job_finished"
    if int(S["ops_machine_ids"][j, o]) != m:
        return "wrong_machine"
    if _job_running(S, j):
        return "job_running"
    return None


def legal(P, S, O):
    J, M = P.params["J"], P.params["M"]
    L = np.zeros((M, J + 1), bool)
    L[:, J] = True
    for m in range(M):
        for j in range(J):
            L[m, j] = _why_illegal(P, S, m, j) is None
    return L


def _all_idle_step(P, S, a):
    """Every machine chose no-op and nothing was running: all machines are idle after the step."""
    J = P.params["J"]
    return bool(np.all(np.asarray(a) == J)) and bool(np.all(S["machines_remaining_times"] == 0))


def reaction(P, S, a, S2, ev, agent):
    if not ev.last:
        return "accepted"
    if float(ev.reward) == -1.0:
        return "accepted"  # finished schedule
    if _all_idle_step(P, S, a):
        return None  # the documented idle penalty: not an invalid-move reaction, nothing to judge
    return "invalid"


def illegal_effect(P, S, a, S2, ev, agent):
    out = []
    J = P.params["J"]
    a = np.asarray(a)
    j = int(a[agent])
    why = _why_illegal(P, S, agent, j) if j < J else None
    P.hit("illegal_" + str(why))
    dup = [m for m in range(len(a)) if m != agent and int(a[m]) == j]
    if dup:
        P.hit("illegal_same_job_two_machines")
    if not ev.last:
        out.append(f"illegal_terminates: machine {agent} started job {j} illegally ({why}) and the episode continued")
    if float(ev.reward) != _penalty(P):
        out.append(f"illegal_reward: reward {float(ev.reward)} != -J*O*D = {_penalty(P)} ({why})")
    return out


def check_step(P, S, a, S2, reward, last, ev):
    out = []
    p = P.params
    J, M = p["J"], p["M"]
    a = [int(x) for x in np.asarray(a)]
    reward = float(reward)
    t = int(S["step_count"])
    bad = [(m, a[m], _why_illegal(P, S, m, a[m])) for m in range(M) if a[m] != J]
    bad = [b for b in bad if b[2] is not None]
    if bad:
        P.hit("ref_invalid_joint_action")
        if len(set(x for x in a if x != J)) < len([x for x in a if x != J]):
            P.hit("ref_same_job_two_machines")
        if not last:
            out.append(f"ref_last: joint action with illegal components {bad[:3]} must end the episode")
        if reward != _penalty(P):
            out.append(f"ref_reward: invalid joint action reward {reward} != {_penalty(P)}")
        return out
    P.hit("ref_legal_joint_action")
    mj = S["machines_job_ids"].astype(np.int64).copy()
    rt = S["machines_remaining_times"].astype(np.int64).copy()
    todo = S["ops_mask"].astype(bool).copy()
    sched = S["scheduled_times"].astype(np.int64).copy()
    dur = S["ops_durations"].astype(np.int64)
    started = 0
    for m in range(M):
        if a[m] != J:
            j = a[m]
            o = _next_op(S, j)
            sched[j, o] = t          # scheduled at the current time: occupies [t, t + d)
            todo[j, o] = False
            mj[m] = j
            rt[m] = dur[j, o] - 1    # one unit is processed during this step
            started += 1
        elif rt[m] > 0:
            rt[m] -= 1               # keeps working on its job
            P.hit("ref_busy_machine_waits")
        else:
            mj[m] = J                # idle and stays idle
    if started:
        P.hit("ref_operation_started", started)
    idle_end = _all_idle_step(P, S, a)
    finished = (not todo.any()) and bool(np.all(rt == 0))
    if all(x == J for x in a) and not idle_end:
        P.hit("ref_all_noop_while_running")
    if int(S2["step_count"]) != t + 1:
        out.append(f"ref_clock: step_count {int(S2['step_count'])} != {t + 1}")
    if not np.array_equal(S2["machines_remaining_times"].astype(np.int64), rt):
        out.append(f"ref_remaining_times: {S2['machines_remaining_times'].tolist()} != expected {rt.tolist()}")
    if not np.array_equal(S2["machines_job_ids"].astype(np.int64), mj):
        out.append(f"ref_machines_job_ids: {S2['machines_job_ids'].tolist()} != expected {mj.tolist()}")
    if not np.array_equal(S2["ops_mask"].astype(bool), todo):
        out.append("ref_ops_mask: remaining-operations mask differs from the reference")
    if not np.array_equal(S2["scheduled_times"].astype(np.int64), sched):
        out.append("ref_scheduled_times: scheduled_times differ from the reference (operation started at the current step_count)")
    if not (np.array_equal(S2["ops_durations"], S["ops_durations"]) and np.array_equal(S2["ops_machine_ids"], S["ops_machine_ids"])):
        out.append("ref_instance_constant: the instance (machine ids / durations) changed during the episode")
    exp_last = idle_end or finished
    exp_reward = _penalty(P) if idle_end else -1.0
    if idle_end:
        P.hit("ref_all_machines_idle")
    if finished:
        P.hit("ref_schedule_finished")
    if bool(last) != exp_last:
        out.append(f"ref_last: last={bool(last)} expected {exp_last} (idle={idle_end}, finished={finished})")
    if reward != exp_reward:
        out.append(f"ref_reward: reward {reward} != expected {exp_reward} (idle={idle_end})")
    total_work = int(dur[S["ops_machine_ids"] >= 0].sum())
    if not exp_last and t + 1 > total_work:
        out.append(f"ref_clock_within_total_work: still running at step {t + 1} > total work {total_work}")
    return out


def _schedule_problems(P, S, require_all):
    """Precedence, per-machine and per-job overlap of the operations scheduled so far (raw arrays only)."""
    out = []
    J, M, O = P.params["J"], P.params["M"], P.params["O"]
    mach, dur, sched = S["ops_machine_ids"], S["ops_durations"], S["scheduled_times"]
    per_machine = {m: [] for m in range(M)}
    for j in range(J):
        prev_end, prev_scheduled = 0, True
        job_iv = []
        for o in range(O):
            if int(mach[j, o]) < 0:
                if int(sched[j, o]) >= 0:
                    out.append(f"padding_never_scheduled: padded op ({j},{o}) has a scheduled time")
                continue
            s = int(sched[j, o])
            if s < 0:
                prev_scheduled = False
                if require_all:
                    out.append(f"all_ops_scheduled: op ({j},{o}) was never scheduled")
                continue
            if not prev_scheduled:
                out.append(f"job_precedence: op ({j},{o}) is scheduled although an earlier op of job {j} is not")
            if s < prev_end:
                out.append(f"job_precedence: op ({j},{o}) starts at {s} before the previous op of the job ends at {prev_end}")
            e = s + int(dur[j, o])
            job_iv.append((s, e, o))
            prev_end = max(prev_end, e)
            if 0 <= int(mach[j, o]) < M:
                per_machine[int(mach[j, o])].append((s, e, j, o))
            else:
                out.append(f"machine_id_in_range: op ({j},{o}) needs machine {int(mach[j, o])}")
        job_iv.sort()
        for x, y in zip(job_iv, job_iv[1:]):
            if y[0] < x[1]:
                out.append(f"job_no_overlap: ops {x[2]} and {y[2]} of job {j} overlap in time ({x[:2]} / {y[:2]})")
    for m, iv in per_machine.items():
        iv.sort()
        for x, y in zip(iv, iv[1:]):
            if y[0] < x[1]:
                out.append(f"machine_no_overlap: machine {m} runs ops {x[2:]} [{x[0]},{x[1]}) and {y[2:]} [{y[0]},{y[1]}) at the same time")
    return out


def _mask_respecting(ev):
    """Was every component of the joint action of step event `ev` offered by the mask the agent saw?"""
    O0 = ev.O0
    if O0 is None or "action_mask" not in O0:
        return True
    m = np.asarray(O0["action_mask"]).astype(bool)
    a = [int(x) for x in np.asarray(ev.action)]
    return all(0 <= a[k] < m.shape[1] and bool(m[k, a[k]]) for k in range(len(a)))


def hard_constraints(P, trace):
    out = []
    J, M = P.params["J"], P.params["M"]
    sh = P.shadow
    if "n_seen" not in sh:
        sh.update(n_seen=1, busy={m: [] for m in range(M)}, jobs={j: [] for j in range(J)}, started=[])
    for ev in trace[sh["n_seen"]:]:
        if not _mask_respecting(ev):
            sh["void"] = True
        if sh.get("void"):
            break
        S0 = ev.S0
        t = int(S0["step_count"])
        a = [int(x) for x in np.asarray(ev.action)]
        for m in range(M):
            if a[m] == J:
                continue
            j = a[m]
            o = _next_op(S0, j)
            if o is None:
                out.append(f"shadow_job_unfinished: machine {m} started job {j} which has no operation left")
                continue
            d = int(S0["ops_durations"][j, o])
            P.hit("op_start_recorded")
            for (s, e, jj, oo) in sh["busy"][m]:
                if t < e and s < t + d:
                    out.append(f"machine_no_overlap: machine {m} starts op ({j},{o}) at {t} while busy with ({jj},{oo}) during [{s},{e})")
            for (s, e, mm, oo) in sh["jobs"][j]:
                if t < e and s < t + d:
                    out.append(f"job_no_overlap: job {j} op {o} starts at {t} on machine {m} while its op {oo} runs on machine {mm} during [{s},{e})")
                if oo >= o:
                    out.append(f"job_precedence: job {j} op {o} started after op {oo}")
            if int(S0["ops_machine_ids"][j, o]) != m:
                out.append(f"op_on_required_machine: op ({j},{o}) needs machine {int(S0['ops_machine_ids'][j, o])} but was started on {m}")
            sh["busy"][m].append((t, t + d, j, o))
            sh["jobs"][j].append((t, t + d, m, o))
            sh["started"].append((j, o, t))
    sh["n_seen"] = len(trace)
    if sh.get("void"):
        return []  # a masked-out action was played: outside the statement from here on
    S = trace[-1].S
    out.extend(_schedule_problems(P, S, require_all=False))
    # the state's schedule must be the one the monitor saw being built
    sched = S["scheduled_times"]
    for (j, o, t) in sh["started"]:
        if int(sched[j, o]) != t:
            out.append(f"schedule_matches_actions: op ({j},{o}) was started at step {t} but scheduled_times says {int(sched[j, o])}")
            break
    if int((sched >= 0).sum()) != len(sh["started"]):
        out.append(f"schedule_matches_actions: {int((sched >= 0).sum())} ops have a scheduled time, {len(sh['started'])} were started")
    return out


def _all_scheduled(S):
    return not bool(S["ops_mask"].any())


def complete(P, trace):
    if not all(_mask_respecting(e) for e in trace[1:]):
        return None
    S = trace[-1].S
    if not _all_scheduled(S):
        return None  # ended by the idle penalty (an idle ending always leaves operations unscheduled)
    P.hit("schedule_complete")
    out = _schedule_problems(P, S, require_all=True)
    if bool(np.any(S["machines_remaining_times"] != 0)):
        out.append("complete_nothing_running: the episode ended while a machine is still processing")
    return out


def objective(P, trace):
    if not all(_mask_respecting(e) for e in trace[1:]):
        return None
    S = trace[-1].S
    if not _all_scheduled(S) or bool(np.any(S["machines_remaining_times"] != 0)):
        return None  # idle-penalty endings (operations left over) have no objective value in the property statement
    real = S["ops_machine_ids"] >= 0
    if bool(np.any(S["scheduled_times"][real] < 0)):
        return None
    P.hit("makespan")
    ends = S["scheduled_times"].astype(np.int64) + S["ops_durations"].astype(np.int64)
    return -float(ends[real].max()) if real.any() else 0.0


TOY_MACHINES = [[2, 3, 1, 2], [3, 2, 0, -1], [1, 3, -1, -1], [0, 3, 0, 0], [1, 0, 1, -1]]
TOY_DURATIONS = [[2, 2, 1, 2], [2, 4, 1, -1], [2, 3, -1, -1], [4, 1, 1, 1], [3, 1, 2, -1]]


def instance(P, S0, ev):
    out = []
    p = P.params
    J, M, O, D = p["J"], p["M"], p["O"], p["D"]
    mach, dur = S0["ops_machine_ids"], S0["ops_durations"]
    P.hit("job_shop_instance")
    if mach.shape != (J, O) or dur.shape != (J, O):
        return [f"instance_shape: ops_machine_ids {mach.shape}, ops_durations {dur.shape} for J={J}, O={O}"]
    pad = mach == -1
    if np.any((mach < -1) | (mach >= M)):
        out.append(f"machine_ids_in_range: a machine id lies outside [-1, {M - 1}]")
    if np.any(dur[~pad] < 1) or np.any(dur[~pad] > D):
        out.append(f"durations_in_range: a real operation has a duration outside [1, {D}]")
    if not np.array_equal(pad, dur == -1):
        out.append("padding_consistent: machine id is -1 where the duration is not (or vice versa)")
    for j in range(J):
        row = pad[j]
        if np.any(row[:-1] & ~row[1:]):
            out.append(f"padding_is_suffix: job {j} has a real operation after a padded one")
            break
    if not np.array_equal(S0["ops_mask"].astype(bool), ~pad):
        out.append("initial_ops_mask: ops_mask at reset is not exactly the set of real operations")
    if np.any(S0["scheduled_times"] != -1):
        out.append("initial_nothing_scheduled: an operation has a scheduled time at reset")
    if np.any(S0["machines_remaining_times"] != 0) or np.any(S0["machines_job_ids"] != J):
        out.append("initial_machines_idle: a machine is not idle (no-op, remaining time 0) at reset")
    if int(S0["step_count"]) != 0:
        out.append("initial_clock: step_count != 0 at reset")
    if p["toy"]:
        if not (np.array_equal(mach, np.array(TOY_MACHINES)) and np.array_equal(dur, np.array(TOY_DURATIONS))):
            out.append("toy_instance: ToyGenerator did not return its documented instance")
    return out


def check_obs(P, S, O):
    out = []
    P.hit("job_shop_obs_copies")
    for f in ("ops_machine_ids", "ops_durations", "ops_mask", "machines_job_ids", "machines_remaining_times", "action_mask"):
        if not np.array_equal(O[f], S[f]):
            out.append(f"obs_{f}: observation {f} != state {f}")
    return out


def policies(P):
    J, M = P.params["J"], P.params["M"]

    def _mask(ctx):
        return np.asarray(ctx["ts"].observation.action_mask).astype(bool)

    def list_schedule(ctx):
        """Every idle machine starts a (random) startable job: always completes the schedule."""
        m = _mask(ctx)
        if "give_up_at" not in ctx:
            # one episode in five stops scheduling after a few steps and only waits: the running operations
            # finish and the documented "all machines idle" ending is reached with a partial schedule
            ctx["give_up_at"] = int(ctx["rng"].integers(1, 8)) if ctx["rng"].random() < 0.2 else None
        if ctx["give_up_at"] is not None and ctx["t"] >= ctx["give_up_at"]:
            return np.asarray([J] * M, np.int32)
        act = []
        for k in range(M):
            idx = np.flatnonzero(m[k, :J])
            act.append(int(ctx["rng"].choice(idx)) if len(idx) else J)
        return np.asarray(act, np.int32)

    def lazy(ctx):
        """Waits (all no-op) while something is running, and starts at most one job per step otherwise:
        exercises waiting steps and sparse schedules and still completes."""
        m = _mask(ctx)
        rt = np.asarray(ctx["state"].machines_remaining_times)
        act = [J] * M
        if (rt > 0).any() and ctx["rng"].random() < 0.6:
            return np.asarray(act, np.int32)
        cands = [(k, j) for k in range(M) for j in np.flatnonzero(m[k, :J])]
        if cands:
            k, j = cands[int(ctx["rng"].integers(len(cands)))]
            act[k] = int(j)
        return np.asarray(act, np.int32)

    def collide(ctx):
        """List scheduling, but sometimes a second machine grabs a job that another machine starts.
        If the mask itself offers one job to two machines that is played as a mask-respecting action."""
        m = _mask(ctx)
        for j in range(J):
            ks = np.flatnonzero(m[:, j])
            if len(ks) >= 2:
                act = [J] * M
                act[int(ks[0])] = act[int(ks[1])] = j
                return np.asarray(act, np.int32)
        act = list_schedule(ctx)
        if "dup_at" not in ctx:
            ctx["dup_at"] = int(ctx["rng"].integers(1, 12))
        if ctx["t"] >= ctx["dup_at"]:
            started = [k for k in range(M) if act[k] != J]
            others = [k for k in range(M) if act[k] == J]
            if started and others:
                k = started[int(ctx["rng"].integers(len(started)))]
                o = others[int(ctx["rng"].integers(len(others)))]
                act[o] = act[k]
                ctx["legal_only"] = False
        return act

    return {"complete": list_schedule, "greedy": lazy, "collide": collide}
