"""Maze — independent NumPy statement of the rules (DESIGN §4; docs/environments/maze.md, class docstring).

walls[r, c] True = wall. Actions 0..3 = up, right, down, left. A move is legal iff the target cell lies inside the
rows x cols grid and is not a wall; an illegal move is a no-op (the agent stays, the episode goes on). Reward 1 on
the step that puts the agent on the target, else 0. Ends: target reached, no legal move left, time limit (the
constructor documents the default rows*cols; DESIGN §4/§3-C11 use that value, not the 2*rows*cols of the .md).
Instances: all free cells mutually reachable, start and target free and distinct.
"""
from __future__ import annotations

import numpy as np

from jmon.models._routing_grid import all_connected, bfs, first_step_towards

MOVES = [(-1, 0), (0, 1), (1, 0), (0, -1)]  # up, right, down, left


def params(cfg):
    if cfg.get("gen") == "toy":
        rows, cols = 5, 5
    else:
        rows, cols = cfg.get("rows", 10), cfg.get("cols", 10)
    return {"rows": rows, "cols": cols, "time_limit": cfg.get("time_limit") or rows * cols, "toy": cfg.get("gen") == "toy"}


def RANDOM_GENERATOR(cfg):
    return cfg.get("gen") != "toy"  # ToyGenerator is a hard-coded maze


def time_limit(P):
    return P.params["time_limit"]


def _agent(S):
    return int(S["agent_position.row"]), int(S["agent_position.col"])


def _target(S):
    return int(S["target_position.row"]), int(S["target_position.col"])


def _legal_move(P, S, a):
    R, C = P.params["rows"], P.params["cols"]
    w = S["walls"]
    r, c = _agent(S)
    nr, nc = r + MOVES[a][0], c + MOVES[a][1]
    if not (0 <= nr < R and 0 <= nc < C) or nr >= w.shape[0] or nc >= w.shape[1]:
        return False
    return not bool(w[nr, nc])


def legal(P, S, O):
    return np.array([_legal_move(P, S, a) for a in range(4)], bool)


def reaction(P, S, a, S2, ev, agent):
    a = int(a)
    r, c = _agent(S)
    if _agent(S2) == (r + MOVES[a][0], c + MOVES[a][1]):
        return "accepted"
    if _agent(S2) == (r, c):
        return "invalid"  # documented treatment: no-op
    return None


def _other_end(P, S):
    return _agent(S) == _target(S) or not legal(P, S, None).any()


def illegal_effect(P, S, a, S2, ev, agent):
    out = []
    P.hit("illegal_ignored")
    r, c = _agent(S)
    nr, nc = r + MOVES[int(a)][0], c + MOVES[int(a)][1]
    P.hit("illegal_into_wall" if (0 <= nr < P.params["rows"] and 0 <= nc < P.params["cols"]) else "illegal_out_of_grid")
    if _agent(S2) != _agent(S):
        out.append(f"illegal_agent_stays: agent moved from {_agent(S)} to {_agent(S2)} on an illegal action {int(a)}")
    if not np.array_equal(S2["walls"], S["walls"]) or _target(S2) != _target(S):
        out.append("illegal_world_untouched: walls or target changed on an illegal action")
    if ev.last and not (int(S2["step_count"]) >= P.params["time_limit"] or _other_end(P, S2)):
        out.append("illegal_does_not_terminate: the episode ended because of an illegal (ignored) move")
    return out


def check_step(P, S, a, S2, reward, last, ev):
    out = []
    a = int(a)
    ok = 0 <= a < 4 and _legal_move(P, S, a)
    r, c = _agent(S)
    exp = (r + MOVES[a][0], c + MOVES[a][1]) if ok else (r, c)
    P.hit("ref_legal_move" if ok else "ref_blocked_move")
    if _agent(S2) != exp:
        out.append(f"ref_agent_position: agent at {_agent(S2)} expected {exp} (action {a}, legal={ok})")
    if _target(S2) != _target(S):
        out.append("ref_target_constant: the target moved")
    if S2["walls"].shape != S["walls"].shape or not np.array_equal(S2["walls"], S["walls"]):
        out.append("ref_walls_constant: the walls changed")
    if int(S2["step_count"]) != int(S["step_count"]) + 1:
        out.append("step_count_increments: step_count did not increase by one")
    reached = exp == _target(S)
    if reached:
        P.hit("ref_target_reached")
    if float(reward) != float(reached):
        out.append(f"ref_reward: reward {float(reward)} != {float(reached)}")
    # no legal move from the new position (judged on the reference position)
    R, C = P.params["rows"], P.params["cols"]
    w = S["walls"]
    stuck = not any(0 <= exp[0] + dr < R and 0 <= exp[1] + dc < C and not w[exp[0] + dr, exp[1] + dc] for dr, dc in MOVES)
    limit = int(S["step_count"]) + 1 >= P.params["time_limit"]
    if limit:
        P.hit("ref_time_limit")
    exp_last = reached or stuck or limit
    if bool(last) != exp_last:
        out.append(f"ref_last: last={bool(last)} expected {exp_last} (target={reached}, no legal move={stuck}, limit={limit})")
    return out


def physical(P, S_prev, a, S):
    out = []
    R, C = P.params["rows"], P.params["cols"]
    w = S["walls"]
    P.hit("agent_on_free_cell")
    if w.shape != (R, C):
        return [f"grid_shape: walls shape {w.shape} != {(R, C)}"]
    for name, (r, c) in (("agent", _agent(S)), ("target", _target(S))):
        if not (0 <= r < R and 0 <= c < C):
            out.append(f"{name}_in_grid: {name} at {(r, c)} outside the {R}x{C} maze")
        elif bool(w[r, c]):
            out.append(f"{name}_not_on_wall: {name} at {(r, c)} is inside a wall")
        elif name == "agent" and (r == R - 1 or c == C - 1):
            P.hit("agent_in_last_row" if r == R - 1 else "agent_in_last_col")
    if S_prev is not None:
        P.hit("world_constant")
        if S_prev["walls"].shape != w.shape or not np.array_equal(S_prev["walls"], w):
            out.append("walls_constant: the walls changed during a step")
        if _target(S_prev) != _target(S):
            out.append("target_constant: the target moved during a step")
    return out


def instance(P, S0, ev):
    out = []
    R, C = P.params["rows"], P.params["cols"]
    w = S0["walls"]
    P.hit("maze_connected")
    if w.shape != (R, C):
        return [f"grid_shape: walls shape {w.shape} != {(R, C)}"]
    out.extend(physical(P, None, None, S0))
    if _agent(S0) == _target(S0):
        out.append(f"start_differs_from_target: agent and target both at {_agent(S0)}")
    free = ~w.astype(bool)
    ok, reached, n = all_connected(free)
    if not ok:
        out.append(f"maze_connected: only {reached} of {n} free cells are mutually reachable")
    ar, ac = _agent(S0)
    if 0 <= ar < R and 0 <= ac < C and free[ar, ac] and _target(S0) not in bfs(free, (ar, ac)):
        out.append("target_reachable: the target cannot be reached from the start")
    if int(S0["step_count"]) != 0:
        out.append("initial_counters: step_count != 0 at reset")
    if P.params["toy"]:
        P.hit("toy_instance")
        if _agent(S0) != (0, 0) or _target(S0) != (0, 4):
            out.append("toy_positions: toy maze start/target are not (0,0)/(0,4)")
    return out


def other_end_reason(P, S_prev, a, S, ev):
    return _other_end(P, S)


def check_obs(P, S, O):
    out = []
    P.hit("obs_copies")
    for f in ("agent_position.row", "agent_position.col", "target_position.row", "target_position.col", "step_count"):
        if int(O[f]) != int(S[f]):
            out.append(f"obs_{f.replace('.', '_')}: observation {int(O[f])} != state {int(S[f])}")
    for f in ("walls", "action_mask"):
        if O[f].shape != S[f].shape or not np.array_equal(O[f], S[f]):
            out.append(f"obs_{f}: observation field differs from the state")
    return out


# ------------------------------------------------------------------------------------------------ policies

def _np_state(ctx):
    st = ctx["state"]
    free = ~np.asarray(st.walls).astype(bool)
    return free, (int(st.agent_position.row), int(st.agent_position.col)), (int(st.target_position.row), int(st.target_position.col))


def pol_complete(ctx):
    free, pos, tgt = _np_state(ctx)
    k = first_step_towards(free, pos, lambda c: c == tgt, MOVES)
    return np.asarray(k if k is not None else 0, np.int32)


def pol_frontier(ctx):
    """Visit the extreme free cells (last row, last column, corners) avoiding the target; on arrival push against
    the border (an illegal move: the agent must stay), then go on to the next extreme cell."""
    free, pos, tgt = _np_state(ctx)
    R, C = free.shape
    if "mz_targets" not in ctx:
        cells = [(int(r), int(c)) for r, c in zip(*np.nonzero(free)) if (int(r), int(c)) != tgt]
        keyfns = [lambda rc: (rc[0], rc[1]), lambda rc: (rc[1], rc[0]), lambda rc: (rc[0] + rc[1], rc[1]), lambda rc: (rc[1], -rc[0]),
                  lambda rc: (rc[0], -rc[1]), lambda rc: (-rc[0], rc[1])]
        order = list(ctx["rng"].permutation(len(keyfns)))
        ctx["mz_targets"] = [max(cells, key=keyfns[i]) for i in order] if cells else []
        ctx["mz_bumped"] = False
    blocked = {tgt}
    while ctx["mz_targets"]:
        goal = ctx["mz_targets"][0]
        if pos == goal:
            if not ctx["mz_bumped"]:
                ctx["mz_bumped"] = True
                bad = [k for k, (dr, dc) in enumerate(MOVES) if not (0 <= pos[0] + dr < R and 0 <= pos[1] + dc < C)]
                bad = bad or [k for k, (dr, dc) in enumerate(MOVES) if not free[pos[0] + dr, pos[1] + dc]]
                if bad:
                    ctx["legal_only"] = False
                    return np.asarray(bad[int(ctx["rng"].integers(len(bad)))], np.int32)
            ctx["mz_targets"].pop(0)
            ctx["mz_bumped"] = False
            continue
        k = first_step_towards(free, pos, lambda c: c == goal, MOVES, blocked=blocked)
        if k is None:
            ctx["mz_targets"].pop(0)
            continue
        return np.asarray(k, np.int32)
    return pol_complete(ctx)


def policies(P):
    return {"complete": pol_complete, "frontier": pol_frontier}
