"""Small pure-Python grid helpers shared by the Cleaner / Maze / Sokoban / PacMan models (BFS only)."""
from __future__ import annotations

from collections import deque
from typing import Callable, Dict, Iterable, List, Optional, Tuple

import numpy as np

Cell = Tuple[int, int]
URDL = [(-1, 0), (0, 1), (1, 0), (0, -1)]  # up, right, down, left as (d_row, d_col)


def bfs(free: np.ndarray, start: Cell, wrap: bool = False, blocked: Optional[Iterable[Cell]] = None) -> Dict[Cell, int]:
    """Distances from `start` over 4-connected cells with free[r, c] true (optionally on a torus)."""
    R, C = free.shape
    bl = set(blocked or ())
    dist = {start: 0}
    dq = deque([start])
    while dq:
        r, c = dq.popleft()
        for dr, dc in URDL:
            nr, nc = r + dr, c + dc
            if wrap:
                nr, nc = nr % R, nc % C
            elif not (0 <= nr < R and 0 <= nc < C):
                continue
            if free[nr, nc] and (nr, nc) not in dist and (nr, nc) not in bl:
                dist[(nr, nc)] = dist[(r, c)] + 1
                dq.append((nr, nc))
    return dist


def all_connected(free: np.ndarray, wrap: bool = False) -> Tuple[bool, int, int]:
    """(are all free cells mutually reachable, number reached from the first free cell, number of free cells)."""
    cells = list(zip(*np.nonzero(free)))
    if not cells:
        return True, 0, 0
    d = bfs(free, (int(cells[0][0]), int(cells[0][1])), wrap)
    return len(d) == len(cells), len(d), len(cells)


def first_step_towards(free: np.ndarray, start: Cell, is_goal: Callable[[Cell], bool], moves: List[Cell], wrap: bool = False,
                       blocked: Optional[Iterable[Cell]] = None) -> Optional[int]:
    """Index into `moves` of the first move of a shortest path from start to the nearest goal cell (None if
    start is a goal or no goal is reachable)."""
    R, C = free.shape
    bl = set(blocked or ())
    if is_goal(start):
        return None
    first = {start: None}
    dq = deque([start])
    while dq:
        cur = dq.popleft()
        for k, (dr, dc) in enumerate(moves):
            nr, nc = cur[0] + dr, cur[1] + dc
            if wrap:
                nr, nc = nr % R, nc % C
            elif not (0 <= nr < R and 0 <= nc < C):
                continue
            n = (nr, nc)
            if not free[nr, nc] or n in first or n in bl:
                continue
            first[n] = k if first[cur] is None else first[cur]
            if is_goal(n):
                return first[n]
            dq.append(n)
    return None
