"""BinPack — independent NumPy statement of the rules (DESIGN §4; docs/environments/bin_pack.md, class docstring).

One container, items that keep their orientation. The state keeps a buffer of empty maximal spaces (EMS); the
observation lists the `obs_num_ems` largest of them (by volume). Action (e, i) = put item i into the e-th
*observed* EMS, lower corner on lower corner. legal(e, i) <=> EMS e valid and item i valid and unplaced and
dims(i) <= dims(EMS e). An illegal action ends the episode, leaves the problem state untouched, sets
extras["invalid_action"], reward 0 (dense) / current utilisation (sparse). The episode also ends when no legal
action remains. Objective = sum of packed item volumes / container volume. All geometry below is done in the
state's integer units (millimetres) with Python/NumPy int64.
"""
from __future__ import annotations

import csv
import os
import tempfile

import numpy as np

EMS_KEYS = ("x1", "x2", "y1", "y2", "z1", "z2")
PROBLEM_FIELDS = (
    [f"container.{k}" for k in EMS_KEYS] + [f"ems.{k}" for k in EMS_KEYS] + ["ems_mask"]
    + ["items.x_len", "items.y_len", "items.z_len", "items_mask", "items_placed"]
    + ["items_location.x", "items_location.y", "items_location.z"]
)


def params(cfg):
    gen = cfg.get("gen")  # None = registered default: RandomGenerator(20 items, 40 EMS)
    if gen is None:
        max_items, max_ems = 20, 40
    elif gen == "random":
        max_items, max_ems = cfg["max_items"], cfg["max_ems"]
    elif gen == "toy":
        max_items, max_ems = 20, 60  # "ToyGenerator with 20 items and 60 EMSs maximum"
    elif gen == "csvloose":  # jmon/envs.py writes 8 boxes that fit with room to spare
        max_items, max_ems = 8, cfg["max_ems"]
    else:  # csv: jmon/envs.py writes an instance of at most 12 items
        max_items, max_ems = 12, cfg["max_ems"]
    return {
        "gen": gen or "random", "max_items": max_items, "max_ems": max_ems,
        "obs_num_ems": cfg.get("obs_num_ems", 40), "normalize": cfg.get("normalize", True),
        "debug": cfg.get("debug", False), "reward": cfg.get("reward", "dense"),
        "perfect": (gen or "random") in ("random", "toy"),  # generators advertised as exactly filling the container
        # container_dims argument of the generator; the documented default is a 20-ft container (5870 x 2330 x 2200 mm)
        "container": [int(x) for x in cfg.get("container", [5870, 2330, 2200])],
    }


def RANDOM_GENERATOR(cfg):
    # with very few items the splitting construction has no choice left (one or two cuts of the container, or none at all when
    # a cut into `split_num_same_items` pieces would exceed `max_num_items`): a constant output is not a defect there
    return cfg.get("gen") in (None, "random") and int(cfg.get("max_items", 20)) >= 10


def horizon(P):
    # every legal step packs one more item, an illegal one ends the episode: at most #items steps
    return int(P.params["max_items"])


# ------------------------------------------------------------------------------------------ decoding helpers

def _space(S, prefix):
    """(n, 6) int64 array x1,x2,y1,y2,z1,z2 (or (6,) for the container)."""
    return np.stack([np.asarray(S[f"{prefix}.{k}"]).astype(np.int64) for k in EMS_KEYS], -1)


def _items(S):
    return np.stack([np.asarray(S[f"items.{k}"]).astype(np.int64) for k in ("x_len", "y_len", "z_len")], -1)


def _locs(S):
    return np.stack([np.asarray(S[f"items_location.{k}"]).astype(np.int64) for k in ("x", "y", "z")], -1)


def _dims(sp):
    return np.stack([sp[..., 1] - sp[..., 0], sp[..., 3] - sp[..., 2], sp[..., 5] - sp[..., 4]], -1)


def _vol(d):
    d = np.asarray(d, np.int64)
    return d[..., 0] * d[..., 1] * d[..., 2]


def _observed_index(P, S):
    n = int(P.params["obs_num_ems"])
    return np.asarray(S["sorted_ems_indexes"]).astype(np.int64)[:n]


def _boxes(S):
    """Placed items as boxes: (indices, lo (k,3), hi (k,3))."""
    placed = np.flatnonzero(np.asarray(S["items_placed"]).astype(bool))
    lo = _locs(S)[placed]
    hi = lo + _items(S)[placed]
    return placed, lo, hi


def _utilisation(S):
    c = _space(S, "container")
    cv = int(_vol(_dims(c)))
    placed = np.asarray(S["items_placed"]).astype(bool)
    return float(int(_vol(_items(S))[placed].sum())) / float(cv) if cv > 0 else float("nan")


# ------------------------------------------------------------------------------------------ C04

def legal(P, S, O):
    sel = _observed_index(P, S)
    ems = _space(S, "ems")
    ems_ok = np.asarray(S["ems_mask"]).astype(bool)
    items = _items(S)
    valid = np.asarray(S["items_mask"]).astype(bool)
    placed = np.asarray(S["items_placed"]).astype(bool)
    out = np.zeros((len(sel), len(items)), bool)
    for e, idx in enumerate(sel):
        if not (0 <= idx < len(ems)) or not ems_ok[idx]:
            continue
        room = _dims(ems[idx])
        for i in range(len(items)):
            out[e, i] = bool(valid[i] and not placed[i] and np.all(items[i] <= room))
    return out


def reaction(P, S, a, S2, ev, agent):
    e, i = int(a[0]), int(a[1])
    flagged = bool(ev.X.get("invalid_action", False))
    newly = bool(S2["items_placed"][i]) and not bool(S["items_placed"][i])
    if newly and not flagged:
        return "accepted"
    return "invalid"


# ------------------------------------------------------------------------------------------ C05

def illegal_effect(P, S, a, S2, ev, agent):
    out = []
    P.hit("illegal_terminates")
    if not ev.last:
        out.append("illegal_terminates: illegal (EMS, item) pair did not end the episode")
    if "invalid_action" in ev.X and not bool(ev.X["invalid_action"]):
        out.append("illegal_flagged: extras['invalid_action'] is False after an illegal action")
    changed = [f for f in PROBLEM_FIELDS if not np.array_equal(S[f], S2[f])]
    if changed:
        out.append(f"illegal_state_untouched: fields changed by an illegal action: {changed[:5]}")
    r = float(ev.reward)
    if P.params["reward"] == "sparse":
        P.hit("illegal_reward_sparse")
        exp = _utilisation(S)
        if not abs(r - exp) <= 1e-5:
            out.append(f"illegal_reward: sparse reward {r!r} != current utilisation {exp!r}")
    else:
        P.hit("illegal_reward_dense")
        if r != 0.0:
            out.append(f"illegal_reward: dense reward {r!r} != 0 for an illegal action")
    kind = "item_placed" if bool(S["items_placed"][int(a[1])]) else ("item_padding" if not bool(S["items_mask"][int(a[1])]) else "no_fit_or_dead_ems")
    P.hit("illegal_kind_" + kind)
    return out


# ------------------------------------------------------------------------------------------ C06

def _feasibility(S):
    """Items inside the container and pairwise disjoint (interval arithmetic on half-open boxes)."""
    out = []
    c = _space(S, "container")
    clo, chi = c[[0, 2, 4]], c[[1, 3, 5]]
    placed, lo, hi = _boxes(S)
    valid = np.asarray(S["items_mask"]).astype(bool)
    if np.any(~valid[placed]):
        out.append(f"placed_items_are_valid: padding items {placed[~valid[placed]].tolist()} are marked placed")
    for k, i in enumerate(placed):
        if np.any(hi[k] <= lo[k]):
            out.append(f"placed_item_positive_size: item {int(i)} has a non-positive dimension {(hi[k] - lo[k]).tolist()}")
        if np.any(lo[k] < clo) or np.any(hi[k] > chi):
            out.append(f"items_inside_container: item {int(i)} box {lo[k].tolist()}..{hi[k].tolist()} sticks out of {clo.tolist()}..{chi.tolist()}")
    n_pairs = 0
    for p in range(len(placed)):
        for q in range(p + 1, len(placed)):
            n_pairs += 1
            # open-interval overlap on every axis = positive common volume
            if np.all(np.maximum(lo[p], lo[q]) < np.minimum(hi[p], hi[q])):
                out.append(f"items_pairwise_disjoint: items {int(placed[p])} and {int(placed[q])} overlap")
    return out, len(placed), n_pairs


def _ems_problems(S):
    """Valid EMSs must be empty space of the container (the mechanism masked play relies on)."""
    out = []
    c = _space(S, "container")
    clo, chi = c[[0, 2, 4]], c[[1, 3, 5]]
    ems = _space(S, "ems")
    ok = np.flatnonzero(np.asarray(S["ems_mask"]).astype(bool))
    _, lo, hi = _boxes(S)
    for e in ok:
        elo, ehi = ems[e][[0, 2, 4]], ems[e][[1, 3, 5]]
        if np.any(elo < clo) or np.any(ehi > chi):
            out.append(f"ems_inside_container: EMS {int(e)} {ems[e].tolist()} sticks out of the container")
        if len(lo):
            inter = np.all(np.maximum(lo, elo) < np.minimum(hi, ehi), axis=1)
            if inter.any():
                out.append(f"ems_disjoint_from_items: EMS {int(e)} {ems[e].tolist()} intersects {int(inter.sum())} placed item(s)")
    return out


def hard_constraints(P, trace):
    ev = trace[-1]
    S = ev.S
    out, n_placed, n_pairs = _feasibility(S)
    if n_placed:
        P.hit("items_inside_container", n_placed)
    if n_pairs:
        P.hit("items_pairwise_disjoint", n_pairs)
    out.extend(_ems_problems(S))
    if "invalid_ems_from_env" in ev.X:
        P.hit("debug_invalid_ems_flag")
        if bool(ev.X["invalid_ems_from_env"]):
            out.append("debug_invalid_ems_flag: extras['invalid_ems_from_env'] is True under mask-respecting play")
    if int(np.asarray(S["ems_mask"]).sum()) >= len(S["ems_mask"]):
        P.hit("ems_buffer_full")
    # shadow history: what was packed stays where it was packed, one new item per legal step
    if len(trace) >= 2 and ev.action is not None:
        S0 = trace[-2].S
        p0, p1 = np.asarray(S0["items_placed"]).astype(bool), np.asarray(S["items_placed"]).astype(bool)
        P.hit("placement_history")
        if np.any(p0 & ~p1):
            out.append(f"placed_items_stay_placed: items {np.flatnonzero(p0 & ~p1).tolist()} were un-placed")
        if not np.array_equal(_locs(S0)[p0], _locs(S)[p0]):
            out.append("placed_items_do_not_move: the location of an already packed item changed")
        if not np.array_equal(_items(S0), _items(S)) or not np.array_equal(_space(S0, "container"), _space(S, "container")):
            out.append("instance_constant: item sizes or the container changed during the episode")
        new = np.flatnonzero(p1 & ~p0)
        e, i = int(ev.action[0]), int(ev.action[1])
        if new.tolist() != [i]:
            out.append(f"one_item_per_legal_step: action packs item {i}, newly placed items are {new.tolist()}")
        else:
            sel = _observed_index(P, S0)
            if 0 <= e < len(sel):
                corner = _space(S0, "ems")[sel[e]][[0, 2, 4]]
                if not np.array_equal(_locs(S)[i], corner):
                    out.append(f"item_at_ems_corner: item {i} placed at {_locs(S)[i].tolist()}, lower corner of observed EMS {e} is {corner.tolist()}")
        if int(p1.sum()) != ev.t:
            out.append(f"one_item_per_legal_step: {int(p1.sum())} items placed after {ev.t} legal steps")
    return out


def complete(P, trace):
    ev = trace[-1]
    S = ev.S
    valid = np.asarray(S["items_mask"]).astype(bool)
    placed = np.asarray(S["items_placed"]).astype(bool)
    if not np.all(placed[valid]):
        # ended because nothing fits any more: termination, not completion (DESIGN C06 R) - only the reason is checked
        P.hit("ended_no_legal_action")
        if legal(P, S, ev.O).any():
            return ["ended_only_when_stuck: a mask-respecting episode ended although a legal (EMS, item) pair remains and items are unpacked"]
        return None
    P.hit("all_items_packed")
    out, _, _ = _feasibility(S)
    if np.any(placed & ~valid):
        out.append("complete_only_valid_items: padding items are marked placed")
    u = _utilisation(S)
    if not u <= 1.0 + 1e-12:
        out.append(f"complete_utilisation_at_most_one: utilisation {u!r} > 1")
    if P.params["perfect"]:
        P.hit("perfect_instance_completed")
        if abs(u - 1.0) > 1e-12:
            out.append(f"complete_fills_container: all items of a container-splitting instance are packed but utilisation is {u!r}")
    if "volume_utilization" in ev.X and not abs(float(ev.X["volume_utilization"]) - u) <= 1e-5:
        out.append(f"complete_extras_utilisation: extras volume_utilization {float(ev.X['volume_utilization'])!r} != {u!r}")
    if "ratio_packed_items" in ev.X and not abs(float(ev.X["ratio_packed_items"]) - 1.0) <= 1e-6:
        out.append(f"complete_extras_ratio: extras ratio_packed_items {float(ev.X['ratio_packed_items'])!r} != 1")
    return out


# ------------------------------------------------------------------------------------------ C08

def objective(P, trace):
    S = trace[-1].S
    P.hit("volume_utilisation")
    if np.all(np.asarray(S["items_placed"])[np.asarray(S["items_mask"]).astype(bool)]):
        P.hit("objective_full_container")
    return _utilisation(S)


# ------------------------------------------------------------------------------------------ C10

def _perfect_packing(dims, cdims, cap=20000):
    """Exact search for a packing of all boxes `dims` (n,3, fixed orientation) that fills the box `cdims`.
    In a perfect packing the lexicographically smallest uncovered point is the lower corner of some item, so
    the search only ever tries items at that point. Returns (True, locations) | (False, None) | (None, None)=cap."""
    dims = [tuple(int(x) for x in d) for d in dims]
    n = len(dims)
    C = tuple(int(x) for x in cdims)
    loc = [None] * n
    used = [False] * n
    placed = []  # (lo, hi)
    nodes = [0]

    def smallest_uncovered():
        # lexicographic order x, y, z. Each coordinate of the answer is 0 or the upper face of a placed box that
        # touches it, so per candidate x only the boxes cut by that plane matter.
        if not placed:
            return (0, 0, 0)
        lo = np.array([l for l, _ in placed], np.int64)
        hi = np.array([h for _, h in placed], np.int64)
        for x in np.unique(np.concatenate([[0], hi[:, 0]])):
            if x >= C[0]:
                break
            cut = (lo[:, 0] <= x) & (x < hi[:, 0])
            blo, bhi = lo[cut][:, 1:], hi[cut][:, 1:]
            ys = np.unique(np.concatenate([[0], bhi[:, 0]]))
            zs = np.unique(np.concatenate([[0], bhi[:, 1]]))
            ys, zs = ys[ys < C[1]], zs[zs < C[2]]
            pts = np.stack(np.meshgrid(ys, zs, indexing="ij"), -1).reshape(-1, 2)
            cov = np.any(np.all((pts[:, None, :] >= blo[None]) & (pts[:, None, :] < bhi[None]), axis=2), axis=1)
            free = np.flatnonzero(~cov)
            if len(free):
                return (int(x), int(pts[free[0], 0]), int(pts[free[0], 1]))
        return None

    def rec(k):
        nodes[0] += 1
        if nodes[0] > cap:
            return None
        if k == n:
            return True
        p = smallest_uncovered()
        if p is None:
            return False  # container full but items remain
        tried = set()
        for i in range(n):
            if used[i] or dims[i] in tried:
                continue
            tried.add(dims[i])
            lo = p
            hi = tuple(p[a] + dims[i][a] for a in range(3))
            if any(hi[a] > C[a] for a in range(3)):
                continue
            if any(all(max(lo[a], l[a]) < min(hi[a], h[a]) for a in range(3)) for l, h in placed):
                continue
            used[i] = True
            loc[i] = lo
            placed.append((lo, hi))
            r = rec(k + 1)
            if r:
                return True
            placed.pop()
            used[i] = False
            loc[i] = None
            if r is None:
                return None
        return False

    res = rec(0)
    return (res, list(loc)) if res else (res, None)


def _csv_rows(path):
    rows = []
    with open(path, newline="") as f:
        for k, row in enumerate(csv.reader(f)):
            if k == 0:
                continue
            rows.append((row[0], int(row[1]), int(row[2]), int(row[3]), int(row[4])))
    return rows


def _csv_items(rows):
    out = []
    for _, x, y, z, q in rows:
        out.extend([(x, y, z)] * q)
    return np.asarray(out, np.int64).reshape(-1, 3)


def _reset_state_problems(P, S0):
    out = []
    c = _space(S0, "container")
    cd = _dims(c)
    if np.any(c[[0, 2, 4]] != 0) or np.any(cd <= 0):
        out.append(f"container_well_formed: container {c.tolist()} does not start at the origin with positive lengths")
        return out
    if [int(x) for x in cd] != list(P.params["container"]):
        out.append(f"container_is_configured_container: container lengths {cd.tolist()} != configured container_dims {P.params['container']}")
    items = _items(S0)
    valid = np.asarray(S0["items_mask"]).astype(bool)
    if valid.sum() < 1:
        out.append("at_least_one_item: the instance has no valid item")
    if np.any(items[valid] <= 0):
        out.append(f"items_positive: valid items with a non-positive dimension: {np.flatnonzero(valid & np.any(items <= 0, axis=1)).tolist()}")
    if np.any(items[valid] > cd):
        out.append(f"items_fit_container: valid items larger than the container: {np.flatnonzero(valid & np.any(items > cd, axis=1)).tolist()}")
    if np.asarray(S0["items_placed"]).any():
        out.append("items_unplaced_at_reset: items_placed is not all False at reset")
    ems_ok = np.flatnonzero(np.asarray(S0["ems_mask"]).astype(bool))
    ems = _space(S0, "ems")
    if len(ems_ok) != 1 or not np.array_equal(ems[ems_ok[0]], c):
        out.append(f"single_ems_is_container: valid EMSs at reset {[ems[e].tolist() for e in ems_ok[:3]]} != [container {c.tolist()}]")
    return out


def _solution_for_key(P, key_int):
    """decode(generator.generate_solution(PRNGKey(key_int))) - the advertised solution of the instance of that key."""
    if P.env is None or key_int is None:
        return None
    import jax

    from jmon.common import decode

    fn = getattr(P, "_bp_solution_fn", None)
    if fn is None:
        fn = P._bp_solution_fn = jax.jit(P.env.generator.generate_solution)
    return decode(fn(jax.random.PRNGKey(int(key_int))))


def _solution_problems(P, sol, ini):
    """generate_solution(key) must be a feasible packing of all items of generator(key) that fills the container."""
    out = []
    valid = np.asarray(sol["items_mask"]).astype(bool)
    same = all(np.array_equal(sol[f], ini[f]) for f in ["items.x_len", "items.y_len", "items.z_len", "items_mask"] + [f"container.{c}" for c in EMS_KEYS])
    if not same:
        out.append("call_returns_solution_items: generator(key) and generate_solution(key) describe different instances")
    if not np.array_equal(np.asarray(sol["items_placed"]).astype(bool), valid):
        out.append("solution_places_all_items: items_placed != items_mask in generate_solution")
        return out
    probs, _, _ = _feasibility(sol)
    out.extend("solution_feasible: " + p for p in probs)
    cv = int(_vol(_dims(_space(sol, "container"))))
    tot = int(_vol(_items(sol))[valid].sum())
    if tot != cv:
        out.append(f"solution_fills_container: packed volume {tot} != container volume {cv}")
    return out


def instance(P, S0, ev):
    out = _reset_state_problems(P, S0)
    P.hit("reset_state_well_formed")
    if out:
        return out
    items = _items(S0)
    valid = np.asarray(S0["items_mask"]).astype(bool)
    cd = _dims(_space(S0, "container"))
    if P.params["perfect"]:
        P.hit("volumes_sum_to_container")
        tot, cv = int(_vol(items[valid]).sum()), int(_vol(cd))
        if tot != cv:
            out.append(f"volumes_sum_to_container: item volumes sum to {tot}, container volume is {cv}")
        # certificate: the generator's own solution for this very key, judged by the feasibility rules above
        sol = _solution_for_key(P, ev.key_int)
        if sol is not None:
            P.hit("solution_certificate_checked")
            out.extend(_solution_problems(P, sol, S0))
        # independent cross-check on small instances: search for a perfect packing from the item list alone
        if tot == cv and int(valid.sum()) <= 12:
            res, _ = _perfect_packing(items[valid], cd, cap=4000)
            if res is None:
                P.hit("tiling_search_undecided")
            elif res:
                P.hit("tiling_certified_by_search")
            else:
                out.append("items_tile_container: exhaustive corner-point search proves the items cannot exactly fill the container")
    if P.params["gen"] == "csv":
        from jmon import envs as E  # the path of the CSV file written by the harness is not part of cfg

        paths = [p for p in E._tmpfiles if "jmon-binpack-" in p and os.path.exists(p)]
        if paths:
            P.hit("csv_items_equal_file")
            exp = _csv_items(_csv_rows(paths[-1]))
            if not valid.all() or not np.array_equal(items, exp):
                out.append(f"csv_items_equal_file: instance items {items[:4].tolist()}... != file items {exp[:4].tolist()}... (or padding present)")
    return out


def generator_checks(P, env, rng, tier):
    import jax

    from jmon.common import decode

    out = []
    gen = env.generator
    n_keys = 6 if tier == "quick" else 40
    if P.params["perfect"]:
        f_sol, f_ini = jax.jit(gen.generate_solution), jax.jit(gen.__call__)
        for _ in range(n_keys):
            k = int(rng.integers(0, 2**31 - 1))
            key = jax.random.PRNGKey(k)
            sol = decode(f_sol(key))
            ini = decode(f_ini(key))
            P.hit("generate_solution_checked")
            out.extend(f"{p.split(':', 1)[0]}: key {k}:{p.split(':', 1)[1]}" for p in _solution_problems(P, sol, ini))
            out.extend(f"call_unpacked: key {k}: {p}" for p in _reset_state_problems(P, ini))
    if P.params["gen"] in ("csv", "csvloose"):
        # independent round trip: a file written here must come back item for item (quantities expanded in order)
        cl, cw, ch = P.params["container"]
        rows = [("a", min(1000, cl), min(700, cw), min(300, ch), 3), ("b", min(1100, cl), min(430, cw), min(250, ch), 1),
                ("a", cl, cw, ch, 2), ("d", 1, 2, 3, 4)]  # the name "a" twice with different sizes: names are labels, every row counts
        fd, path = tempfile.mkstemp(prefix="jmon-binpack-own-", suffix=".csv")
        try:
            with os.fdopen(fd, "w", newline="") as f:
                w = csv.writer(f)
                w.writerow(["Item_Name", "Length", "Width", "Height", "Quantity"])
                w.writerows(rows)
            g2 = type(gen)(path, gen.max_num_ems, container_dims=tuple(P.params["container"]))
            st = decode(g2(jax.random.PRNGKey(0)))
            P.hit("csv_round_trip")
            exp = _csv_items(rows)
            if not np.array_equal(_items(st), exp) or not np.asarray(st["items_mask"]).all():
                out.append(f"csv_items_equal_file: parsed items {_items(st).tolist()} != file items {exp.tolist()}")
            out.extend(f"csv_reset_state: {p}" for p in _reset_state_problems(P, st))
        finally:
            try:
                os.remove(path)
            except OSError:
                pass
    return out


# ------------------------------------------------------------------------------------------ C12

def check_obs(P, S, O):
    out = []
    n = int(P.params["obs_num_ems"])
    sel = _observed_index(P, S)
    ems = _space(S, "ems")
    ems_ok = np.asarray(S["ems_mask"]).astype(bool)
    items = _items(S)
    c = _space(S, "container")
    cd = _dims(c).astype(np.float64)
    oE = np.stack([np.asarray(O[f"ems.{k}"]).astype(np.float64) for k in EMS_KEYS], -1)
    oI = np.stack([np.asarray(O[f"items.{k}"]).astype(np.float64) for k in ("x_len", "y_len", "z_len")], -1)
    P.hit("obs_checked")
    if oE.shape != (n, 6) or len(sel) != n:
        return [f"obs_ems_shape: observed EMS arrays have shape {oE.shape[:1]}, obs_num_ems is {n}"]
    if sorted(np.asarray(S["sorted_ems_indexes"]).tolist()) != list(range(len(ems))):
        return ["obs_sorted_indexes_permutation: sorted_ems_indexes is not a permutation of the EMS buffer"]
    expE = ems[sel].astype(np.float64)
    expI = items.astype(np.float64)
    if P.params["normalize"]:
        P.hit("obs_normalised")
        expE = expE / np.repeat(cd, 2)
        expI = expI / cd
    else:
        P.hit("obs_raw_units")
        if not np.issubdtype(np.asarray(O["ems.x1"]).dtype, np.integer) or not np.issubdtype(np.asarray(O["items.x_len"]).dtype, np.integer):
            out.append("obs_integer_when_not_normalised: EMS / item observations are not integers with normalize_dimensions=False")
    if not np.allclose(oE, expE, rtol=0, atol=1e-6):
        bad = np.argwhere(~np.isclose(oE, expE, rtol=0, atol=1e-6))
        out.append(f"obs_ems_coordinates: observed EMS coordinates differ from the state EMSs at sorted_ems_indexes[:{n}] (first at {bad[0].tolist()})")
    if not np.allclose(oI, expI, rtol=0, atol=1e-6):
        out.append("obs_item_sizes: observed item sizes differ from the state items (divided by the container lengths when normalised)")
    if not np.array_equal(np.asarray(O["ems_mask"]).astype(bool), ems_ok[sel]):
        out.append("obs_ems_mask: observed ems_mask != state ems_mask at the observed indexes")
    # "the obs_num_ems largest EMSs": decreasing volume, nothing larger left out (ties in any order;
    # the library ranks float32 volumes, so nearly equal volumes are treated as ties)
    v = _vol(_dims(ems)).astype(np.float64) * ems_ok
    vs = v[sel]
    tol = 1e-6 * max(1.0, float(v.max()))
    if np.any(np.diff(vs) > tol):
        out.append(f"obs_ems_sorted_by_volume: observed EMS volumes are not non-increasing: {vs[:6].tolist()}")
    rest = np.setdiff1d(np.arange(len(v)), sel)
    if len(rest):
        P.hit("obs_subset_of_ems")
        if ems_ok[rest].any():
            P.hit("obs_valid_ems_left_out")
        if v[rest].max() > vs.min() + tol:
            out.append(f"obs_largest_ems_selected: an unobserved valid EMS has volume {v[rest].max()} > smallest observed {vs.min()}")
    for f in ("items_mask", "items_placed", "action_mask"):
        if not np.array_equal(O[f], S[f]):
            out.append(f"obs_{f}: observation.{f} != state.{f}")
    return out


# ------------------------------------------------------------------------------------------ workload policies

def _pol_greedy(ctx):
    """Largest unplaced item first, into the smallest observed EMS that takes it."""
    m = np.asarray(ctx["ts"].observation.action_mask)
    if not m.any():
        ctx["legal_only"] = False
        return np.zeros(2, np.int32)
    st = ctx["state"]
    vol = np.asarray(st.items.x_len, np.int64) * np.asarray(st.items.y_len, np.int64) * np.asarray(st.items.z_len, np.int64)
    cand = np.flatnonzero(m.any(0))
    i = int(cand[np.argmax(vol[cand])])
    e = int(np.flatnonzero(m[:, i])[-1])
    return np.asarray([e, i], np.int32)


def _pol_complete(ctx):
    """Solve the perfect-packing puzzle once, then put every item on its solution corner whenever an observed
    EMS starts exactly there; falls back to uniform masked play."""
    from jmon.common import decode
    from jmon.rollout import pol_masked

    S = decode(ctx["state"])
    if ctx["t"] == 0 or "bp_solution" not in ctx:
        valid = np.asarray(S["items_mask"]).astype(bool)
        res, loc = _perfect_packing(_items(S)[valid], _dims(_space(S, "container")), cap=6000)
        ctx["bp_solution"] = dict(zip(np.flatnonzero(valid).tolist(), loc)) if res else None
    sol = ctx["bp_solution"]
    m = np.asarray(ctx["ts"].observation.action_mask)
    if sol:
        n = m.shape[0]
        sel = np.asarray(S["sorted_ems_indexes"]).astype(np.int64)[:n]
        corners = _space(S, "ems")[sel][:, [0, 2, 4]]
        items, placed, locs = _items(S), np.asarray(S["items_placed"]).astype(bool), _locs(S)
        # identical items are interchangeable: match unplaced items to still-empty solution corners by size
        taken = {tuple(locs[i].tolist()) for i in np.flatnonzero(placed)}
        free = [(tuple(items[i].tolist()), tuple(l)) for i, l in sol.items() if tuple(l) not in taken]
        for i in np.flatnonzero(~placed & np.asarray(S["items_mask"]).astype(bool)):
            for d, l in free:
                if d != tuple(items[i].tolist()):
                    continue
                es = np.flatnonzero(np.all(corners == np.asarray(l), axis=1) & m[:, i])
                if len(es):
                    return np.asarray([int(es[0]), int(i)], np.int32)
    return pol_masked(ctx)


def policies(P):
    return {"greedy": _pol_greedy, "complete": _pol_complete}
