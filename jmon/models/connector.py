"""Connector — independent NumPy statement of the rules (DESIGN §4; docs/environments/connector.md, class docstring).

Per agent: 0 no-op, 1 up, 2 right, 3 down, 4 left. Agent i owns the grid codes 1+3i (path), 2+3i (head /
position), 3+3i (target). A move is legal iff the agent is not connected, the target cell is inside the grid and
is empty or the agent's own target; the no-op is always legal. All agents move simultaneously on the old grid;
when several agents enter the same cell the highest id keeps it and the others stay; the cell a head leaves
becomes path. Reward per agent: +1 on the step it connects, -0.03 for every step it started unconnected.
Discount per agent 0 when connected or blocked (no legal move); LAST when all agents are, or at the time limit.
The observation grid is the state grid (docs/connector.md: shape (grid_size, grid_size)); the agent-relative
wording of the Observation class docstring is stale and is not used.
"""
from __future__ import annotations

import collections

import numpy as np

MOVES = {0: (0, 0), 1: (-1, 0), 2: (0, 1), 3: (1, 0), 4: (0, -1)}
NBRS = ((-1, 0), (0, 1), (1, 0), (0, -1))


def params(cfg):
    return {
        "grid_size": cfg.get("grid_size", 10), "agents": cfg.get("agents", 10), "time_limit": cfg.get("time_limit", 50),
        "gen": "uniform" if cfg.get("gen") == "uniform" else "walk", "connected_reward": float(cfg.get("reward_coeffs", [1.0, -0.03])[0]), "timestep_reward": float(cfg.get("reward_coeffs", [1.0, -0.03])[1]),
    }


def RANDOM_GENERATOR(cfg):
    return True


def time_limit(P):
    return P.params["time_limit"]


# ------------------------------------------------------------------------------------------------ basics

def _pos(S):
    return S["agents.position"].astype(np.int64)


def _tgt(S):
    return S["agents.target"].astype(np.int64)


def _connected(S):
    return np.all(_pos(S) == _tgt(S), axis=1)


def _inside(G, r, c):
    return 0 <= r < G and 0 <= c < G


def _legal_one(grid, pos, connected, i, a):
    if a == 0:
        return True
    if connected[i]:
        return False
    G = grid.shape[0]
    r, c = int(pos[i][0]) + MOVES[a][0], int(pos[i][1]) + MOVES[a][1]
    if not _inside(G, r, c):
        return False
    v = int(grid[r, c])
    return v == 0 or v == 3 + 3 * i


def _legal_table(grid, pos, connected):
    n = len(pos)
    return np.array([[_legal_one(grid, pos, connected, i, a) for a in range(5)] for i in range(n)], bool)


def legal(P, S, O):
    return _legal_table(S["grid"], _pos(S), _connected(S))


def _done(grid, pos, tgt):
    con = np.all(pos == tgt, axis=1)
    L = _legal_table(grid, pos, con)
    return con | ~L[:, 1:].any(axis=1)


def _ref_step(S, act):
    """Reference transition: (grid, positions, info)."""
    grid = S["grid"].astype(np.int64)
    pos = _pos(S)
    con = _connected(S)
    n = len(pos)
    want = {}
    for i in range(n):
        a = int(act[i])
        if a != 0 and 0 <= a <= 4 and _legal_one(grid, pos, con, i, a):
            want[i] = (int(pos[i][0]) + MOVES[a][0], int(pos[i][1]) + MOVES[a][1])
    by_dest = collections.defaultdict(list)
    for i, d in want.items():
        by_dest[d].append(i)
    g2, p2 = grid.copy(), pos.copy()
    info = {"collisions": 0, "collisions3": 0, "moved": [], "yielded": []}
    for d, ids in by_dest.items():
        w = max(ids)  # the highest id keeps the cell, lower ids yield and stay
        if len(ids) >= 2:
            info["collisions"] += 1
            info["yielded"] += [i for i in ids if i != w]
        if len(ids) >= 3:
            info["collisions3"] += 1
        g2[tuple(pos[w])] = 1 + 3 * w
        g2[d] = 2 + 3 * w
        p2[w] = d
        info["moved"].append(w)
    return g2, p2, info


# ------------------------------------------------------------------------------------------------ C04 / C05

def reaction(P, S, a, S2, ev, agent):
    i = int(agent)
    ai = int(np.asarray(a)[i])
    if ai == 0:
        return "accepted"
    pos, p2 = _pos(S), _pos(S2)
    dest = (int(pos[i][0]) + MOVES[ai][0], int(pos[i][1]) + MOVES[ai][1])
    if tuple(p2[i]) == dest:
        return "accepted"
    # not moved: a legal move may have yielded to a higher id aiming at the same cell -> undecidable from outside
    grid, con = S["grid"], _connected(S)
    for j in range(len(pos)):
        aj = int(np.asarray(a)[j])
        if j > i and 1 <= aj <= 4 and _legal_one(grid, pos, con, j, aj):
            if (int(pos[j][0]) + MOVES[aj][0], int(pos[j][1]) + MOVES[aj][1]) == dest:
                return None
    return "invalid"


def _cells_of(grid, i):
    return {(int(r), int(c), int(grid[r, c])) for r, c in np.argwhere((grid >= 1 + 3 * i) & (grid <= 3 + 3 * i))}


def illegal_effect(P, S, a, S2, ev, agent):
    out = []
    i = int(agent)
    ai = int(np.asarray(a)[i])
    pos = _pos(S)
    G = S["grid"].shape[0]
    dest = (int(pos[i][0]) + MOVES[ai][0], int(pos[i][1]) + MOVES[ai][1])
    kind = "connected" if _connected(S)[i] else ("out_of_grid" if not _inside(G, *dest) else "occupied")
    P.hit("illegal_ignored")
    P.hit("illegal_" + kind)
    if not np.array_equal(_pos(S2)[i], pos[i]):
        out.append(f"illegal_position_unchanged: agent {i} played illegal move {ai} ({kind}) and moved {pos[i].tolist()} -> {_pos(S2)[i].tolist()}")
    if _cells_of(S["grid"], i) != _cells_of(S2["grid"], i):
        out.append(f"illegal_cells_unchanged: the grid cells of agent {i} changed after its illegal move {ai} ({kind})")
    if not np.array_equal(S2["agents.target"][i], S["agents.target"][i]) or not np.array_equal(S2["agents.start"][i], S["agents.start"][i]):
        out.append(f"illegal_cells_unchanged: start/target of agent {i} changed after its illegal move")
    if ev.last:
        explained = bool(_done(S2["grid"], _pos(S2), _tgt(S2)).all()) or int(S2["step_count"]) >= P.params["time_limit"]
        if not explained:
            out.append(f"illegal_episode_continues: LAST after illegal move {ai} of agent {i} although agents can still move and the limit is not reached")
    return out


# ------------------------------------------------------------------------------------------------ C06

def _routes(trace):
    S0 = trace[0].S
    n = len(_pos(S0))
    routes = [[tuple(int(x) for x in S0["agents.start"][i])] for i in range(n)]
    problems = []
    first = _pos(S0)
    for i in range(n):
        if tuple(first[i]) != routes[i][0]:
            routes[i].append(tuple(int(x) for x in first[i]))
    for e in trace[1:]:
        p = _pos(e.S)
        for i in range(n):
            c = tuple(int(x) for x in p[i])
            if c != routes[i][-1]:
                routes[i].append(c)
    return routes, problems


def _route_problems(P, routes, S):
    out = []
    grid = S["grid"]
    G = grid.shape[0]
    n = len(routes)
    tg = _tgt(S)
    owner = {}
    for i, rt in enumerate(routes):
        for k in range(1, len(rt)):
            if abs(rt[k][0] - rt[k - 1][0]) + abs(rt[k][1] - rt[k - 1][1]) != 1:
                out.append(f"route_chain_connected: agent {i} jumped {rt[k - 1]} -> {rt[k]}")
                break
        if len(set(rt)) != len(rt):
            out.append(f"routes_disjoint: agent {i} re-entered a cell of its own route")
        for c in set(rt):
            if c in owner and owner[c] != i:
                out.append(f"routes_disjoint: cell {c} lies on the routes of agents {owner[c]} and {i}")
            owner.setdefault(c, i)
            if not _inside(G, *c):
                out.append(f"route_in_grid: agent {i} route cell {c} outside the grid")
        for j in range(n):
            if j != i and tuple(int(x) for x in tg[j]) in set(rt):
                out.append(f"routes_disjoint: route of agent {i} runs over the target of agent {j}")
        # the grid, recomputed from raw codes, must show exactly this route
        on_grid = {(int(r), int(c)) for r, c in np.argwhere((grid == 1 + 3 * i) | (grid == 2 + 3 * i))}
        if on_grid != {c for c in rt if _inside(G, *c)}:
            out.append(f"route_matches_grid: cells coded for agent {i} on the grid {sorted(on_grid)[:6]} differ from the cells it occupied {sorted(set(rt))[:6]}")
        elif _inside(G, *rt[-1]) and int(grid[rt[-1]]) != 2 + 3 * i:
            out.append(f"route_matches_grid: last cell {rt[-1]} of agent {i} is not coded as its head")
    return out


def _malformed(P, S):
    """Reset boards whose target lies outside the grid (known RandomWalkGenerator defect, reported once under C10:
    the wrapped target code may even overwrite a head) are not judged again by the state monitors."""
    G = S["grid"].shape[0]
    if any(not _inside(G, *t) for t in _tgt(S)):
        P.hit("malformed_instance_not_judged")
        return True
    return False


def hard_constraints(P, trace):
    if _malformed(P, trace[0].S):
        return []
    routes, out = _routes(trace)
    P.shadow["routes"] = routes
    P.hit("routes_checked")
    if sum(1 for r in routes if len(r) > 1) >= 2:
        P.hit("routes_multi_agent")
    return out + _route_problems(P, routes, trace[-1].S)


def complete(P, trace):
    S = trace[-1].S
    if not _connected(S).all() or _malformed(P, trace[0].S):
        return None
    P.hit("completed_all_connected")
    routes, out = _routes(trace)
    out += _route_problems(P, routes, S)
    for i, rt in enumerate(routes):
        if rt[0] != tuple(int(x) for x in S["agents.start"][i]) or rt[-1] != tuple(int(x) for x in _tgt(S)[i]):
            out.append(f"complete_route_start_to_target: route of agent {i} runs {rt[0]} -> {rt[-1]}, not start -> target")
    if np.any((S["grid"] > 0) & (S["grid"] % 3 == 0)):
        out.append("complete_no_target_left: a target code is still on the grid although all agents are connected")
    return out


# ------------------------------------------------------------------------------------------------ C07

def physical(P, S_prev, a, S):
    out = []
    G, n = P.params["grid_size"], P.params["agents"]
    grid = S["grid"]
    if grid.shape != (G, G):
        return [f"grid_shape: grid shape {grid.shape} != {(G, G)}"]
    if _malformed(P, S):
        return []
    P.hit("occupancy")
    pos, tg = _pos(S), _tgt(S)
    if len(pos) != n:
        return [f"agent_count: {len(pos)} agents != {n}"]
    if grid.min() < 0 or grid.max() > 3 * n:
        out.append(f"grid_codes_in_range: grid holds codes outside [0, {3 * n}]")
    if len({tuple(p) for p in pos.tolist()}) != n:
        out.append("heads_distinct: two agents share a position")
    con = _connected(S)
    for i in range(n):
        r, c = int(pos[i][0]), int(pos[i][1])
        if not _inside(G, r, c):
            out.append(f"head_in_grid: agent {i} at {(r, c)} outside the {G}x{G} grid")
            continue
        heads = np.argwhere(grid == 2 + 3 * i)
        if len(heads) != 1:
            out.append(f"one_head_per_agent: {len(heads)} cells carry the head code of agent {i}")
        elif (int(heads[0][0]), int(heads[0][1])) != (r, c):
            out.append(f"head_matches_position: head code of agent {i} at {heads[0].tolist()} but agents.position is {[r, c]}")
        tcells = np.argwhere(grid == 3 + 3 * i)
        if len(tcells) > 1:
            out.append(f"at_most_one_target: {len(tcells)} cells carry the target code of agent {i}")
        tr, tc = int(tg[i][0]), int(tg[i][1])
        if con[i]:
            if len(tcells) != 0:
                out.append(f"target_consumed_when_connected: agent {i} is connected but its target code is still on the grid")
        elif len(tcells) == 1 and (int(tcells[0][0]), int(tcells[0][1])) != (tr, tc):
            out.append(f"target_matches_grid: target code of agent {i} at {tcells[0].tolist()} but agents.target is {[tr, tc]}")
        elif len(tcells) == 0:
            out.append(f"target_matches_grid: agent {i} is not connected and its target code is missing from the grid")
    if S_prev is not None:
        P.hit("path_growth")
        p0 = _pos(S_prev)
        for i in range(n):
            moved = int(not np.array_equal(p0[i], pos[i]))
            before, after = int((S_prev["grid"] == 1 + 3 * i).sum()), int((grid == 1 + 3 * i).sum())
            if after != before + moved:
                out.append(f"path_grows_by_one_per_move: agent {i} path cells {before} -> {after}, moved={bool(moved)}")
            if moved and abs(int(p0[i][0] - pos[i][0])) + abs(int(p0[i][1] - pos[i][1])) != 1:
                out.append(f"move_one_cell: agent {i} moved {p0[i].tolist()} -> {pos[i].tolist()}")
            if moved and _inside(G, *p0[i]) and int(grid[tuple(p0[i])]) != 1 + 3 * i:
                out.append(f"old_head_becomes_path: cell {p0[i].tolist()} left by agent {i} holds {int(grid[tuple(p0[i])])}")
        if not np.array_equal(S_prev["agents.target"], S["agents.target"]) or not np.array_equal(S_prev["agents.start"], S["agents.start"]):
            out.append("endpoints_constant: start/target of an agent changed during the episode")
    return out


# ------------------------------------------------------------------------------------------------ C09

def check_step(P, S, a, S2, reward, last, ev):
    out = []
    act = np.asarray(a).astype(np.int64)
    n = len(act)
    g2, p2, info = _ref_step(S, act)
    con0 = _connected(S)
    tg = _tgt(S)
    L = _legal_table(S["grid"], _pos(S), con0)
    P.hit("ref_step")
    if info["collisions"]:
        P.hit("ref_collision", info["collisions"])
    if info["collisions3"]:
        P.hit("ref_collision_3_agents", info["collisions3"])
    if any(int(act[i]) != 0 and not L[i, int(act[i])] for i in range(n)):
        P.hit("ref_illegal_ignored")
    if not np.array_equal(_pos(S2), p2):
        bad = [i for i in range(n) if not np.array_equal(_pos(S2)[i], p2[i])]
        q = "lower_id_yields" if set(bad) & set(info["yielded"] + info["moved"]) and info["collisions"] else "move"
        out.append(f"ref_positions: agents {bad} are at {_pos(S2)[bad].tolist()}, reference {p2[bad].tolist()} ({q}; actions {act.tolist()})")
    if not np.array_equal(S2["grid"].astype(np.int64), g2):
        idx = np.argwhere(S2["grid"] != g2)
        out.append(f"ref_grid: grid differs from the reference at {idx[:4].tolist()} (got {[int(S2['grid'][tuple(k)]) for k in idx[:4]]}, expected {[int(g2[tuple(k)]) for k in idx[:4]]})")
    if not np.array_equal(S2["agents.target"], S["agents.target"]) or not np.array_equal(S2["agents.start"], S["agents.start"]) or not np.array_equal(S2["agents.id"], S["agents.id"]):
        out.append("ref_endpoints_constant: id/start/target changed")
    if int(S2["step_count"]) != int(S["step_count"]) + 1:
        out.append("ref_step_count: step_count did not increase by one")
    con1 = np.all(p2 == tg, axis=1)
    exp_r = P.params["connected_reward"] * (~con0 & con1) + P.params["timestep_reward"] * (~con0)
    if (~con0 & con1).any():
        P.hit("ref_connect")
    r = np.asarray(reward, np.float64)
    if r.shape != exp_r.shape or not np.allclose(r, exp_r, atol=1e-6):
        out.append(f"ref_reward: reward {r.tolist()} != reference {exp_r.tolist()}")
    done = _done(g2, p2, tg)
    limit = int(S["step_count"]) + 1 >= P.params["time_limit"]
    exp_last = bool(done.all()) or limit
    if done.all():
        P.hit("ref_all_done")
    if limit:
        P.hit("ref_time_limit")
    if bool(last) != exp_last:
        out.append(f"ref_last: last={bool(last)} expected {exp_last} (done per agent {done.tolist()}, limit reached {limit})")
    exp_d = np.zeros(n) if exp_last else (1.0 - done.astype(np.float64))
    d = np.asarray(ev.discount, np.float64)
    if d.shape != exp_d.shape or not np.allclose(d, exp_d, atol=1e-6):
        out.append(f"ref_discount: discount {d.tolist()} != reference {exp_d.tolist()}")
    X = ev.X
    if "num_connections" in X and int(X["num_connections"]) != int(con1.sum()):
        out.append(f"ref_extras_num_connections: extras report {int(X['num_connections'])} connections, reference {int(con1.sum())}")
    return out


# ------------------------------------------------------------------------------------------------ C10

def _bfs_path(cells, s, t):
    """Shortest 4-connected path s -> t inside the cell set (inclusive), or None."""
    if s not in cells or t not in cells:
        return None
    prev = {s: None}
    dq = collections.deque([s])
    while dq:
        u = dq.popleft()
        if u == t:
            path = []
            while u is not None:
                path.append(u)
                u = prev[u]
            return path[::-1]
        for dr, dc in NBRS:
            v = (u[0] + dr, u[1] + dc)
            if v in cells and v not in prev:
                prev[v] = u
                dq.append(v)
    return None


class _Cap(Exception):
    pass


def solve_disjoint(G, starts, targets, cap=60000):
    """Bounded DFS for vertex-disjoint 4-connected paths start_i -> target_i on an empty GxG board.
    Returns (True, paths) | (False, None) proved unsolvable | (None, None) cap hit."""
    n = len(starts)
    starts = [tuple(int(x) for x in s) for s in starts]
    targets = [tuple(int(x) for x in t) for t in targets]
    if any(not _inside(G, *c) for c in starts + targets):
        return False, None
    if len(set(starts + targets)) != 2 * n:
        return False, None
    used = set(starts) | set(targets)
    order = sorted(range(n), key=lambda i: abs(starts[i][0] - targets[i][0]) + abs(starts[i][1] - targets[i][1]))
    paths = {}
    nodes = [0]

    def free_cells(i):
        return {(r, c) for r in range(G) for c in range(G) if (r, c) not in used} | {starts[i], targets[i]}

    def feasible(k):
        for i in order[k:]:
            if _bfs_path(free_cells(i), starts[i], targets[i]) is None:
                return False
        return True

    def extend(k, i, u, path):
        nodes[0] += 1
        if nodes[0] > cap:
            raise _Cap()
        if u == targets[i]:
            paths[i] = list(path)
            if k + 1 == n:
                return True
            if feasible(k + 1) and extend(k + 1, order[k + 1], starts[order[k + 1]], [starts[order[k + 1]]]):
                return True
            del paths[i]
            return False
        t = targets[i]
        nb = sorted(((u[0] + dr, u[1] + dc) for dr, dc in NBRS), key=lambda v: abs(v[0] - t[0]) + abs(v[1] - t[1]))
        for v in nb:
            if not _inside(G, *v) or (v in used and v != t):
                continue
            if v == t or v not in used:
                added = v not in used
                if added:
                    used.add(v)
                path.append(v)
                if extend(k, i, v, path):
                    return True
                path.pop()
                if added:
                    used.discard(v)
        return False

    try:
        if not feasible(0):
            return False, None
        ok = extend(0, order[0], starts[order[0]], [starts[order[0]]])
    except _Cap:
        return None, None
    except RecursionError:
        return None, None
    return (True, [paths[i] for i in range(n)]) if ok else (False, None)


_BOARD_FN = {}


def solved_board(env, key):
    """The generator's own solved board for reset key `key` (public generate_board), or None.
    It is only a *candidate* certificate: certificate_paths() verifies it with plain NumPy."""
    gen = getattr(env, "_generator", None)
    if gen is None or not hasattr(gen, "generate_board"):
        return None
    try:
        import jax

        fn = _BOARD_FN.get(id(gen))
        if fn is None:
            fn = _BOARD_FN[id(gen)] = jax.jit(gen.generate_board)
        _, board_key = jax.random.split(key)
        solved, _agents, grid = fn(board_key)
        return np.asarray(solved), np.asarray(grid)
    except Exception:
        return None


def certificate_paths(solved, starts, targets):
    """Paths start_i -> target_i made only of agent i's codes on `solved`, or None if it is no certificate."""
    G = solved.shape[0]
    n = len(starts)
    paths = []
    endpoints = {tuple(int(x) for x in c) for c in list(starts) + list(targets)}
    for i in range(n):
        s, t = tuple(int(x) for x in starts[i]), tuple(int(x) for x in targets[i])
        cells = {(int(r), int(c)) for r, c in np.argwhere((solved >= 1 + 3 * i) & (solved <= 3 + 3 * i))}
        p = _bfs_path(cells, s, t) if _inside(G, *s) and _inside(G, *t) else None
        if p is None or any(c in endpoints and c not in (s, t) for c in p):
            return None
        paths.append(p)
    seen = set()
    for p in paths:
        if seen & set(p):
            return None
        seen |= set(p)
    return paths


def instance(P, S0, ev):
    out = []
    G, n = P.params["grid_size"], P.params["agents"]
    walk = P.params["gen"] == "walk"
    grid = S0["grid"]
    pos, tg, st = _pos(S0), _tgt(S0), S0["agents.start"].astype(np.int64)
    P.hit("instance_wellformed")
    if grid.shape != (G, G) or pos.shape != (n, 2):
        return [f"instance_shapes: grid {grid.shape}, positions {pos.shape} for grid_size {G}, {n} agents"]
    outside_t = [i for i in range(n) if not _inside(G, *tg[i])]
    if outside_t:
        clause = "random_walk_target_in_grid" if walk else "target_in_grid"
        return [f"{clause}: target of agent(s) {outside_t} = {tg[outside_t].tolist()} lies outside the {G}x{G} grid (board unsolvable by definition)"]
    if any(not _inside(G, *st[i]) for i in range(n)):
        return [f"start_in_grid: a start cell lies outside the grid: {st.tolist()}"]
    if not np.array_equal(pos, st):
        out.append("position_is_start: agents do not stand on their start cells at reset")
    if int(S0["step_count"]) != 0:
        out.append("initial_step_count: step_count != 0 at reset")
    cells = [tuple(c) for c in st.tolist()] + [tuple(c) for c in tg.tolist()]
    if len(set(cells)) != 2 * n:
        out.append(f"endpoints_distinct: starts and targets are not {2 * n} distinct cells")
    exp = np.zeros((G, G), np.int64)
    for i in range(n):
        exp[tuple(st[i])] = 2 + 3 * i
    for i in range(n):
        exp[tuple(tg[i])] = 3 + 3 * i
    if len(set(cells)) == 2 * n and not np.array_equal(grid, exp):
        out.append(f"grid_encoding: reset grid differs from heads/targets placed on an empty board at {np.argwhere(grid != exp)[:4].tolist()}")
    if not np.array_equal(S0["agents.id"], np.arange(n)):
        out.append("agent_ids: agent ids are not 0..n-1")
    if not walk or out:
        return out  # UniformRandomGenerator does not advertise solvability
    # solvability certificate (RandomWalkGenerator: "guaranteed to be solvable")
    cert, hint = None, ""
    if P.env is not None and getattr(ev, "key_int", None) is not None:
        import jax

        sb = solved_board(P.env, jax.random.PRNGKey(int(ev.key_int)))
        if sb is not None and np.array_equal(sb[1], grid):
            cert = certificate_paths(sb[0], st, tg)
            P.hit("solvable_certificate_checked")
            if cert is None:
                broken = []
                for i in range(n):
                    own = {(int(r), int(c)) for r, c in np.argwhere((sb[0] >= 1 + 3 * i) & (sb[0] <= 3 + 3 * i))}
                    if _bfs_path(own, tuple(st[i]), tuple(tg[i])) is None:
                        boxed = not any((st[i][0] + dr, st[i][1] + dc) in own for dr, dc in NBRS)
                        broken.append(f"{i}{' (start has no own-coded neighbour: boxed in at initialisation)' if boxed else ''}")
                hint = f"; the generator's own solved board holds no start->target path for agent(s) {', '.join(broken)}"
    if cert is not None:
        P.hit("solvable_by_certificate")
        return out
    ok, _ = solve_disjoint(G, st, tg, cap=40000)
    if ok is True:
        P.hit("solvable_by_search")
    elif ok is None:
        P.hit("solvability_undecided")
    else:
        out.append(f"random_walk_solvable: no vertex-disjoint paths connect starts {st.tolist()} to targets {tg.tolist()} (exhaustive search){hint}")
    return out


def qualify(P, clause, ev):
    """Known-finding key (DESIGN §5 #10): RandomWalkGenerator draws the first move of a start cell that has no free
    neighbour from an all-zero probability vector. Recognised on the generator's own solved board: the start of
    some agent has no 4-neighbour carrying that agent's codes."""
    if clause not in ("random_walk_target_in_grid", "random_walk_solvable") or ev is None or P.env is None:
        return ""
    try:
        import jax

        sb = solved_board(P.env, jax.random.PRNGKey(int(ev.key_int)))
        st = ev.S["agents.start"].astype(np.int64)
        if sb is None:
            return ""
        G = sb[0].shape[0]
        tg = ev.S["agents.target"].astype(np.int64)
        for i in range(len(st)):
            own = {(int(r), int(c)) for r, c in np.argwhere((sb[0] >= 1 + 3 * i) & (sb[0] <= 3 + 3 * i))}
            if (int(tg[i][0]), int(tg[i][1])) == (-1, G - 1):
                # the bogus target (-1, G-1) is written with a wrapped index onto cell (G-1, G-1): that cell is not part of
                # the agent's walk, even when it happens to lie next to the start
                own.discard((G - 1, G - 1))
            if not any((int(st[i][0]) + dr, int(st[i][1]) + dc) in own for dr, dc in NBRS):
                return "boxed-in start cell"
    except Exception:
        return ""
    return ""


# ------------------------------------------------------------------------------------------------ C11 / C12

def other_end_reason(P, S_prev, a, S, ev):
    return bool(_done(S["grid"], _pos(S), _tgt(S)).all())


def check_obs(P, S, O):
    out = []
    P.hit("obs_grid_copy")
    if O["grid"].shape != S["grid"].shape or not np.array_equal(O["grid"], S["grid"]):
        out.append("obs_grid: observation grid differs from the state grid")
    if int(O["step_count"]) != int(S["step_count"]):
        out.append(f"obs_step_count: observation {int(O['step_count'])} != state {int(S['step_count'])}")
    L = legal(P, S, O)
    if O["action_mask"].shape != L.shape or not np.array_equal(O["action_mask"].astype(bool), L):
        out.append("obs_action_mask: observation mask differs from the mask recomputed from the state in the same timestep")
    return out


# ------------------------------------------------------------------------------------------------ policies

def _masked_random(rng, M):
    return np.array([int(rng.choice(np.flatnonzero(r))) if r.any() else 0 for r in M])


def _dir(u, v):
    d = (v[0] - u[0], v[1] - u[1])
    for a, m in MOVES.items():
        if m == d:
            return a
    return 0


def pol_collide(ctx):
    """Aim two or three heads at the same empty cell whenever one exists, otherwise walk heads towards each other."""
    from jmon.common import decode

    S = decode(ctx["state"])
    rng = ctx["rng"]
    grid, pos = S["grid"], _pos(S)
    con = _connected(S)
    n, G = len(pos), grid.shape[0]
    M = np.asarray(ctx["ts"].observation.action_mask).astype(bool)
    act = _masked_random(rng, M) if rng.random() < 0.5 else np.zeros(n, np.int64)
    cand = collections.defaultdict(list)
    for i in range(n):
        for a in range(1, 5):
            if M[i, a]:
                d = (int(pos[i][0]) + MOVES[a][0], int(pos[i][1]) + MOVES[a][1])
                if grid[d] == 0:
                    cand[d].append((i, a))
    multi = [(d, v) for d, v in cand.items() if len(v) >= 2]
    if multi:
        multi.sort(key=lambda x: -len(x[1]))
        best = [m for m in multi if len(m[1]) == len(multi[0][1])]
        d, v = best[int(rng.integers(len(best)))]
        for i, a in v:
            act[i] = a
        return act.astype(np.int32)
    # no shared neighbour yet: every unconnected agent steps towards the nearest other head
    for i in range(n):
        if con[i]:
            continue
        others = [j for j in range(n) if j != i]
        if not others:
            break
        j = min(others, key=lambda j: abs(int(pos[i][0] - pos[j][0])) + abs(int(pos[i][1] - pos[j][1])))
        opts = [a for a in range(1, 5) if M[i, a]]
        if opts:
            act[i] = min(opts, key=lambda a: abs(int(pos[i][0]) + MOVES[a][0] - int(pos[j][0])) + abs(int(pos[i][1]) + MOVES[a][1] - int(pos[j][1])) + 0.1 * rng.random())
    return act.astype(np.int32)


def pol_complete(ctx):
    """Follow a full solution: the generator's solved board when the reset key is known, else an own search;
    falls back to greedy shortest paths."""
    from jmon.common import decode

    S = decode(ctx["state"])
    grid, pos, tg = S["grid"], _pos(S), _tgt(S)
    n, G = len(pos), grid.shape[0]
    if ctx["t"] == 0 or "connector_plan" not in ctx:
        plan = None
        if ctx["t"] == 0:
            if ctx.get("key") is not None:
                sb = solved_board(ctx["runner"].env, ctx["key"])
                if sb is not None and np.array_equal(sb[1], grid):
                    plan = certificate_paths(sb[0], pos, tg)
            if plan is None:
                ok, paths = solve_disjoint(G, pos, tg, cap=15000)
                plan = paths if ok else None
        ctx["connector_plan"] = plan
    plan = ctx["connector_plan"]
    M = np.asarray(ctx["ts"].observation.action_mask).astype(bool)
    act = np.zeros(n, np.int64)
    if plan is not None:
        for i in range(n):
            p = plan[i]
            cur = tuple(int(x) for x in pos[i])
            if cur in p and p.index(cur) + 1 < len(p):
                a = _dir(cur, p[p.index(cur) + 1])
                if M[i, a]:
                    act[i] = a
        return act.astype(np.int32)
    taken = set()
    for i in range(n):
        cur, t = tuple(int(x) for x in pos[i]), tuple(int(x) for x in tg[i])
        if cur == t or not _inside(G, *t):
            continue
        cells = {(r, c) for r in range(G) for c in range(G) if grid[r, c] == 0} | {cur, t}
        p = _bfs_path(cells, cur, t)
        if p is not None and len(p) > 1 and p[1] not in taken and M[i, _dir(cur, p[1])]:
            act[i] = _dir(cur, p[1])
            taken.add(p[1])
    return act.astype(np.int32)


def pol_frontier(ctx):
    """Each agent heads for a corner of the grid (agent i -> corner i mod 4) among its masked-in moves."""
    from jmon.common import decode

    S = decode(ctx["state"])
    pos = _pos(S)
    G = S["grid"].shape[0]
    M = np.asarray(ctx["ts"].observation.action_mask).astype(bool)
    corners = [(0, 0), (0, G - 1), (G - 1, G - 1), (G - 1, 0)]
    act = np.zeros(len(pos), np.int64)
    for i in range(len(pos)):
        t = corners[i % 4]
        opts = [a for a in range(1, 5) if M[i, a]]
        if opts:
            act[i] = min(opts, key=lambda a: abs(int(pos[i][0]) + MOVES[a][0] - t[0]) + abs(int(pos[i][1]) + MOVES[a][1] - t[1]) + 0.1 * ctx["rng"].random())
    return act.astype(np.int32)


def policies(P):
    return {"collide": pol_collide, "complete": pol_complete, "frontier": pol_frontier}
