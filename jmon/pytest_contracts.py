"""pytest plugin: run the repository's own tests with the jmon contracts installed and dump what they recorded."""
import json
import os


def pytest_configure(config):
    from jmon import contracts

    contracts.install()


def pytest_sessionfinish(session, exitstatus):
    from jmon import contracts

    recs, counts = contracts.drain()
    out = os.environ.get("JMON_CONTRACT_OUT")
    if out:
        with open(out, "w") as f:
            json.dump({"records": recs, "counts": counts, "exitstatus": int(exitstatus)}, f)
