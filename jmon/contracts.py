"""icontract contracts on the real pure-Python functions of jumanji (specs, registration, tree_utils,
testing.pytrees). Conditions *record* and return True (a raising contract would abort the operation it
observes and change what the workload sees); the records are drained by the harness / pytest plugin.

install() patches both the defining attribute and the re-exported names, and counts evaluations so that
"the contract never ran" is visible (inconclusive), see DESIGN §7.
"""
from __future__ import annotations

from typing import Any, Dict, List

import numpy as np

RECORDS: List[Dict[str, Any]] = []
COUNTS: Dict[str, int] = {}
_installed = False


class ContractBroken(Exception):
    pass


def _count(name: str) -> None:
    COUNTS[name] = COUNTS.get(name, 0) + 1


def _record(contract: str, detail: str) -> None:
    if len(RECORDS) < 200:
        RECORDS.append({"contract": contract, "detail": detail[:400]})


def drain():
    out = (list(RECORDS), dict(COUNTS))
    RECORDS.clear()
    COUNTS.clear()
    return out


def install() -> None:
    global _installed
    if _installed:
        return
    _installed = True
    import icontract
    import jax
    import jax.numpy as jnp

    from jmon import specmodel as SM
    import jumanji
    from jumanji import registration, specs, tree_utils
    from jumanji.testing import pytrees

    # ------------------------------------------------------------------ specs.Array.validate (and subclasses via super())
    def validate_post(self, value, result):
        _count("Array.validate.post")
        try:
            v = np.asarray(jnp.asarray(value))
            r = np.asarray(result)
            if r.shape != v.shape or r.dtype != v.dtype or not np.array_equal(r, v, equal_nan=True):
                _record("validate_returns_value", f"{self!r}: returned {r!r} for {v!r}")
            if type(self) is specs.Array and SM.problems(self, r):
                _record("validate_accepted_nonmember", f"{self!r} accepted {r!r}: {SM.problems(self, r)[:2]}")
        except Exception as e:  # the contract itself must never disturb the workload
            _record("contract_error", repr(e))
        return True

    def bounded_validate_post(self, value, result):
        _count("BoundedArray.validate.post")
        try:
            r = np.asarray(result)
            probs = SM.problems(self, r)
            if probs:
                _record("validate_accepted_nonmember", f"{self!r} accepted {r!r}: {probs[:2]}")
        except Exception as e:
            _record("contract_error", repr(e))
        return True

    specs.Array.validate = icontract.ensure(validate_post, error=ContractBroken)(specs.Array.validate)
    specs.BoundedArray.validate = icontract.ensure(bounded_validate_post, error=ContractBroken)(specs.BoundedArray.validate)

    # ------------------------------------------------------------------ replace
    def replace_post(self, kwargs, result):
        _count("Array.replace.post")
        try:
            if type(result) is not type(self):
                _record("replace_keeps_class", f"{type(self).__name__} -> {type(result).__name__}")
            for attr in ("shape", "dtype", "name", "minimum", "maximum", "num_values"):
                if not hasattr(self, attr):
                    continue
                if attr in kwargs:
                    continue
                if isinstance(self, (specs.DiscreteArray, specs.MultiDiscreteArray)) and attr in ("shape", "minimum", "maximum") :
                    continue  # derived from num_values
                a, b = getattr(self, attr), getattr(result, attr)
                same = (np.asarray(a).shape == np.asarray(b).shape and bool(np.all(np.asarray(a) == np.asarray(b)))) if attr in ("minimum", "maximum", "num_values") else a == b
                if not same:
                    _record("replace_changes_only_named", f"{type(self).__name__}.replace({sorted(kwargs)}) changed {attr}: {a!r} -> {b!r}")
        except Exception as e:
            _record("contract_error", repr(e))
        return True

    def _wrap_replace(fn):
        def replace(self, **kwargs):
            result = fn(self, **kwargs)
            replace_post(self, kwargs, result)
            return result

        replace.__doc__ = fn.__doc__
        return replace

    specs.Array.replace = _wrap_replace(specs.Array.replace)

    # ------------------------------------------------------------------ generate_value (leaf specs)
    def generate_post(self, result):
        _count("Array.generate_value.post")
        try:
            probs = SM.problems(self, np.asarray(result))
            if probs:
                _record("generate_value_member", f"{self!r}: {probs[:2]}")
        except Exception as e:
            _record("contract_error", repr(e))
        return True

    specs.Array.generate_value = icontract.ensure(generate_post, error=ContractBroken)(specs.Array.generate_value)

    # ------------------------------------------------------------------ registration
    import re

    ID_OK = re.compile(r"^[A-Za-z0-9_:.\-]+-v[0-9]+$")

    def parse_post(id, result):
        _count("parse_env_id.post")
        try:
            name, version = result
            if not isinstance(name, str) or not isinstance(version, int) or name == "":
                _record("parse_result_types", f"{id!r} -> {result!r}")
            if registration.get_env_id(name, version) != id and str(version) == id.rsplit("-v", 1)[-1]:
                _record("parse_format_roundtrip", f"{id!r} -> {result!r} -> {registration.get_env_id(name, version)!r}")
        except Exception as e:
            _record("contract_error", repr(e))
        return True

    wrapped_parse = icontract.ensure(parse_post, error=ContractBroken)(registration.parse_env_id)
    registration.parse_env_id = wrapped_parse

    def register_wrapper(fn):
        def register(id, entry_point, **kwargs):
            before = dict(registration._REGISTRY)
            try:
                out = fn(id, entry_point, **kwargs)
            except Exception:
                _count("register.raised")
                if dict(registration._REGISTRY) != before:
                    _record("failed_register_leaves_registry", f"register({id!r}) raised but the registry changed")
                raise
            _count("register.returned")
            after = dict(registration._REGISTRY)
            new = set(after) - set(before)
            if len(new) != 1 or any(after[k] is not before[k] for k in before):
                _record("register_adds_exactly_one", f"register({id!r}): new ids {sorted(new)}")
            return out

        register.__doc__ = fn.__doc__
        return register

    reg_wrapped = register_wrapper(registration.register)
    registration.register = reg_wrapped
    if getattr(jumanji, "register", None) is not None:
        jumanji.register = reg_wrapped

    # ------------------------------------------------------------------ tree utils
    def slice_post(tree, i, result):
        _count("tree_slice.post")
        try:
            la, lb = jax.tree_util.tree_leaves(tree), jax.tree_util.tree_leaves(result)
            if len(la) != len(lb):
                _record("tree_slice_structure", "leaf count changed")
            for a, b in zip(la, lb):
                if not np.array_equal(np.asarray(a)[i], np.asarray(b), equal_nan=True) or np.asarray(b).dtype != np.asarray(a).dtype:
                    _record("tree_slice_leaf", f"x[{i}] mismatch")
                    break
        except Exception as e:
            _record("contract_error", repr(e))
        return True

    tree_utils.tree_slice = icontract.ensure(slice_post, error=ContractBroken)(tree_utils.tree_slice)

    def transpose_post(list_of_trees, result):
        _count("tree_transpose.post")
        try:
            lr = jax.tree_util.tree_leaves(result)
            for j, t in enumerate(list_of_trees):
                lt = jax.tree_util.tree_leaves(t)
                if len(lt) != len(lr):
                    _record("tree_transpose_structure", "leaf count changed")
                    break
                for a, b in zip(lr, lt):
                    if not np.array_equal(np.asarray(a)[j], np.asarray(b), equal_nan=True):
                        _record("tree_transpose_leaf", f"stack[{j}] mismatch")
                        return True
        except Exception as e:
            _record("contract_error", repr(e))
        return True

    tree_utils.tree_transpose = icontract.ensure(transpose_post, error=ContractBroken)(tree_utils.tree_transpose)

    def add_post(tree, i, element, result):
        _count("tree_add_element.post")
        try:
            for a, e, r in zip(jax.tree_util.tree_leaves(tree), jax.tree_util.tree_leaves(element), jax.tree_util.tree_leaves(result)):
                a, e, r = np.asarray(a), np.asarray(e), np.asarray(r)
                exp = a.copy()
                exp[i] = e
                if r.shape != a.shape or r.dtype != a.dtype or not np.array_equal(r, exp, equal_nan=True):
                    _record("tree_add_element_locality", f"index {i}")
                    break
        except Exception as e:
            _record("contract_error", repr(e))
        return True

    tree_utils.tree_add_element = icontract.ensure(add_post, error=ContractBroken)(tree_utils.tree_add_element)

    def different_wrapper(fn):
        def assert_trees_are_different(tree1, tree2):
            _count("assert_trees_are_different")
            eq = pytrees.is_equal_pytree(tree1, tree2)
            try:
                fn(tree1, tree2)
                raised = False
            except AssertionError:
                raised = True
                if not eq:
                    _record("different_raises_iff_equal", "raised although is_equal_pytree is False")
                raise
            if eq and not raised:
                _record("different_raises_iff_equal", "did not raise although is_equal_pytree is True")

        return assert_trees_are_different

    pytrees.assert_trees_are_different = different_wrapper(pytrees.assert_trees_are_different)
