"""A minimal Environment whose constructor records its arguments (used by the registry monitor C18)."""
from functools import cached_property

import jax.numpy as jnp

from jumanji import specs
from jumanji.env import Environment
from jumanji.types import restart, transition

CALLS = []


class ProbeEnv(Environment):
    def __init__(self, *args, **kwargs):
        self.args = args
        self.kwargs = dict(kwargs)
        CALLS.append((args, dict(kwargs)))
        super().__init__()

    @cached_property
    def observation_spec(self):
        return specs.Array((), jnp.int32, "obs")

    @cached_property
    def action_spec(self):
        return specs.DiscreteArray(2, name="action")

    def reset(self, key):
        return key, restart(jnp.zeros((), jnp.int32))

    def step(self, state, action):
        return state, transition(jnp.zeros(()), jnp.zeros((), jnp.int32))


class OtherProbeEnv(ProbeEnv):
    pass
