"""Shard subprocess: python -m jmon.worker <PROP> <shard.json> <out.json>."""
from __future__ import annotations

import importlib
import json
import sys
import traceback


def main() -> int:
    prop, fin, fout = sys.argv[1:4]
    with open(fin) as f:
        shard = json.load(f)
    from jmon.common import Report, setup_jax

    setup_jax()
    mod = importlib.import_module(f"jmon.props.{prop.lower()}")
    rep = Report(prop, shard["id"])
    try:
        mod.run_shard(shard, rep)
    except Exception:
        # an exception escaping a monitor is a harness problem (repository exceptions on calls a
        # property speaks about are caught inside the monitors and turned into violations)
        rep.inconclusive.append("harness exception: " + traceback.format_exc()[-1200:])
    with open(fout, "w") as f:
        json.dump(rep.to_json(), f)
    return 0


if __name__ == "__main__":
    sys.exit(main())
