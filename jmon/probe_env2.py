"""A second module that defines a class with the *same name* as jmon.probe_env.ProbeEnv (entry points are "module:Class": two
registrations may share the class-name half). Instances carry a marker so that the registry monitor can tell them apart."""
from jmon import probe_env as _p


class ProbeEnv(_p.ProbeEnv):
    MODULE_MARKER = "probe_env2"
