"""Action-space helpers shared by all workloads: mask layout per environment, samplers, enumeration."""
from __future__ import annotations

import itertools
from typing import List, Optional

import numpy as np

MASK_KIND = {
    "Game2048": "flat", "GraphColoring": "flat", "SlidingTilePuzzle": "flat", "Knapsack": "flat",
    "CVRP": "flat", "Maze": "flat", "PacMan": "flat", "Snake": "flat", "TSP": "flat",
    "Minesweeper": "joint", "Sudoku": "joint", "BinPack": "joint", "FlatPack": "joint", "Tetris": "joint",
    "JobShop": "per_agent", "Cleaner": "per_agent", "Connector": "per_agent", "LevelBasedForaging": "per_agent",
    "MMST": "per_agent", "MultiCVRP": "per_agent", "RobotWarehouse": "per_agent",
    "RubiksCube": None, "Sokoban": None,
}


def spec_bounds(spec):
    """(lo, hi) integer arrays of the action spec broadcast to its shape (inclusive)."""
    shape = tuple(spec.shape)
    lo = np.broadcast_to(np.asarray(spec.minimum), shape).astype(np.int64)
    hi = np.broadcast_to(np.asarray(spec.maximum), shape).astype(np.int64)
    return lo, hi


def np_dtype(spec):
    return np.dtype(spec.dtype)


def as_action(spec, a):
    import jax.numpy as jnp

    return jnp.asarray(np.asarray(a, dtype=np_dtype(spec)).reshape(tuple(spec.shape)))


def sample_random(spec, rng: np.random.Generator) -> np.ndarray:
    lo, hi = spec_bounds(spec)
    return rng.integers(lo, hi + 1).astype(np_dtype(spec)).reshape(tuple(spec.shape))


def get_mask(ts) -> Optional[np.ndarray]:
    m = getattr(ts.observation, "action_mask", None)
    return None if m is None else np.asarray(m)


def sample_masked(env_name: str, spec, mask: Optional[np.ndarray], rng: np.random.Generator):
    """Uniform over masked-in actions. Returns (action, all_components_masked_in)."""
    kind = MASK_KIND[env_name]
    if kind is None or mask is None:
        return sample_random(spec, rng), True
    dt = np_dtype(spec)
    if kind == "flat":
        idx = np.flatnonzero(mask)
        if len(idx) == 0:
            return sample_random(spec, rng), False
        return np.asarray(rng.choice(idx), dt), True
    if kind == "joint":
        idx = np.argwhere(mask)
        if len(idx) == 0:
            return sample_random(spec, rng), False
        return idx[rng.integers(len(idx))].astype(dt), True
    out, ok = [], True
    lo, hi = spec_bounds(spec)
    for i, row in enumerate(mask):
        idx = np.flatnonzero(row)
        if len(idx) == 0:
            # an agent with an empty mask row (e.g. a finished MMST agent) has nothing to respect: whatever it
            # plays, the joint action still counts as mask-respecting
            out.append(int(lo[i]))
        else:
            out.append(int(rng.choice(idx)))
    return np.asarray(out, dt), ok


def is_masked_in(env_name: str, mask: Optional[np.ndarray], action) -> bool:
    kind = MASK_KIND[env_name]
    if kind is None or mask is None:
        return True
    a = np.asarray(action)
    if kind == "flat":
        return bool(a < mask.shape[0] and mask[int(a)])
    if kind == "joint":
        return bool(mask[tuple(int(x) for x in a)])
    return all(bool(int(x) < mask.shape[1] and mask[i, int(x)]) for i, x in enumerate(a) if mask[i].any())


def sample_illegal(env_name: str, spec, mask: Optional[np.ndarray], rng: np.random.Generator):
    """An in-spec action with at least one masked-out component, or None when the mask is full."""
    kind = MASK_KIND[env_name]
    if kind is None or mask is None:
        return None
    dt = np_dtype(spec)
    lo, hi = spec_bounds(spec)
    if kind == "flat":
        idx = np.flatnonzero(~mask[: int(hi) + 1])
        return None if len(idx) == 0 else np.asarray(rng.choice(idx), dt)
    if kind == "joint":
        sub = mask[tuple(slice(0, int(h) + 1) for h in hi)]
        idx = np.argwhere(~sub)
        return None if len(idx) == 0 else idx[rng.integers(len(idx))].astype(dt)
    act, _ = sample_masked(env_name, spec, mask, rng)
    act = np.array(act)
    cands = [(i, j) for i in range(mask.shape[0]) for j in range(min(mask.shape[1], int(hi[i]) + 1)) if not mask[i, j]]
    if not cands:
        return None
    i, j = cands[rng.integers(len(cands))]
    act[i] = j
    return act.astype(dt)


def num_actions(spec) -> int:
    lo, hi = spec_bounds(spec)
    n = 1
    for l, h in zip(lo.ravel(), hi.ravel()):
        n *= int(h - l + 1)
    return n


def all_actions(spec, cap: int = 4096) -> Optional[List[np.ndarray]]:
    """Every action of the space (None if larger than cap)."""
    if num_actions(spec) > cap:
        return None
    lo, hi = spec_bounds(spec)
    dt = np_dtype(spec)
    if tuple(spec.shape) == ():
        return [np.asarray(v, dt) for v in range(int(lo), int(hi) + 1)]
    ranges = [range(int(l), int(h) + 1) for l, h in zip(lo.ravel(), hi.ravel())]
    return [np.asarray(t, dt).reshape(tuple(spec.shape)) for t in itertools.product(*ranges)]
