"""Shared helpers: decoding JAX pytrees to NumPy dicts, digests, comparisons, JSON conversion.

Everything the oracles look at goes through `decode`, so the monitors work on plain NumPy
values and never on JAX arrays.
"""
from __future__ import annotations

import hashlib
import json
import os
import zlib
from typing import Any, Dict, List, Optional, Tuple

import numpy as np

ROOT = os.path.dirname(os.path.dirname(os.path.abspath(__file__)))


def setup_jax() -> None:
    """Per-process JAX settings (call before the first jax computation)."""
    os.environ.setdefault("JAX_PLATFORMS", "cpu")
    os.environ.setdefault(
        "XLA_FLAGS",
        "--xla_cpu_multi_thread_eigen=false intra_op_parallelism_threads=1 "
        "--xla_force_host_platform_device_count=1",
    )
    import warnings

    warnings.filterwarnings("ignore")
    import jax

    if os.environ.get("JMON_NO_CACHE") != "1":
        cache = os.path.join(ROOT, ".cache", "jax")
        try:
            os.makedirs(cache, exist_ok=True)
            jax.config.update("jax_compilation_cache_dir", cache)
            jax.config.update("jax_persistent_cache_min_compile_time_secs", 1.0)
            jax.config.update("jax_persistent_cache_min_entry_size_bytes", 0)
        except Exception:
            pass


def path_str(path) -> str:
    import jax

    out = []
    for p in path:
        if isinstance(p, jax.tree_util.GetAttrKey):
            out.append(str(p.name))
        elif isinstance(p, jax.tree_util.DictKey):
            out.append(str(p.key))
        elif isinstance(p, jax.tree_util.SequenceKey):
            out.append(str(p.idx))
        elif isinstance(p, jax.tree_util.FlattenedIndexKey):
            out.append(str(p.key))
        else:
            out.append(str(p))
    return ".".join(out)


def decode(tree) -> Dict[str, np.ndarray]:
    """Flatten any pytree to {dotted field path: numpy array} (device_get included)."""
    import jax

    leaves = jax.tree_util.tree_flatten_with_path(tree)[0]
    out = {}
    for path, leaf in leaves:
        out[path_str(path)] = np.asarray(jax.device_get(leaf))
    return out


def digest_decoded(d: Dict[str, np.ndarray]) -> str:
    h = hashlib.sha1()
    for k in sorted(d):
        v = np.ascontiguousarray(d[k])
        h.update(k.encode())
        h.update(str(v.dtype).encode())
        h.update(str(v.shape).encode())
        h.update(v.tobytes())
    return h.hexdigest()[:16]


def digest(tree) -> str:
    return digest_decoded(decode(tree))


def leaf_equal(a: np.ndarray, b: np.ndarray, exact: bool = True, rtol=1e-5, atol=1e-6) -> bool:
    a = np.asarray(a)
    b = np.asarray(b)
    if a.shape != b.shape:
        return False
    if a.dtype != b.dtype:
        return False
    if exact or not np.issubdtype(a.dtype, np.floating):
        return bool(np.array_equal(a, b, equal_nan=True))
    return bool(np.allclose(a, b, rtol=rtol, atol=atol, equal_nan=True))


def tree_diff(
    da: Dict[str, np.ndarray],
    db: Dict[str, np.ndarray],
    exact: bool = True,
    rtol=1e-5,
    atol=1e-6,
    ignore: Tuple[str, ...] = (),
) -> List[str]:
    """Names of the fields on which two decoded trees differ (structure, dtype, shape or value)."""
    bad = []
    keys = set(da) | set(db)
    for k in sorted(keys):
        if any(k == i or k.startswith(i + ".") for i in ignore):
            continue
        if k not in da or k not in db:
            bad.append(k + " (missing)")
            continue
        if not leaf_equal(da[k], db[k], exact=exact, rtol=rtol, atol=atol):
            bad.append(k)
    return bad


def jsonable(x: Any, maxlen: int = 400) -> Any:
    """Convert nested NumPy/JAX content to JSON-serialisable, truncating large arrays."""
    if isinstance(x, dict):
        return {str(k): jsonable(v, maxlen) for k, v in x.items()}
    if isinstance(x, (list, tuple)):
        return [jsonable(v, maxlen) for v in x]
    if isinstance(x, (str, bool, int, type(None))):
        return x
    if isinstance(x, float):
        if x != x or x in (float("inf"), float("-inf")):
            return repr(x)
        return x
    if isinstance(x, (np.bool_,)):
        return bool(x)
    if isinstance(x, np.integer):
        return int(x)
    if isinstance(x, np.floating):
        return jsonable(float(x))
    try:
        a = np.asarray(x)
    except Exception:
        return repr(x)[:maxlen]
    if a.dtype == object:
        return repr(x)[:maxlen]
    if a.size > maxlen:
        return {"shape": list(a.shape), "dtype": str(a.dtype), "head": jsonable(a.ravel()[:32].tolist())}
    return jsonable(a.tolist())


def crc(s: str) -> int:
    return zlib.crc32(s.encode()) & 0xFFFFFFFF


def shard_rng(seed: int, shard_id: str) -> np.random.Generator:
    return np.random.default_rng(np.random.SeedSequence([int(seed), crc(shard_id)]))


def key_for(seed: int, shard_id: str, episode: int):
    import jax

    v = (int(seed) * 1000003 + crc(shard_id) * 7919 + episode * 104729) % (2**31 - 1)
    return jax.random.PRNGKey(v), v


def short(x: Any, n: int = 300) -> str:
    s = x if isinstance(x, str) else json.dumps(jsonable(x))
    return s if len(s) <= n else s[: n - 3] + "..."


class Report:
    """What a shard hands back to the driver."""

    def __init__(self, prop: str, shard_id: str):
        self.prop = prop
        self.shard_id = shard_id
        self.evaluations = 0
        self.digests: set = set()
        self.counters: Dict[str, int] = {}
        self.samples: List[Any] = []
        self.violations: List[Dict[str, Any]] = []
        self.notes: List[str] = []
        self.states = 0
        self.transitions = 0
        self.inconclusive: List[str] = []
        self.per_env: Dict[str, Dict[str, int]] = {}
        self.exhaustive: Dict[str, Any] = {}

    def count(self, name: str, n: int = 1) -> None:
        self.counters[name] = self.counters.get(name, 0) + n

    def env_count(self, env: str, name: str, n: int = 1) -> None:
        d = self.per_env.setdefault(env, {})
        d[name] = d.get(name, 0) + n

    def evaluated(self, n: int = 1, dig: Optional[str] = None) -> None:
        self.evaluations += n
        if dig is not None:
            self.digests.add(dig)

    def sample(self, s: Any, cap: int = 4) -> None:
        if len(self.samples) < cap:
            self.samples.append(jsonable(s))

    def violation(
        self,
        env: str,
        cfg: str,
        clause: str,
        detail: Any,
        replay: Optional[Dict[str, Any]] = None,
        qualifier: str = "",
    ) -> None:
        # keep at most 3 witnesses per (env, clause, qualifier) per shard, but count all
        self.count(f"violation:{env}:{clause}")
        same = [v for v in self.violations if v["env"] == env and v["clause"] == clause and v["qualifier"] == qualifier]
        if len(same) >= 3:
            return
        self.violations.append(
            {
                "property": self.prop,
                "env": env,
                "cfg": cfg,
                "clause": clause,
                "qualifier": qualifier,
                "detail": jsonable(detail),
                "replay": jsonable(replay, maxlen=100000) if replay is not None else None,
                "shard": self.shard_id,
            }
        )

    def to_json(self) -> Dict[str, Any]:
        return {
            "prop": self.prop,
            "shard_id": self.shard_id,
            "evaluations": self.evaluations,
            "digests": sorted(self.digests),
            "counters": self.counters,
            "samples": self.samples,
            "violations": self.violations,
            "notes": self.notes[:20],
            "states": self.states,
            "transitions": self.transitions,
            "inconclusive": self.inconclusive,
            "per_env": self.per_env,
            "exhaustive": self.exhaustive,
        }
