"""./check entry point: build shards, run them in subprocesses, merge, write evidence, decide.

Exit codes: 0 = held on everything explored (known findings are printed, not alarms);
1 = at least one violation that known_findings.json does not list (VIOLATION lines);
2 = inconclusive (a coverage floor was missed or a worker died in harness code).
"""
from __future__ import annotations

import argparse
import concurrent.futures as cf
import hashlib
import importlib
import json
import os
import subprocess
import sys
import tempfile
import time
from typing import Any, Dict, List

from jmon.common import ROOT, jsonable

PROPS = [f"C{i:02d}" for i in range(1, 20)]


def load_known() -> List[Dict[str, Any]]:
    p = os.path.join(ROOT, "known_findings.json")
    if not os.path.exists(p):
        return []
    with open(p) as f:
        data = json.load(f)
    return [e for e in data.get("findings", []) if e.get("status", "open") == "open"]


def match_known(v: Dict[str, Any], known: List[Dict[str, Any]]):
    for e in known:
        if e["property"] != v["property"]:
            continue
        if e["env"] != v["env"] or e["clause"] != v["clause"]:
            continue
        if e.get("qualifier", "") != v.get("qualifier", ""):
            continue
        return e
    return None


def run_one(prop: str, shard: Dict[str, Any], timeout: float, workdir: str) -> Dict[str, Any]:
    sid = shard["id"]
    fn = os.path.join(workdir, hashlib.sha1(sid.encode()).hexdigest()[:12])
    with open(fn + ".in.json", "w") as f:
        json.dump(shard, f)
    env = dict(os.environ)
    pre = (os.environ["JMON_REPO"] + os.pathsep) if os.environ.get("JMON_REPO") else ""
    env["PYTHONPATH"] = pre + ROOT + os.pathsep + os.path.join(ROOT, ".deps") + os.pathsep + env.get("PYTHONPATH", "")
    env["PYTHONHASHSEED"] = "0"
    env["JUMANJI_VERIF"] = "1"
    env.setdefault("JAX_PLATFORMS", "cpu")
    env.setdefault("OMP_NUM_THREADS", "1")
    env.setdefault("OPENBLAS_NUM_THREADS", "1")
    t0 = time.time()
    try:
        p = subprocess.run(
            ["/venv/bin/python", "-m", "jmon.worker", prop, fn + ".in.json", fn + ".out.json"],
            env=env,
            cwd=ROOT,
            timeout=timeout,
            stdout=subprocess.PIPE,
            stderr=subprocess.PIPE,
            text=True,
        )
    except subprocess.TimeoutExpired:
        return {"shard_id": sid, "crashed": f"timeout after {timeout:.0f}s", "wall": time.time() - t0}
    if p.returncode != 0 or not os.path.exists(fn + ".out.json"):
        tail = (p.stderr or "")[-1500:]
        return {"shard_id": sid, "crashed": f"exit {p.returncode}: {tail}", "wall": time.time() - t0}
    with open(fn + ".out.json") as f:
        rep = json.load(f)
    rep["wall"] = time.time() - t0
    return rep


def main(argv=None) -> int:
    ap = argparse.ArgumentParser()
    ap.add_argument("prop")
    ap.add_argument("--tier", default=os.environ.get("VERIF_TIER", "quick"), choices=["quick", "thorough"])
    ap.add_argument("--replay", default=None)
    ap.add_argument("--jobs", type=int, default=int(os.environ.get("JMON_JOBS", "16")))
    ap.add_argument("--only", default=None, help="substring filter on shard ids (debugging; evidence not written)")
    ap.add_argument("--verbose", action="store_true")
    args = ap.parse_args(argv)
    prop = args.prop.upper()
    if prop not in PROPS:
        print(f"unknown property {prop}")
        return 2
    seed = int(os.environ.get("VERIF_SEED", "0"))
    mod = importlib.import_module(f"jmon.props.{prop.lower()}")
    t0 = time.time()

    replay_rec = None
    if args.replay:
        with open(args.replay) as f:
            replay_rec = json.load(f)
        shards = [replay_rec["shard_def"]]
        tier = replay_rec["shard_def"].get("tier", args.tier)
    else:
        tier = args.tier
        shards = mod.shards(tier, seed)
        for s in shards:
            s["tier"] = tier
            s["seed"] = seed
            s["prop"] = prop
        if args.only:
            only = args.only
            shards = [s for s in shards if (s["id"].startswith(only[1:]) if only.startswith("^") else only in s["id"])]
    timeout = float(getattr(mod, "SHARD_TIMEOUT", {}).get(tier, 1500))
    os.makedirs(os.path.join(ROOT, ".work"), exist_ok=True)
    reports = []
    with tempfile.TemporaryDirectory(dir=os.path.join(ROOT, ".work")) as wd:
        # heavy shards first
        shards_sorted = sorted(shards, key=lambda s: -float(s.get("weight", 1.0)))
        with cf.ThreadPoolExecutor(max_workers=max(1, args.jobs)) as ex:
            futs = {ex.submit(run_one, prop, s, timeout, wd): s for s in shards_sorted}
            for fu in cf.as_completed(futs):
                r = fu.result()
                reports.append(r)
                if args.verbose:
                    print(
                        f"  shard {r['shard_id']} {r.get('wall', 0):.0f}s eval={r.get('evaluations')} "
                        f"viol={len(r.get('violations', []))} {r.get('crashed', '')}",
                        flush=True,
                    )

    reports.sort(key=lambda r: r["shard_id"])
    known = load_known()
    merged_counters: Dict[str, int] = {}
    per_env: Dict[str, Dict[str, int]] = {}
    digests = set()
    evaluations = states = transitions = 0
    samples: List[Any] = []
    violations: List[Dict[str, Any]] = []
    inconclusive: List[str] = []
    exhaustive: Dict[str, Any] = {}
    notes: List[str] = []
    for r in reports:
        if "crashed" in r:
            inconclusive.append(f"shard {r['shard_id']}: {r['crashed'][-600:]}")
            continue
        evaluations += r["evaluations"]
        states += r["states"]
        transitions += r["transitions"]
        digests.update(r["shard_id"].split("|")[0] + ":" + d for d in r["digests"])
        for k, v in r["counters"].items():
            merged_counters[k] = merged_counters.get(k, 0) + v
        for e, d in r["per_env"].items():
            pe = per_env.setdefault(e, {})
            for k, v in d.items():
                pe[k] = pe.get(k, 0) + v
        if len(samples) < 12:
            samples.extend(r["samples"][:2])
        violations.extend(r["violations"])
        inconclusive.extend(f"shard {r['shard_id']}: {x}" for x in r["inconclusive"])
        exhaustive.update(r.get("exhaustive", {}))
        notes.extend(r.get("notes", []))

    if replay_rec is not None:
        want = (replay_rec["env"], replay_rec["clause"])
        hit = [v for v in violations if (v["env"], v["clause"]) == want]
        if hit:
            print(f"REPLAY reproduced: property={prop} env={want[0]} clause={want[1]}")
            print(json.dumps(hit[0]["detail"])[:2000])
            print(f"VIOLATION property={prop} replay={args.replay}")
            return 1
        print(f"REPLAY not reproduced on the current tree: property={prop} env={want[0]} clause={want[1]}")
        return 0

    floors_missed = []
    if not args.only:
        floors_missed = list(mod.floors(tier, merged_counters, per_env))
    inconclusive.extend(f"floor: {x}" for x in floors_missed)

    # classify violations
    unlisted, listed = [], []
    for v in violations:
        e = match_known(v, known)
        (listed if e else unlisted).append((v, e))

    os.makedirs(os.path.join(ROOT, "replays"), exist_ok=True)
    out_lines = []
    seen_known = {}
    for v, e in listed:
        seen_known.setdefault(e["id"], [e, 0])[1] += 1
    for kid, (e, n) in sorted(seen_known.items()):
        out_lines.append(f"KNOWN-FINDING: property={prop} {e['id']}: {e['what']} (re-observed in {n} witness(es))")
    seen_groups = {}
    for v, _ in unlisted:
        g = (v["env"], v["clause"], v.get("qualifier", ""))
        if g in seen_groups:
            continue
        h = hashlib.sha1(json.dumps(v, sort_keys=True).encode()).hexdigest()[:10]
        path = os.path.join(ROOT, "replays", f"{prop}-{v['env']}-{v['clause']}-{h}.json".replace("/", "_").replace(" ", "_"))
        shard_def = next((s for s in shards if s["id"] == v["shard"]), None)
        with open(path, "w") as f:
            json.dump({**v, "shard_def": shard_def}, f, indent=1)
        seen_groups[g] = path
        out_lines.append(f"VIOLATION property={prop} replay={path}")
        out_lines.append(f"  env={v['env']} cfg={v['cfg']} clause={v['clause']} detail={json.dumps(v['detail'])[:600]}")

    wall = time.time() - t0
    evidence = {
        "property_id": prop,
        "tier": tier,
        "seed": seed,
        "level": "exploration",
        "coverage": {
            "evaluations": int(evaluations),
            "distinct_nontrivial": int(len(digests)),
            "rule": getattr(mod, "RULE", ""),
            "samples": samples[:12] if samples else [],
            "states": int(states),
            "transitions": int(transitions),
            "per_env": per_env,
            "clause_counters": {k: v for k, v in sorted(merged_counters.items())},
            "shards": len(shards),
            "shards_crashed": sum(1 for r in reports if "crashed" in r),
            "floors_missed": floors_missed,
            "inconclusive": inconclusive[:40],
            "known_findings_seen": sorted(seen_known),
            "unlisted_violation_groups": [list(g) for g in seen_groups],
            "notes": sorted(set(notes))[:40],
        },
        "assumptions": list(getattr(mod, "ASSUMPTIONS", [])),
        "wall_s": round(wall, 2),
        "violations": len(seen_groups),
    }
    if exhaustive:
        evidence["coverage"]["exhaustive_subspaces"] = exhaustive
    if not args.only:
        # runs against another checkout (JMON_REPO: seeded changes) must not overwrite the evidence of /repo
        write_evidence(prop, evidence, sub=".work/evidence_other_repo" if os.environ.get("JMON_REPO") else "evidence")

    for l in out_lines:
        print(l)
    verdict = "violated" if seen_groups else ("inconclusive" if inconclusive else "held")
    print(
        f"{prop} tier={tier} seed={seed}: {verdict}; shards={len(shards)} evaluations={evaluations} "
        f"distinct={len(digests)} states={states} transitions={transitions} wall={wall:.0f}s"
    )
    if seen_groups:
        return 1
    if inconclusive:
        for x in inconclusive[:20]:
            print(f"INCONCLUSIVE property={prop} reason={x[:800]}")
        return 2
    return 0


def write_evidence(prop: str, evidence: Dict[str, Any], sub: str = "evidence") -> None:
    import jsonschema

    with open(os.path.join(ROOT, "schemas", "EVIDENCE.schema.json")) as f:
        schema = json.load(f)
    ev = jsonable(evidence, maxlen=100000)
    if not ev["coverage"]["samples"]:
        ev["coverage"]["samples"] = ["(no sample recorded)"]
    try:
        jsonschema.validate(ev, schema)
    except jsonschema.ValidationError as e:
        ev["coverage"]["schema_problem"] = str(e.message)[:300]
    os.makedirs(os.path.join(ROOT, sub), exist_ok=True)
    tmp = os.path.join(ROOT, sub, f".{prop}.json.tmp")
    with open(tmp, "w") as f:
        json.dump(ev, f, indent=1, sort_keys=True)
    os.replace(tmp, os.path.join(ROOT, sub, f"{prop}.json"))


if __name__ == "__main__":
    sys.exit(main())
