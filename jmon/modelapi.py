"""Interface between the model-based monitors (C04..C12) and the per-environment model modules.

A model module lives in jmon/models/<env_lower>.py, is pure NumPy/Python, is written from the documented
rules (DESIGN §4) and never imports the repository's environment code. All functions receive a ModelCtx
`P` and *decoded* values (dict: dotted field path -> numpy array, see jmon.common.decode) and return a list
of problems, each a string "clause_id: human readable detail" (empty list = fine). They call
`P.hit("clause_id")` whenever a clause was evaluated non-vacuously (coverage counters).

Optional functions (implement those in scope for the environment, see SCOPE below):

  params(cfg) -> dict                          documented defaults merged with the configuration dict
  legal(P, S, O) -> bool ndarray               shaped like observation.action_mask (C04, C05); for Sokoban /
                                               envs without mask: shaped like the action space
  reaction(P, S, a, S2, ev, agent) -> str      "accepted" | "invalid": how the environment treated action `a`
                                               (component `agent` of it for per-agent masks) (C04)
  illegal_effect(P, S, a, S2, ev, agent) -> problems   documented effect of an illegal action (C05)
  hard_constraints(P, trace) -> problems       feasibility of the partial solution after trace[-1] (C06);
                                               P.shadow is a dict that lives for one episode
  complete(P, trace) -> None | problems        None when the episode did not end by completion; otherwise the
                                               problems of the final state as a complete feasible solution (C06)
  physical(P, S_prev, a, S) -> problems        physical consistency / conservation (C07); S_prev, a None at reset
  objective(P, trace) -> None | float          documented objective of a naturally ended legal episode (C08)
  check_step(P, S, a, S2, reward, last, ev) -> problems    reference-model agreement (C09)
  synthetic(P, rng, tier) -> problems          direct tests of public rule functions on generated inputs (C09)
  instance(P, S0, ev) -> problems              generator invariants of a reset state (C10)
  generator_checks(P, env, rng, tier) -> problems   extra generator API checks, e.g. generate_solution (C10)
  RANDOM_GENERATOR(cfg) -> bool                whether the configuration's generator is advertised as random (C10)
  other_end_reason(P, S_prev, a, S, ev) -> bool   has the episode ended for a reason other than the limit (C11)
  horizon(P) -> int                            structural horizon for no-limit environments (C11)
  time_limit(P) -> int                         effective time limit of the configuration (C11)
  check_obs(P, S, O) -> problems               observation == documented function of the state (C12)
  dense_sparse(P, trace, ret, ret_twin, twin_ended_at) -> problems   replaces the generic "same return under the other
                                               reward function" clause where the two functions are documented as
                                               different objectives (C08)
  qualify(P, clause, ev) -> str                precondition of the mechanism behind a problem of this clause (e.g.
                                               "max_degree<=4"); becomes the violation's qualifier, the key under which
                                               a known finding is listed
  key_score(P, S0) -> float                    workload hint: larger = reset instance more likely to reach boundary values;
                                               C01 searches 64 keys and plays the adversarial policies on the best ones
  policies(P) -> {name: fn(ctx) -> action}     extra workload policies (complete / collide / frontier ...)
"""
from __future__ import annotations

import importlib
from typing import Any, Dict, List, Optional

import numpy as np

SCOPE = {
    "C04": ["Game2048", "GraphColoring", "Minesweeper", "SlidingTilePuzzle", "Sudoku", "BinPack", "FlatPack", "JobShop",
            "Knapsack", "Tetris", "Cleaner", "Connector", "CVRP", "LevelBasedForaging", "Maze", "MMST", "MultiCVRP",
            "PacMan", "RobotWarehouse", "Snake", "TSP"],
    "C05": ["TSP", "CVRP", "Knapsack", "BinPack", "JobShop", "GraphColoring", "Sudoku", "Minesweeper", "Snake", "Tetris",
            "Cleaner", "Maze", "PacMan", "Sokoban", "SlidingTilePuzzle", "Game2048", "FlatPack", "Connector",
            "RobotWarehouse", "LevelBasedForaging"],
    "C06": ["BinPack", "FlatPack", "Knapsack", "CVRP", "MultiCVRP", "TSP", "JobShop", "GraphColoring", "Sudoku",
            "Connector", "MMST"],
    "C07": ["Maze", "Cleaner", "PacMan", "Sokoban", "Snake", "Tetris", "Game2048", "Minesweeper", "Connector",
            "LevelBasedForaging", "RobotWarehouse"],
    "C08": ["TSP", "CVRP", "Knapsack", "BinPack", "FlatPack", "JobShop", "GraphColoring", "Game2048", "Snake", "Cleaner",
            "Minesweeper", "SlidingTilePuzzle", "LevelBasedForaging", "MultiCVRP"],
    "C09": ["Game2048", "Minesweeper", "Sudoku", "SlidingTilePuzzle", "Tetris", "Snake", "Sokoban", "Maze", "Cleaner",
            "Connector", "LevelBasedForaging", "Knapsack", "TSP", "CVRP", "JobShop", "GraphColoring", "FlatPack"],
    "C10": ["Game2048", "GraphColoring", "Minesweeper", "RubiksCube", "SlidingTilePuzzle", "Sudoku", "BinPack", "FlatPack",
            "JobShop", "Knapsack", "Tetris", "Cleaner", "Connector", "CVRP", "LevelBasedForaging", "Maze", "MMST",
            "MultiCVRP", "PacMan", "RobotWarehouse", "Snake", "Sokoban", "TSP"],
    "C11": ["RubiksCube", "SlidingTilePuzzle", "Tetris", "Cleaner", "Connector", "LevelBasedForaging", "Maze", "MMST",
            "PacMan", "RobotWarehouse", "Snake", "Sokoban", "TSP", "CVRP", "MultiCVRP", "Knapsack", "BinPack", "FlatPack",
            "JobShop", "GraphColoring", "Sudoku", "Minesweeper"],
    "C12": ["Game2048", "GraphColoring", "Minesweeper", "RubiksCube", "SlidingTilePuzzle", "Sudoku", "BinPack", "FlatPack",
            "JobShop", "Knapsack", "Tetris", "Cleaner", "Connector", "CVRP", "LevelBasedForaging", "Maze", "MMST",
            "MultiCVRP", "PacMan", "RobotWarehouse", "Snake", "Sokoban", "TSP"],
}
DENSE_SPARSE = ["TSP", "CVRP", "Knapsack", "BinPack", "MultiCVRP", "SlidingTilePuzzle"]

# the function a model must provide for an environment to count as covered for a property
REQUIRED_FN = {
    "C04": "legal", "C05": "illegal_effect", "C06": "hard_constraints", "C07": "physical", "C08": "objective",
    "C09": "check_step", "C10": "instance", "C11": None, "C12": "check_obs",
}

MODULE_NAME = {"LevelBasedForaging": "lbf", "Game2048": "game2048", "SlidingTilePuzzle": "sliding_tile", "RubiksCube": "rubiks_cube",
               "GraphColoring": "graph_coloring", "BinPack": "bin_pack", "FlatPack": "flat_pack", "JobShop": "job_shop",
               "MultiCVRP": "multi_cvrp", "PacMan": "pac_man", "RobotWarehouse": "robot_warehouse"}


def module_name(env: str) -> str:
    return MODULE_NAME.get(env, env.lower())


def get_model(env: str):
    try:
        return importlib.import_module(f"jmon.models.{module_name(env)}")
    except ModuleNotFoundError as e:
        if f"jmon.models.{module_name(env)}" in str(e):
            return None
        raise


class ModelCtx:
    def __init__(self, env_name: str, cfg: Dict[str, Any], rep, env=None, rng: Optional[np.random.Generator] = None):
        self.env_name = env_name
        self.cfg = cfg
        self.rep = rep
        self.env = env  # the real environment object (only for C10 generator_checks / constants not in cfg)
        self.rng = rng
        self.shadow: Dict[str, Any] = {}
        self.model = get_model(env_name)
        self.params: Dict[str, Any] = {}
        if self.model is not None and hasattr(self.model, "params"):
            self.params = self.model.params(cfg)

    def hit(self, clause: str, n: int = 1) -> None:
        self.rep.count(f"clause:{self.env_name}:{clause}", n)
        self.rep.count(f"clause:{clause}", n)

    def has(self, fn: str) -> bool:
        return self.model is not None and hasattr(self.model, fn)

    def call(self, fn: str, *args, **kw):
        return getattr(self.model, fn)(self, *args, **kw)


def split_problem(p: str):
    if ":" in p:
        c, d = p.split(":", 1)
        c = c.strip()
        if c and " " not in c:
            return c, d.strip()
    return "model_problem", p
