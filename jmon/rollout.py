"""Workload layer: jitted runner, policies, episode loop with monitors and probes (DESIGN §1, §2.2)."""
from __future__ import annotations

from typing import Any, Callable, Dict, List, Optional

import numpy as np

from jmon import actions as A
from jmon import envs as E
from jmon.common import decode, digest_decoded


class Runner:
    """Real environment driven under jax.jit at its public boundary."""

    def __init__(self, env_name: str, cfg: Dict[str, Any]):
        import jax

        self.env_name = env_name
        self.cfg = cfg
        self.cfg_id = cfg["id"]
        self.env = E.build(env_name, cfg)
        self.spec = self.env.action_spec
        self._reset = jax.jit(self.env.reset)
        self._step = jax.jit(self.env.step)
        self.time_limit = cfg.get("time_limit")

    def reset(self, key):
        return self._reset(key)

    def step(self, state, action):
        return self._step(state, A.as_action(self.spec, action))


class Event:
    """One boundary observation: reset (action None) or step. Decoding is lazy and cached."""

    def __init__(self, runner: Runner, episode: int, t: int, key_int, actions: List[Any], prev_state, action, state, ts, prev_ts=None, probe=False):
        self.runner = runner
        self.env = runner.env_name
        self.cfg = runner.cfg
        self.cfg_id = runner.cfg_id
        self.episode = episode
        self.t = t  # number of steps taken to reach `state` (0 for reset)
        self.key_int = key_int
        self.actions = actions  # action list from reset to this event (python lists)
        self.prev_state = prev_state
        self.prev_ts = prev_ts
        self.action = None if action is None else np.asarray(action)
        self.state = state
        self.ts = ts
        self.probe = probe  # a branch off the main trajectory
        self.post_terminal = False
        self.legal_only = True
        self.meta = {}
        self.prev_event = None
        self._cache: Dict[str, Any] = {}

    def _get(self, name, fn):
        if name not in self._cache:
            self._cache[name] = fn()
        return self._cache[name]

    @property
    def S(self) -> Dict[str, np.ndarray]:
        return self._get("S", lambda: decode(self.state))

    @property
    def S0(self) -> Optional[Dict[str, np.ndarray]]:
        if self.prev_event is not None:
            return self.prev_event.S
        return None if self.prev_state is None else self._get("S0", lambda: decode(self.prev_state))

    @property
    def O(self) -> Dict[str, np.ndarray]:
        return self._get("O", lambda: decode(self.ts.observation))

    @property
    def O0(self) -> Optional[Dict[str, np.ndarray]]:
        if self.prev_event is not None:
            return self.prev_event.O
        return None if self.prev_ts is None else self._get("O0", lambda: decode(self.prev_ts.observation))

    @property
    def X(self) -> Dict[str, np.ndarray]:
        return self._get("X", lambda: decode(self.ts.extras) if self.ts.extras else {})

    @property
    def step_type(self) -> int:
        return self._get("st", lambda: int(np.asarray(self.ts.step_type)))

    @property
    def reward(self) -> np.ndarray:
        return self._get("rw", lambda: np.asarray(self.ts.reward))

    @property
    def discount(self) -> np.ndarray:
        return self._get("dc", lambda: np.asarray(self.ts.discount))

    @property
    def last(self) -> bool:
        return self.step_type == 2

    @property
    def digest(self) -> str:
        return self._get("dg", lambda: digest_decoded({k: v for k, v in self.S.items() if k != "key"}))

    def replay(self) -> Dict[str, Any]:
        return {
            "env": self.env,
            "cfg": self.cfg,
            "reset_key_int": self.key_int,
            "actions": [np.asarray(a).tolist() for a in self.actions],
            "t": self.t,
            "probe": self.probe,
        }

    def brief(self) -> Dict[str, Any]:
        return {
            "env": self.env, "cfg": self.cfg_id, "reset_key_int": self.key_int, "t": self.t,
            "action": None if self.action is None else self.action.tolist(),
            "step_type": self.step_type, "reward": self.reward.tolist(), "discount": self.discount.tolist(),
        }


class Monitor:
    def on_reset(self, ev: Event) -> None: ...
    def on_step(self, ev: Event) -> None: ...
    def on_episode_end(self, trace: List[Event]) -> None: ...
    def wants_probe(self, ev: Event) -> bool:
        return False
    def finish(self) -> None: ...


# ------------------------------------------------------------------ policies

def pol_random(ctx):
    return A.sample_random(ctx["spec"], ctx["rng"])


def pol_masked(ctx):
    a, ok = A.sample_masked(ctx["env_name"], ctx["spec"], A.get_mask(ctx["ts"]), ctx["rng"])
    if not ok:
        ctx["legal_only"] = False
    return a


def pol_first(ctx):
    """Deterministic: smallest masked-in index (per agent)."""
    m = A.get_mask(ctx["ts"])
    kind = A.MASK_KIND[ctx["env_name"]]
    spec = ctx["spec"]
    if m is None or kind is None:
        return A.sample_random(spec, ctx["rng"])
    dt = A.np_dtype(spec)
    if kind in ("flat", "joint") and not m.any():
        ctx["legal_only"] = False  # nothing is masked-in: whatever is played is not mask-respecting
    if kind == "flat":
        idx = np.flatnonzero(m)
        return np.asarray(idx[0] if len(idx) else 0, dt)
    if kind == "joint":
        idx = np.argwhere(m)
        return (idx[0] if len(idx) else np.zeros(len(spec.shape) and spec.shape[0], int)).astype(dt)
    return np.asarray([(np.flatnonzero(r)[0] if r.any() else 0) for r in m], dt)


def pol_last(ctx):
    """Deterministic: largest masked-in index (per agent)."""
    m = A.get_mask(ctx["ts"])
    kind = A.MASK_KIND[ctx["env_name"]]
    spec = ctx["spec"]
    if m is None or kind is None:
        return A.sample_random(spec, ctx["rng"])
    dt = A.np_dtype(spec)
    if kind in ("flat", "joint") and not m.any():
        ctx["legal_only"] = False
    if kind == "flat":
        idx = np.flatnonzero(m)
        return np.asarray(idx[-1] if len(idx) else 0, dt)
    if kind == "joint":
        idx = np.argwhere(m)
        return (idx[-1] if len(idx) else np.zeros(spec.shape[0], int)).astype(dt)
    return np.asarray([(np.flatnonzero(r)[-1] if r.any() else 0) for r in m], dt)


def pol_invalid_late(ctx):
    """masked play for a random prefix, then one action with a masked-out component."""
    if "switch_at" not in ctx:
        ctx["switch_at"] = int(ctx["rng"].integers(0, 6))
    if ctx["t"] == ctx["switch_at"]:
        a = A.sample_illegal(ctx["env_name"], ctx["spec"], A.get_mask(ctx["ts"]), ctx["rng"])
        if a is not None:
            ctx["legal_only"] = False
            return a
        ctx["switch_at"] += 1
    return pol_masked(ctx)


def pol_survive(ctx):
    """Pick, among a handful of candidate actions, one whose successor is not LAST (uses the real
    step as a one-step look-ahead; policies may read anything, they are not oracles)."""
    runner, state, rng = ctx["runner"], ctx["state"], ctx["rng"]
    m = A.get_mask(ctx["ts"])
    cands = []
    for _ in range(6):
        a, _ok = A.sample_masked(ctx["env_name"], ctx["spec"], m, rng)
        cands.append(a)
    if ctx["env_name"] in ("RobotWarehouse", "Connector", "LevelBasedForaging"):
        cands.insert(0, np.zeros(tuple(ctx["spec"].shape), A.np_dtype(ctx["spec"])))  # all no-op
    for a in cands:
        _, ts2 = runner.step(state, a)
        if int(np.asarray(ts2.step_type)) != 2:
            return a
    return cands[0]


def pol_mixed(ctx):
    """80 % masked, 20 % uniformly random (legal or not)."""
    if ctx["rng"].random() < 0.8:
        return pol_masked(ctx)
    a = A.sample_random(ctx["spec"], ctx["rng"])
    if not A.is_masked_in(ctx["env_name"], A.get_mask(ctx["ts"]), a):
        ctx["legal_only"] = False
    return a


def _planner(runner: Runner, depth: int):
    """jit(vmap) of the real environment over every action sequence of length `depth` (small flat action spaces):
    returns for each sequence how many steps it survives and the reward it collects. Workload only, never an oracle."""
    import itertools

    import jax
    import jax.numpy as jnp

    cache = runner.__dict__.setdefault("_planner_cache", {})
    if depth in cache:
        return cache[depth]
    env = runner.env
    acts = A.all_actions(runner.spec, cap=8)
    if acts is None:
        cache[depth] = None
        return None
    n = len(acts)
    seqs = np.asarray(list(itertools.product(range(n), repeat=depth)), np.int32)
    table = jnp.asarray(np.stack([np.asarray(a) for a in acts]))

    def roll(state, seq):
        def body(carry, xi):
            s, alive, surv, ret = carry
            i, j = xi
            s2, ts = env.step(s, table[i])
            r = jnp.sum(ts.reward).astype(jnp.float32)
            ret = ret + jnp.where(alive, r, 0.0)
            alive2 = alive & ~ts.last()
            surv = surv + alive2.astype(jnp.int32)
            return (s2, alive2, surv, ret), None

        (_, _, surv, ret), _ = jax.lax.scan(body, (state, jnp.array(True), jnp.array(0, jnp.int32), jnp.array(0.0, jnp.float32)), (seq, jnp.arange(depth)))
        return surv, ret

    f = jax.jit(jax.vmap(roll, in_axes=(None, 0)))
    cache[depth] = (f, jnp.asarray(seqs), seqs, acts)
    return cache[depth]


def pol_plan(ctx):
    """Depth-3 exhaustive look-ahead through the real (vmapped) step: survive as long as possible, then collect reward
    (long PacMan / Snake / 2048 / Sokoban episodes that random play never reaches)."""
    pl = _planner(ctx["runner"], 3)
    if pl is None:
        return pol_survive(ctx)
    f, jseqs, seqs, acts = pl
    surv, ret = f(ctx["state"], jseqs)
    score = np.asarray(surv).astype(np.float64) * 1e4 + np.asarray(ret).astype(np.float64) + ctx["rng"].random(len(seqs)) * 1e-3
    m = A.get_mask(ctx["ts"])
    if m is not None and m.ndim == 1 and m.any():
        # ignored (masked-out) moves "survive" for ever without making progress: the first move must be a legal one
        first_ok = np.asarray([bool(int(i) < len(m) and m[int(i)]) for i in seqs[:, 0]])
        score = np.where(first_ok, score, -1.0)
    a = acts[int(seqs[int(np.argmax(score))][0])]
    if not A.is_masked_in(ctx["env_name"], A.get_mask(ctx["ts"]), a):
        ctx["legal_only"] = False
    return a


POLICIES: Dict[str, Callable] = {
    "random": pol_random, "masked": pol_masked, "first": pol_first, "last": pol_last,
    "invalid_late": pol_invalid_late, "survive": pol_survive, "mixed": pol_mixed, "plan": pol_plan,
}


def run_episode(
    runner: Runner,
    key,
    key_int,
    policy,
    rng: np.random.Generator,
    monitors: List[Monitor],
    episode: int = 0,
    max_steps: int = 400,
    post_terminal: int = 0,
    probe_fn: Optional[Callable[[Event], List[Any]]] = None,
) -> Dict[str, Any]:
    """One episode; every reset/step (and every probe branch) is fed to the monitors.

    probe_fn(ev) returns the actions to branch on from ev.state (ev not LAST); the branches are
    reported to the monitors as probe events and do not advance the main trajectory."""
    pol = POLICIES[policy] if isinstance(policy, str) else policy
    state, ts = runner.reset(key)
    acts: List[Any] = []
    ev = Event(runner, episode, 0, key_int, list(acts), None, None, state, ts)
    trace = [ev]
    for m in monitors:
        m.on_reset(ev)
    ctx = {"env_name": runner.env_name, "spec": runner.spec, "rng": rng, "runner": runner, "legal_only": True, "policy": policy if isinstance(policy, str) else "custom", "key": key, "key_int": key_int, "episode": episode}
    t = 0
    after_last = 0
    info = {"steps": 0, "ended": False, "legal_only": True, "policy": ctx["policy"]}
    while t < max_steps:
        if ev.last:
            info["ended"] = True
            if after_last >= post_terminal:
                break
            after_last += 1
        elif probe_fn is not None:
            for pa in probe_fn(ev) or []:
                meta = {}
                if isinstance(pa, tuple):
                    pa, meta = pa
                s2, ts2 = runner.step(state, pa)
                pev = Event(runner, episode, t + 1, key_int, acts + [np.asarray(pa)], state, pa, s2, ts2, prev_ts=ts, probe=True)
                pev.meta = meta
                pev.prev_event = ev
                for m in monitors:
                    m.on_step(pev)
        ctx.update(ts=ts, state=state, t=t)
        if after_last > 0 and after_last % 2 == 1:
            # steps after a LAST: every other one plays any in-spec action (legal or not for the terminal state), the others
            # continue with the episode's policy
            a = pol_random(ctx)
        elif after_last > 0:
            try:  # the state after a LAST need not be one the episode's policy can read (a head outside the board ...)
                a = pol(ctx)
            except Exception:
                a = pol_random(ctx)
        else:
            a = pol(ctx)
        s2, ts2 = runner.step(state, a)
        acts.append(np.asarray(a))
        t += 1
        prev_ev = ev
        ev = Event(runner, episode, t, key_int, list(acts), state, a, s2, ts2, prev_ts=ts)
        ev.prev_event = prev_ev
        ev.post_terminal = after_last > 0
        ev.legal_only = ctx["legal_only"]
        if not ev.post_terminal:
            trace.append(ev)
        for m in monitors:
            m.on_step(ev)
        state, ts = s2, ts2
    info["steps"] = t
    info["legal_only"] = ctx["legal_only"]
    info["ended"] = info["ended"] or ev.last
    for m in monitors:
        m.on_episode_end(trace)
    info["trace"] = trace
    return info
