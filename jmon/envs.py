"""Configuration matrix (DESIGN §2.1) and builders.

A configuration is a plain JSON dict {"id": ..., params...}; `build(env_name, cfg)` constructs the
environment from it, so a shard (and a replay file) can name its configuration without pickling.
"""
from __future__ import annotations

import os
import tempfile
from typing import Any, Dict, List

ENVS = [
    "Game2048", "GraphColoring", "Minesweeper", "RubiksCube", "SlidingTilePuzzle", "Sudoku",
    "BinPack", "FlatPack", "JobShop", "Knapsack", "Tetris",
    "Cleaner", "Connector", "CVRP", "LevelBasedForaging", "Maze", "MMST", "MultiCVRP", "PacMan",
    "RobotWarehouse", "Snake", "Sokoban", "TSP",
]

TIME_LIMIT_ENVS = [
    "RubiksCube", "SlidingTilePuzzle", "Tetris", "Cleaner", "Connector", "LevelBasedForaging",
    "Maze", "MMST", "PacMan", "RobotWarehouse", "Snake", "Sokoban",
]
MULTI_AGENT_REWARD = ["Connector", "LevelBasedForaging"]  # reward/discount shaped (num_agents,)


def _c(id: str, **kw) -> Dict[str, Any]:
    d = {"id": id}
    d.update(kw)
    return d


# first entry of every list = the registered default configuration
CONFIGS: Dict[str, Dict[str, List[Dict[str, Any]]]] = {
    "Game2048": {
        "quick": [_c("default"), _c("b3", board_size=3), _c("b6", board_size=6, deep=["plan", 5000])],
        "thorough": [_c("default"), _c("b2", board_size=2), _c("b3", board_size=3), _c("b5", board_size=5), _c("b6", board_size=6, deep=["plan", 9000])],
    },
    "GraphColoring": {
        "quick": [_c("default"), _c("n6p5", num_nodes=6, edge_probability=0.5), _c("n40p3", num_nodes=40, edge_probability=0.3)],
        "thorough": [
            _c("default"), _c("n2p5", num_nodes=2, edge_probability=0.5), _c("n5p1", num_nodes=5, edge_probability=0.1),
            _c("n6p5", num_nodes=6, edge_probability=0.5), _c("n5p9", num_nodes=5, edge_probability=0.9),
            _c("n20p5", num_nodes=20, edge_probability=0.5), _c("n135big", num_nodes=135, edge_probability=0.05, light=140), _c("n40p3", num_nodes=40, edge_probability=0.3)
        ],
    },
    "Minesweeper": {
        "quick": [_c("default"), _c("r3c7m5", rows=3, cols=7, mines=5), _c("r4c5m3rw", rows=4, cols=5, mines=3, rewards=[2.0, -3.0, -5.0]), _c("r5c4m4rwint", rows=5, cols=4, mines=4, rewards=[2, -3, -5]), _c("cu_done_never", custom="done_never", rows=4, cols=5, mines=3, props=["C02", "C03"]), _c("cu_done_always", custom="done_always", rows=4, cols=5, mines=3, props=["C01", "C02", "C03"]), _c("cu_pyreward", custom="pyreward", rows=4, cols=5, mines=3, props=["C01", "C02", "C03"]), _c("r16c17m40", rows=16, cols=17, mines=40, props=["C10", "C07", "C01"])],
        "thorough": [
            _c("default"), _c("r2c2m1", rows=2, cols=2, mines=1), _c("r3c7m5", rows=3, cols=7, mines=5),
            _c("r6c4m23", rows=6, cols=4, mines=23),
            _c("r4c5m3rw", rows=4, cols=5, mines=3, rewards=[2.0, -3.0, -5.0]), _c("r5c4m4rwint", rows=5, cols=4, mines=4, rewards=[2, -3, -5]), _c("cu_done_never", custom="done_never", rows=4, cols=5, mines=3, props=["C02", "C03"]), _c("cu_done_always", custom="done_always", rows=4, cols=5, mines=3, props=["C01", "C02", "C03"]), _c("cu_pyreward", custom="pyreward", rows=4, cols=5, mines=3, props=["C01", "C02", "C03"]), _c("cu_done_mixed", custom="done_mixed", rows=4, cols=5, mines=3, props=["C01", "C02", "C03"]), _c("r16c17m40big", rows=16, cols=17, mines=40, light=240), _c("r16c17m40", rows=16, cols=17, mines=40, props=["C10", "C07", "C01"])
        ],
    },
    "RubiksCube": {
        "quick": [_c("default"), _c("n2s3L7", cube_size=2, scrambles=3, time_limit=7), _c("n2s1L1", cube_size=2, scrambles=1, time_limit=1), _c("mk_partlyL3", make_id="RubiksCube-partly-scrambled-v0", cube_size=3, scrambles=7, time_limit=3), _c("n2s5L41", cube_size=2, scrambles=5, time_limit=41), _c("n2s3L300", cube_size=2, scrambles=3, time_limit=300, props=["C11"])],
        "thorough": [
            _c("default"), _c("n2s3L7", cube_size=2, scrambles=3, time_limit=7),
            _c("n4s7L20", cube_size=4, scrambles=7, time_limit=20), _c("n5s1L3", cube_size=5, scrambles=1, time_limit=3),
            _c("n3s0L2", cube_size=3, scrambles=0, time_limit=2), _c("n7s100L200", cube_size=7, scrambles=100, time_limit=200),
            _c("n6s2L1", cube_size=6, scrambles=2, time_limit=1), _c("n2s1L1", cube_size=2, scrambles=1, time_limit=1),
            _c("n3s2L2", cube_size=3, scrambles=2, time_limit=2), _c("mk_partlyL3", make_id="RubiksCube-partly-scrambled-v0", cube_size=3, scrambles=7, time_limit=3), _c("mk_partlyL33", make_id="RubiksCube-partly-scrambled-v0", cube_size=3, scrambles=7, time_limit=33), _c("mk_L2", make_id="RubiksCube-v0", time_limit=2), _c("cu_pyreward", custom="pyreward", time_limit=6, props=["C01", "C02", "C03"]), _c("n2s2L5np", cube_size=2, scrambles=2, time_limit=5, tl_type="np.int32"), _c("n2s5L41", cube_size=2, scrambles=5, time_limit=41), _c("n2s3L300", cube_size=2, scrambles=3, time_limit=300, props=["C11"])
        ],
    },
    "SlidingTilePuzzle": {
        "quick": [_c("default"), _c("g3m20L7", grid_size=3, moves=20, time_limit=7), _c("g3m20L55", grid_size=3, moves=20, time_limit=55)],
        "thorough": [
            _c("default"), _c("g2m5L3", grid_size=2, moves=5, time_limit=3), _c("g3m20L7", grid_size=3, moves=20, time_limit=7),
            _c("g4m50sparse", grid_size=4, moves=50, reward="sparse", time_limit=30), _c("g3m1L2", grid_size=3, moves=1, time_limit=2),
            _c("g2m0L1", grid_size=2, moves=0, time_limit=1), _c("g3m3sparse", grid_size=3, moves=3, reward="sparse", time_limit=20), _c("mk_L3", make_id="SlidingTilePuzzle-v0", time_limit=3), _c("cu_pyreward", custom="pyreward", time_limit=6, props=["C01", "C02", "C03"]), _c("g3m9L5np", grid_size=3, moves=9, time_limit=5, tl_type="np.int64"), _c("g3m20L55", grid_size=3, moves=20, time_limit=55)
        ],
    },
    "Sudoku": {
        "quick": [_c("default"), _c("veryeasy", gen="very-easy"), _c("tiny5u8", gen="tiny", n=5, db_dtype="uint8"), _c("cu_pyreward", custom="pyreward", props=["C01", "C02", "C03"])],
        "thorough": [_c("default"), _c("veryeasy", gen="very-easy"), _c("veryeasynp", gen="very-easy", np_db=True), _c("dummy", gen="dummy"), _c("tiny3", gen="tiny", n=3),
                     _c("tiny5u8", gen="tiny", n=5, db_dtype="uint8"), _c("tiny4i64", gen="tiny", n=4, db_dtype="int64"), _c("cu_pyreward", custom="pyreward", props=["C01", "C02", "C03"])],
    },
    "BinPack": {
        "quick": [_c("default"), _c("r10e12o5", gen="random", max_items=10, max_ems=12, split_same=2, obs_num_ems=5, debug=True),
                  # user-defined container sizes (smaller and not proportional to the 20-ft default), CSV and random instances
                  _c("csvbox", gen="csv", max_ems=30, obs_num_ems=30, container=[1200, 800, 1000], debug=True),
                  _c("r8e12cube", gen="random", max_items=8, max_ems=12, split_same=2, obs_num_ems=12, container=[700, 700, 700], debug=True),
                  _c("r16e24s7", gen="random", max_items=16, max_ems=24, split_same=7, obs_num_ems=24, debug=True, c10_keys={"quick": 1500, "thorough": 6000}), _c("csvloose", gen="csvloose", max_ems=40, obs_num_ems=40, debug=True), _c("csvloosesparse", gen="csvloose", max_ems=40, obs_num_ems=20, reward="sparse", container=[3000, 2000, 2000], debug=True), _c("r12e30tallraw", gen="random", max_items=12, max_ems=30, split_same=3, obs_num_ems=30, container=[1000, 1200, 2000], normalize=False, debug=True)],
        "thorough": [
            _c("default"), _c("r10e12o5", gen="random", max_items=10, max_ems=12, split_same=2, obs_num_ems=5, debug=True),
            _c("r10e12o5nonorm", gen="random", max_items=10, max_ems=12, split_same=2, obs_num_ems=5, normalize=False, debug=True),
            _c("toy", gen="toy", obs_num_ems=20, normalize=False, debug=True),
            _c("r5e6sparse", gen="random", max_items=5, max_ems=6, split_same=1, obs_num_ems=6, reward="sparse", debug=True),
            _c("r30e40", gen="random", max_items=30, max_ems=40, split_same=3, obs_num_ems=40, debug=True),
            _c("csv", gen="csv", max_ems=30, obs_num_ems=30, debug=True),
            _c("csvbox", gen="csv", max_ems=30, obs_num_ems=30, container=[1200, 800, 1000], debug=True),
            _c("r8e12cube", gen="random", max_items=8, max_ems=12, split_same=2, obs_num_ems=12, container=[700, 700, 700], debug=True),
            _c("csvlong", gen="csv", max_ems=30, obs_num_ems=10, container=[9000, 1500, 1200], normalize=False, debug=True),
            _c("r16e24s7", gen="random", max_items=16, max_ems=24, split_same=7, obs_num_ems=24, debug=True, c10_keys={"quick": 1500, "thorough": 6000}),
            _c("r24e30s12", gen="random", max_items=24, max_ems=30, split_same=12, obs_num_ems=30, debug=True), _c("cu_pyreward", custom="pyreward", props=["C01", "C02", "C03"]), _c("csvloose", gen="csvloose", max_ems=40, obs_num_ems=40, debug=True), _c("csvloosesparse", gen="csvloose", max_ems=40, obs_num_ems=20, reward="sparse", container=[3000, 2000, 2000], debug=True), _c("r12e30tallraw", gen="random", max_items=12, max_ems=30, split_same=3, obs_num_ems=30, container=[1000, 1200, 2000], normalize=False, debug=True)
        ],
    },
    "FlatPack": {
        "quick": [_c("default"), _c("r2c2", row_blocks=2, col_blocks=2), _c("r2c3", row_blocks=2, col_blocks=3), _c("r3c2", row_blocks=3, col_blocks=2)],
        "thorough": [
            _c("default"), _c("r1c1", row_blocks=1, col_blocks=1), _c("r1c3", row_blocks=1, col_blocks=3),
            _c("r2c2", row_blocks=2, col_blocks=2), _c("r3c2block", row_blocks=3, col_blocks=2, reward="block"),
            _c("toyrot", gen="toy_rot"), _c("toynorot", gen="toy_norot", reward="block"), _c("r2c3", row_blocks=2, col_blocks=3),
            _c("r4c2", row_blocks=4, col_blocks=2), _c("r3c2", row_blocks=3, col_blocks=2), _c("r4c3", row_blocks=4, col_blocks=3), _c("cu_pyreward", custom="pyreward", props=["C01", "C02", "C03"]), _c("r8c16big", row_blocks=8, col_blocks=16, light=140, props=["C06"])
        ],
    },
    "JobShop": {
        "quick": [_c("default"), _c("j5m3o4d3", jobs=5, machines=3, ops=4, dur=3)],
        "thorough": [
            _c("default"), _c("j2m2o2d2", jobs=2, machines=2, ops=2, dur=2), _c("j5m3o4d3", jobs=5, machines=3, ops=4, dur=3),
            _c("toy", gen="toy"), _c("j3m5o3d4", jobs=3, machines=5, ops=3, dur=4),
        ],
    },
    "Knapsack": {
        "quick": [_c("default"), _c("n10b2sparse", items=10, budget=2.0, reward="sparse"), _c("grid12b2", gen="grid", items=12, budget=2.0), _c("n8b3int", items=8, budget=3), _c("cu_pyreward", custom="pyreward", props=["C01", "C02", "C03"]), _c("dec14b2", gen="decimal", items=14, budget=2.0), _c("dec10b1p3sparse", gen="decimal", items=10, budget=1.3, reward="sparse"), _c("var12b3", gen="varbudget", items=12, budget=3.0, props=["C01", "C02", "C03", "C04", "C05", "C06", "C09", "C11", "C12"])],
        "thorough": [
            _c("default"), _c("n3b05", items=3, budget=0.5), _c("n10b2sparse", items=10, budget=2.0, reward="sparse"),
            _c("n10b2", items=10, budget=2.0), _c("n50sparse", items=50, budget=12.5, reward="sparse"),
            _c("grid12b2", gen="grid", items=12, budget=2.0), _c("grid8b1sparse", gen="grid", items=8, budget=1.0, reward="sparse"), _c("n8b3int", items=8, budget=3), _c("cu_pyreward", custom="pyreward", props=["C01", "C02", "C03"]), _c("dec14b2", gen="decimal", items=14, budget=2.0), _c("dec10b1p3sparse", gen="decimal", items=10, budget=1.3, reward="sparse"), _c("dec30b3p15", gen="decimal", items=30, budget=3.15), _c("n300big", items=300, budget=40.0, light=310), _c("var12b3", gen="varbudget", items=12, budget=3.0, props=["C01", "C02", "C03", "C04", "C05", "C06", "C09", "C11", "C12"])
        ],
    },
    "Tetris": {
        "quick": [_c("default"), _c("r6c5L3", rows=6, cols=5, time_limit=3), _c("r5c8L12", rows=5, cols=8, time_limit=12), _c("r6c5L300", rows=6, cols=5, time_limit=300, props=["C11"])],
        "thorough": [
            _c("default"), _c("r4c4L3", rows=4, cols=4, time_limit=3), _c("r6c5L3", rows=6, cols=5, time_limit=3), _c("r6c5L7", rows=6, cols=5, time_limit=7),
            _c("r5c12L30", rows=5, cols=12, time_limit=30), _c("r10c6L2", rows=10, cols=6, time_limit=2),
            _c("r7c4L1", rows=7, cols=4, time_limit=1), _c("r5c8L12", rows=5, cols=8, time_limit=12), _c("mk_L4", make_id="Tetris-v0", time_limit=4), _c("r6c5L4np", rows=6, cols=5, time_limit=4, tl_type="np.int64"), _c("r10c10L41", rows=10, cols=10, time_limit=41), _c("r6c5L300", rows=6, cols=5, time_limit=300, props=["C11"])
        ],
    },
    "Cleaner": {
        "quick": [_c("default"), _c("r5c11a2L7", rows=5, cols=11, agents=2, time_limit=7), _c("r4c7a1", rows=4, cols=7, agents=1), _c("r7c4a2", rows=7, cols=4, agents=2),
                  _c("r6c5a2pint", rows=6, cols=5, agents=2, penalty=1), _c("r5c6a2p0", rows=5, cols=6, agents=2, penalty=0.0), _c("r5c6a2L5np", rows=5, cols=6, agents=2, time_limit=5, tl_type="np.int32"), _c("r5c6a2L47", rows=5, cols=6, agents=2, time_limit=47), _c("r5c11a2L300", rows=5, cols=11, agents=2, time_limit=300, props=["C11"])],
        "thorough": [
            _c("default"), _c("r5c5a1", rows=5, cols=5, agents=1), _c("r5c11a2L7", rows=5, cols=11, agents=2, time_limit=7),
            _c("r11c5a3p0", rows=11, cols=5, agents=3, penalty=0.0), _c("r3c3a4L3", rows=3, cols=3, agents=4, time_limit=3),
            _c("r7c9a2L2", rows=7, cols=9, agents=2, time_limit=2), _c("r9c7a2L1", rows=9, cols=7, agents=2, time_limit=1),
            _c("r5c11a2", rows=5, cols=11, agents=2), _c("r4c7a1", rows=4, cols=7, agents=1), _c("r7c4a2", rows=7, cols=4, agents=2),
            _c("r6c5a2pint", rows=6, cols=5, agents=2, penalty=1), _c("r5c6a2p0", rows=5, cols=6, agents=2, penalty=0.0), _c("mk_L5", make_id="Cleaner-v0", time_limit=5), _c("r5c6a2L5np", rows=5, cols=6, agents=2, time_limit=5, tl_type="np.int32"), _c("r5c6a2L47", rows=5, cols=6, agents=2, time_limit=47), _c("r5c11a2L300", rows=5, cols=11, agents=2, time_limit=300, props=["C11"])
        ],
    },
    "Connector": {
        "quick": [_c("default"), _c("u5a4L7", gen="uniform", grid_size=5, agents=4, time_limit=7),
                  _c("u5a4rwL20", gen="uniform", grid_size=5, agents=4, time_limit=20, reward_coeffs=[2.0, -0.5]),
                  _c("w5a3rwintL15", grid_size=5, agents=3, time_limit=15, reward_coeffs=[3, -1]), _c("u5a3L41", gen="uniform", grid_size=5, agents=3, time_limit=41), _c("u5a4L300", gen="uniform", grid_size=5, agents=4, time_limit=300, props=["C11"])],
        "thorough": [
            _c("default"), _c("w3a1L3", grid_size=3, agents=1, time_limit=3), _c("u5a4L7", gen="uniform", grid_size=5, agents=4, time_limit=7),
            _c("w5a8L20", grid_size=5, agents=8, time_limit=20), _c("u4a3L2", gen="uniform", grid_size=4, agents=3, time_limit=2),
            _c("w6a4L1", grid_size=6, agents=4, time_limit=1), _c("u6a4", gen="uniform", grid_size=6, agents=4),
            _c("u5a4rwL20", gen="uniform", grid_size=5, agents=4, time_limit=20, reward_coeffs=[2.0, -0.5]),
            _c("w5a3rwintL15", grid_size=5, agents=3, time_limit=15, reward_coeffs=[3, -1]), _c("mk_L4", make_id="Connector-v2", time_limit=4), _c("u5a3L6np", gen="uniform", grid_size=5, agents=3, time_limit=6, tl_type="np.int64"), _c("u5a3L41", gen="uniform", grid_size=5, agents=3, time_limit=41), _c("u5a3L97", gen="uniform", grid_size=5, agents=3, time_limit=97), _c("w5a3L61", grid_size=5, agents=3, time_limit=61), _c("u5a4L300", gen="uniform", grid_size=5, agents=4, time_limit=300, props=["C11"])
        ],
    },
    "CVRP": {
        "quick": [_c("default"), _c("n10c3d3sparse", nodes=10, cap=3, demand=3, reward="sparse"), _c("pad12c9d4", gen="padded", nodes=12, cap=9, demand=4, props=["C01", "C02", "C03", "C04", "C05", "C06", "C08", "C09", "C11", "C12"])],
        "thorough": [
            _c("default"), _c("n2c2d2", nodes=2, cap=2, demand=2), _c("n5c10d10", nodes=5, cap=10, demand=10),
            _c("n10c3d3sparse", nodes=10, cap=3, demand=3, reward="sparse"), _c("n10c3d3", nodes=10, cap=3, demand=3),
            _c("n20sparse", nodes=20, cap=30, demand=10, reward="sparse"), _c("cu_pyreward", custom="pyreward", props=["C01", "C02", "C03"]), _c("pad12c9d4", gen="padded", nodes=12, cap=9, demand=4, props=["C01", "C02", "C03", "C04", "C05", "C06", "C08", "C09", "C11", "C12"]), _c("n135big", nodes=135, cap=40, demand=9, light=280)
        ],
    },
    "LevelBasedForaging": {
        "quick": [_c("default"), _c("g6a3f2v2gridL7", grid_size=6, agents=3, food=2, fov=2, grid_obs=True, time_limit=7),
                  _c("g6a3f2v1L20", grid_size=6, agents=3, food=2, fov=1, time_limit=20),
                  _c("g6a2f2v6rawpenintL15", grid_size=6, agents=2, food=2, fov=6, normalize=False, penalty=1, time_limit=15), _c("g8a2f6v8L30", grid_size=8, agents=2, food=6, fov=8, time_limit=30, c10_keys={"quick": 3000, "thorough": 12000}), _c("g10a3f12v3L30", grid_size=10, agents=3, food=12, fov=3, time_limit=30), _c("g8a3f2v8ml3L12", grid_size=8, agents=3, food=2, fov=8, max_level=3, time_limit=12), _c("g8a3f3v3ml4coopL12", grid_size=8, agents=3, food=3, fov=3, max_level=4, force_coop=True, time_limit=12), _c("g6a2f2v2gridL40", grid_size=6, agents=2, food=2, fov=2, grid_obs=True, time_limit=40), _c("g6a2f2v6L41", grid_size=6, agents=2, food=2, fov=6, time_limit=41), _c("g10a2f4v3L30", grid_size=10, agents=2, food=4, fov=3, time_limit=30)],
        "thorough": [
            _c("default"), _c("g5a1f1v1L3", grid_size=5, agents=1, food=1, fov=1, time_limit=3),
            _c("g6a3f2v2gridL7", grid_size=6, agents=3, food=2, fov=2, grid_obs=True, time_limit=7),
            _c("g7a4f2v3coop", grid_size=7, agents=4, food=2, fov=3, force_coop=True, time_limit=40),
            _c("g6a3f2v6rawpen", grid_size=6, agents=3, food=2, fov=6, normalize=False, penalty=1.0, time_limit=40),
            _c("g8a2f3v8gridL2", grid_size=8, agents=2, food=3, fov=8, grid_obs=True, max_level=3, time_limit=2),
            _c("g5a2f1v2L1", grid_size=5, agents=2, food=1, fov=2, time_limit=1),
            _c("g5a3f1v5L30", grid_size=5, agents=3, food=1, fov=5, time_limit=30),
            _c("g6a3f2v1L20", grid_size=6, agents=3, food=2, fov=1, time_limit=20),
            # constructor arguments given as Python ints where floats are documented (dtype promotion paths)
            _c("g6a2f2v6rawpenintL15", grid_size=6, agents=2, food=2, fov=6, normalize=False, penalty=1, time_limit=15),
            _c("g6a2f2v2gridpenint", grid_size=6, agents=2, food=2, fov=2, grid_obs=True, penalty=2, time_limit=25), _c("mk_L5", make_id="LevelBasedForaging-v0", time_limit=5), _c("g8a2f6v8L30", grid_size=8, agents=2, food=6, fov=8, time_limit=30, c10_keys={"quick": 3000, "thorough": 12000}), _c("g10a3f12v3L30", grid_size=10, agents=3, food=12, fov=3, time_limit=30), _c("g6a2f2v6L6np", grid_size=6, agents=2, food=2, fov=6, time_limit=6, tl_type="np.int64"), _c("g8a3f2v8ml3L12", grid_size=8, agents=3, food=2, fov=8, max_level=3, time_limit=12), _c("g8a3f3v3ml4coopL12", grid_size=8, agents=3, food=3, fov=3, max_level=4, force_coop=True, time_limit=12), _c("g6a2f2v2gridL40", grid_size=6, agents=2, food=2, fov=2, grid_obs=True, time_limit=40), _c("g6a2f2v6L41", grid_size=6, agents=2, food=2, fov=6, time_limit=41), _c("g10a2f4v3L30", grid_size=10, agents=2, food=4, fov=3, time_limit=30)
        ],
    },
    "Maze": {
        "quick": [_c("default"), _c("r5c9L7", rows=5, cols=9, time_limit=7), _c("r4c7", rows=4, cols=7), _c("r7c4", rows=7, cols=4), _c("mk_L4", make_id="Maze-v0", time_limit=4), _c("r5c6L6np", rows=5, cols=6, time_limit=6, tl_type="np.int64"), _c("r5c6L47", rows=5, cols=6, time_limit=47), _c("r5c9L300", rows=5, cols=9, time_limit=300, props=["C11"])],
        "thorough": [
            _c("default"), _c("r3c3", rows=3, cols=3), _c("r5c9L7", rows=5, cols=9, time_limit=7), _c("r9c4L3", rows=9, cols=4, time_limit=3),
            _c("toy", gen="toy"), _c("r5c9", rows=5, cols=9), _c("r7c6L2", rows=7, cols=6, time_limit=2), _c("r6c7L1", rows=6, cols=7, time_limit=1),
            _c("r4c7", rows=4, cols=7), _c("r7c4", rows=7, cols=4), _c("mk_L4", make_id="Maze-v0", time_limit=4), _c("r5c6L6np", rows=5, cols=6, time_limit=6, tl_type="np.int64"), _c("r5c6L47", rows=5, cols=6, time_limit=47), _c("r5c9L300", rows=5, cols=9, time_limit=300, props=["C11"])
        ],
    },
    # MMST: the class docstring documents `connected_nodes` as (num_agents, time_limit); a user generator whose `max_step` buffer
    # is shorter than the time limit contradicts that, and once the buffer is full the route bookkeeping (hence mask and
    # observation) is unspecified. Such a configuration is only used for the properties that do not depend on it: the time limit
    # itself (C11), the protocol (C03) and spec conformance (C01).
    "MMST": {
        "quick": [_c("default"), _c("n12e18d4a2p3L7", nodes=12, edges=18, degree=4, agents=2, per_agent=3, time_limit=7),
                  _c("n13e20d5a2p3", nodes=13, edges=20, degree=5, agents=2, per_agent=3, time_limit=30),
                  # small dense graphs with 3 and 4 agents: several agents are often adjacent to the same node
                  _c("n10e16d5a3p2", nodes=10, edges=16, degree=5, agents=3, per_agent=2, time_limit=20),
                  _c("n12e22d6a4p2", nodes=12, edges=22, degree=6, agents=4, per_agent=2, time_limit=20), _c("n12e18d5a2p3ms9L14", nodes=12, edges=18, degree=5, agents=2, per_agent=3, time_limit=14, max_step=9, props=["C01", "C03", "C11"]), _c("n12e18d5a2p3L41", nodes=12, edges=18, degree=5, agents=2, per_agent=3, time_limit=41)],
        "thorough": [
            _c("default"), _c("n12e18d4a2p3L7", nodes=12, edges=18, degree=4, agents=2, per_agent=3, time_limit=7),
            _c("n20e30d5a3p3L3", nodes=20, edges=30, degree=5, agents=3, per_agent=3, time_limit=3),
            _c("n12e18d4a2p3", nodes=12, edges=18, degree=4, agents=2, per_agent=3, time_limit=40),
            _c("n20e30d5a3p3L2", nodes=20, edges=30, degree=5, agents=3, per_agent=3, time_limit=2),
            _c("n12e18d4a2p3L1", nodes=12, edges=18, degree=4, agents=2, per_agent=3, time_limit=1),
            _c("n20e30d3a3p3", nodes=20, edges=30, degree=3, agents=3, per_agent=3, time_limit=30),
            _c("n13e20d5a2p3", nodes=13, edges=20, degree=5, agents=2, per_agent=3, time_limit=30),
            _c("n10e16d5a3p2", nodes=10, edges=16, degree=5, agents=3, per_agent=2, time_limit=20),
            _c("n12e22d6a4p2", nodes=12, edges=22, degree=6, agents=4, per_agent=2, time_limit=20), _c("mk_L6", make_id="MMST-v0", time_limit=6), _c("n12e18d5a2p3ms9L14", nodes=12, edges=18, degree=5, agents=2, per_agent=3, time_limit=14, max_step=9, props=["C01", "C03", "C11"]), _c("n12e18d5a2p3ms30L6", nodes=12, edges=18, degree=5, agents=2, per_agent=3, time_limit=6, max_step=30), _c("n12e18d5a2p3L6np", nodes=12, edges=18, degree=5, agents=2, per_agent=3, time_limit=6, tl_type="np.int64"), _c("n12e18d5a2p3L41", nodes=12, edges=18, degree=5, agents=2, per_agent=3, time_limit=41)
        ],
    },
    "MultiCVRP": {
        "quick": [_c("default"), _c("c6v2sparse", customers=6, vehicles=2, reward="sparse"), _c("c6v3", customers=6, vehicles=3)],
        "thorough": [
            _c("default"), _c("c6v2", customers=6, vehicles=2), _c("c6v2sparse", customers=6, vehicles=2, reward="sparse"),
            _c("c20v3", customers=20, vehicles=3), _c("c20v2sparse", customers=20, vehicles=2, reward="sparse"), _c("c6v3", customers=6, vehicles=3),
        ],
    },
    "PacMan": {
        "quick": [_c("default"), _c("L7", time_limit=7), _c("small12x13L40", maze="small", time_limit=40), _c("small12x13L400", maze="small", time_limit=400)],
        "thorough": [_c("default"), _c("L1", time_limit=1), _c("L2", time_limit=2), _c("L3", time_limit=3), _c("L7", time_limit=7), _c("L60", time_limit=60),
                     _c("small12x13L40", maze="small", time_limit=40), _c("small12x13L3", maze="small", time_limit=3), _c("small12x13L400", maze="small", time_limit=400), _c("mk_L5", make_id="PacMan-v1", time_limit=5), _c("L6np", time_limit=6, tl_type="np.int64"), _c("L41", time_limit=41)],
    },
    "RobotWarehouse": {
        "quick": [_c("default"), _c("s2x1h3a2r1q2L7", shelf_rows=2, shelf_cols=1, height=3, agents=2, sensor=1, queue=2, time_limit=7),
                  # a floor that is much wider than tall (5 x 16) with many agents
                  _c("s1x5h2a4r1q3L9", shelf_rows=1, shelf_cols=5, height=2, agents=4, sensor=1, queue=3, time_limit=9), _c("s2x1h3a2r1q2L55", shelf_rows=2, shelf_cols=1, height=3, agents=2, sensor=1, queue=2, time_limit=55)],
        "thorough": [
            _c("default"), _c("s2x1h3a2r1q2L7", shelf_rows=2, shelf_cols=1, height=3, agents=2, sensor=1, queue=2, time_limit=7),
            _c("s1x3h3a2r1q2L3", shelf_rows=1, shelf_cols=3, height=3, agents=2, sensor=1, queue=2, time_limit=3),
            _c("s1x3h3a3r2q4", shelf_rows=1, shelf_cols=3, height=3, agents=3, sensor=2, queue=4, time_limit=60),
            _c("s2x1h3a2r1q2L2", shelf_rows=2, shelf_cols=1, height=3, agents=2, sensor=1, queue=2, time_limit=2),
            _c("s1x3h3a1r1q2L1", shelf_rows=1, shelf_cols=3, height=3, agents=1, sensor=1, queue=2, time_limit=1),
            _c("s1x5h2a4r1q3L9", shelf_rows=1, shelf_cols=5, height=2, agents=4, sensor=1, queue=3, time_limit=9),
            _c("s1x7h1a5r2q4", shelf_rows=1, shelf_cols=7, height=1, agents=5, sensor=2, queue=4, time_limit=40), _c("mk_L4", make_id="RobotWarehouse-v0", time_limit=4), _c("s2x1h3a2r1q2L6np", shelf_rows=2, shelf_cols=1, height=3, agents=2, sensor=1, queue=2, time_limit=6, tl_type="np.int64"), _c("s2x1h3a2r1q2L55", shelf_rows=2, shelf_cols=1, height=3, agents=2, sensor=1, queue=2, time_limit=55)
        ],
    },
    "Snake": {
        "quick": [_c("default"), _c("r3c5L7", rows=3, cols=5, time_limit=7), _c("r3c4L60", rows=3, cols=4, time_limit=60), _c("mk_L5", make_id="Snake-v1", time_limit=5),
                  _c("r4c4L200", rows=4, cols=4, time_limit=200), _c("r2c3L40", rows=2, cols=3, time_limit=40), _c("r8c17L9500", rows=8, cols=17, time_limit=9500, deep=["complete", 9500]), _c("r4c5L6np", rows=4, cols=5, time_limit=6, tl_type="np.int64"), _c("r6c6L55", rows=6, cols=6, time_limit=55)],
        "thorough": [
            _c("default"), _c("r2c2L3", rows=2, cols=2, time_limit=3), _c("r3c5L7", rows=3, cols=5, time_limit=7),
            _c("r6c4L200", rows=6, cols=4, time_limit=200), _c("r4c6L2", rows=4, cols=6, time_limit=2), _c("r5c3L1", rows=5, cols=3, time_limit=1),
            _c("r3c4L60", rows=3, cols=4, time_limit=60), _c("mk_L5", make_id="Snake-v1", time_limit=5),
            _c("r4c4L200", rows=4, cols=4, time_limit=200), _c("r2c3L40", rows=2, cols=3, time_limit=40), _c("r5c6L500", rows=5, cols=6, time_limit=500), _c("r8c17L9500", rows=8, cols=17, time_limit=9500, deep=["complete", 9500]), _c("r4c5L6np", rows=4, cols=5, time_limit=6, tl_type="np.int64"), _c("r6c6L55", rows=6, cols=6, time_limit=55)
        ],
    },
    "Sokoban": {
        # the registered default generator downloads the DeepMind dataset: not explorable offline
        "quick": [_c("toy", gen="toy"), _c("randL7", gen="harness", border=False, time_limit=7), _c("rand", gen="harness", border=False, time_limit=40), _c("toyL47", gen="toy", time_limit=47), _c("toyL300", gen="toy", time_limit=300, props=["C11", "C03"])],
        "thorough": [
            _c("toy", gen="toy"), _c("simple", gen="simple"), _c("randL7", gen="harness", border=False, time_limit=7),
            _c("randborder", gen="harness", border=True, time_limit=60), _c("randsparseL3", gen="harness", border=False, reward="sparse", time_limit=3),
            _c("toyL2", gen="toy", time_limit=2), _c("simpleL1", gen="simple", time_limit=1), _c("rand", gen="harness", border=False, time_limit=40), _c("cu_pyreward", custom="pyreward", time_limit=6, props=["C01", "C02", "C03"]), _c("toyL5np", gen="toy", time_limit=5, tl_type="np.int64"), _c("toyL47", gen="toy", time_limit=47), _c("toyL300", gen="toy", time_limit=300, props=["C11", "C03"])
        ],
    },
    "TSP": {
        "quick": [_c("default"), _c("n5sparse", cities=5, reward="sparse"), _c("n4", cities=4), _c("cu_pyreward", custom="pyreward", props=["C01", "C02", "C03"])],
        "thorough": [_c("default"), _c("n1", cities=1), _c("n2", cities=2), _c("n5sparse", cities=5, reward="sparse"), _c("n5", cities=5), _c("n20sparse", cities=20, reward="sparse"), _c("n4", cities=4), _c("cu_pyreward", custom="pyreward", props=["C01", "C02", "C03"]), _c("n140big", cities=140, light=150)],
    },
}


# a small non-square ASCII maze (12 rows x 13 columns) with a tunnel row, four ghosts, four power-ups, four scatter
# and four initial targets, in the format documented for AsciiGenerator
PACMAN_SMALL_MAZE = [
    "XXXXXXXXXXXXX",
    "XS    X    SX",
    "X XXX X XXX X",
    "XO         OX",
    "X X XTXT  X X",
    "    XG GX    ",
    "X X XGXGX X X",
    "X   T   T   X",
    "X XXX X XXX X",
    "XO    P    OX",
    "XS         SX",
    "XXXXXXXXXXXXX",
]


def configs(env: str, tier: str) -> List[Dict[str, Any]]:
    return [dict(c) for c in CONFIGS[env][tier]]


def cfg_by_id(env: str, cid: str) -> Dict[str, Any]:
    for tier in ("thorough", "quick"):
        for c in CONFIGS[env][tier]:
            if c["id"] == cid:
                return dict(c)
    raise KeyError((env, cid))


_tmpfiles: List[str] = []

# Mutable objects handed to constructors (NumPy databases, ASCII maze lists) are created once per process and shared by every
# instance built from the same configuration - the ordinary "train env + eval env from one array" pattern. Their content is
# snapshotted at creation; `shared_args_problems()` reports any later difference (a constructor or a call that writes into
# its caller's argument).
_SHARED: Dict[str, Any] = {}


def _snap(obj):
    import numpy as np

    if isinstance(obj, np.ndarray):
        return ("nd", str(obj.dtype), obj.shape, obj.tobytes())
    if isinstance(obj, (list, tuple)):
        return ("seq", tuple(_snap(x) for x in obj))
    return ("val", repr(obj))


def _shared(key: str, make):
    if key not in _SHARED:
        obj = make()
        _SHARED[key] = (obj, _snap(obj))
    return _SHARED[key][0]


_SHARED_OBJS: Dict[Any, Any] = {}


def _one(cls):
    """One instance per class and process: parameter-free reward functions are handed to every environment built in the
    process (a user typically creates `reward_fn = DenseReward()` once and passes it to the training and the evaluation
    environment, possibly of different sizes) - a reward object that remembers something about the first environment it
    served would then mis-serve the next."""
    if cls not in _SHARED_OBJS:
        _SHARED_OBJS[cls] = cls()
    return _SHARED_OBJS[cls]


def shared_args_problems() -> List[str]:
    return [f"constructor argument {k!r} was modified in place" for k, (obj, snap) in _SHARED.items() if _snap(obj) != snap]


def shared_args_count() -> int:
    return len(_SHARED)


def build(env: str, cfg: Dict[str, Any]):
    """Construct the environment for a configuration dict (no network access needed)."""
    import jax
    import jax.numpy as jnp
    import numpy as np
    import jumanji.environments as E

    c = {k: v for k, v in cfg.items() if k != "id"}
    tl = {"time_limit": c["time_limit"]} if "time_limit" in c else {}
    if "tl_type" in c and tl:
        # the limit handed over as a NumPy / JAX integer scalar (np.prod(shape), an entry of np.arange ...) instead of a built-in int
        import numpy as _np

        tl = {"time_limit": {"np.int64": _np.int64, "np.int32": _np.int32, "jnp.int32": lambda v: jnp.asarray(v, jnp.int32)}[c["tl_type"]](c["time_limit"])}
    if "custom" in c:
        return _build_custom(env, c)
    if "make_id" in c:
        # built through the registry with a caller override, the way most users construct environments; the other keys of
        # such a configuration only tell the models what the registered id documents (cube size, scramble length ...)
        import jumanji

        return jumanji.make(c["make_id"], **tl)
    if env == "Game2048":
        return E.Game2048(**({"board_size": c["board_size"]} if "board_size" in c else {}))
    if env == "GraphColoring":
        from jumanji.environments.logic.graph_coloring.generator import RandomGenerator

        if "num_nodes" in c:
            return E.GraphColoring(RandomGenerator(c["num_nodes"], c["edge_probability"]))
        return E.GraphColoring()
    if env == "Minesweeper":
        from jumanji.environments.logic.minesweeper.generator import UniformSamplingGenerator
        from jumanji.environments.logic.minesweeper.reward import DefaultRewardFn

        kw = {}
        if "rows" in c:
            kw["generator"] = UniformSamplingGenerator(c["rows"], c["cols"], c["mines"])
        if "rewards" in c:
            kw["reward_function"] = DefaultRewardFn(*c["rewards"])
        return E.Minesweeper(**kw)
    if env == "RubiksCube":
        from jumanji.environments.logic.rubiks_cube.generator import ScramblingGenerator

        kw = dict(tl)
        if "cube_size" in c:
            kw["generator"] = ScramblingGenerator(c["cube_size"], c["scrambles"])
        return E.RubiksCube(**kw)
    if env == "SlidingTilePuzzle":
        from jumanji.environments.logic.sliding_tile_puzzle.generator import RandomWalkGenerator
        from jumanji.environments.logic.sliding_tile_puzzle.reward import DenseRewardFn, SparseRewardFn

        kw = dict(tl)
        if "grid_size" in c:
            kw["generator"] = RandomWalkGenerator(c["grid_size"], c["moves"])
        if "reward" in c:
            kw["reward_fn"] = _one(SparseRewardFn) if c["reward"] == "sparse" else _one(DenseRewardFn)
        return E.SlidingTilePuzzle(**kw)
    if env == "Sudoku":
        from jumanji.environments.logic.sudoku import data as sd
        from jumanji.environments.logic.sudoku.generator import DatabaseGenerator, DummyGenerator

        g = c.get("gen")
        if g is None:
            return E.Sudoku()
        if g == "dummy":
            return E.Sudoku(DummyGenerator())
        path = os.path.join(os.path.dirname(sd.__file__), sd.DATABASES["very-easy"])

        def load():
            db = np.load(path)
            if g == "tiny":
                db = db[: c["n"]]
            # a user database in another integer dtype (the shipped files are int8); always a NumPy array the caller owns
            return np.array(db).astype(c.get("db_dtype", db.dtype))

        db = _shared(f"sudoku-db|{g}|{c.get('n')}|{c.get('db_dtype')}", load)
        if "db_dtype" in c or c.get("np_db"):
            return E.Sudoku(DatabaseGenerator(database=db))
        return E.Sudoku(DatabaseGenerator(database=jnp.asarray(db)))
    if env == "BinPack":
        from jumanji.environments.packing.bin_pack import generator as bg
        from jumanji.environments.packing.bin_pack.reward import DenseReward, SparseReward

        kw = {}
        g = c.get("gen")
        dims = {"container_dims": tuple(c["container"])} if "container" in c else {}
        if g == "random":
            kw["generator"] = bg.RandomGenerator(c["max_items"], c["max_ems"], split_num_same_items=c.get("split_same", 5), **dims)
        elif g == "toy":
            kw["generator"] = bg.ToyGenerator()
        elif g == "csvloose":
            # a user instance that is NOT a cut of the container: a few boxes that all fit with room to spare
            import csv as _csv

            fd, path = tempfile.mkstemp(prefix="jmon-binpack-loose-", suffix=".csv")
            L_, W_, H_ = c.get("container", [5870, 2330, 2200])
            rows = [("a", L_ // 5, W_ // 3, H_ // 4, 3), ("b", L_ // 6, W_ // 2, H_ // 5, 2), ("c", L_ // 4, W_ // 4, H_ // 3, 1), ("d", L_ // 10, W_ // 5, H_ // 2, 2)]
            with os.fdopen(fd, "w", newline="") as f_:
                w_ = _csv.writer(f_)
                w_.writerow(["Item_Name", "Length", "Width", "Height", "Quantity"])
                w_.writerows(rows)
            _tmpfiles.append(path)
            kw["generator"] = bg.CSVGenerator(path, c["max_ems"], **dims)
        elif g == "csv":
            src = bg.RandomGenerator(12, c["max_ems"], split_num_same_items=2, **dims)
            st = src(jax.random.PRNGKey(7))
            fd, path = tempfile.mkstemp(prefix="jmon-binpack-", suffix=".csv")
            os.close(fd)
            _tmpfiles.append(path)
            from jumanji.environments.packing.bin_pack.generator import save_instance_to_csv

            save_instance_to_csv(st, path)
            kw["generator"] = bg.CSVGenerator(path, c["max_ems"], **dims)
        for a, b in (("obs_num_ems", "obs_num_ems"), ("normalize", "normalize_dimensions"), ("debug", "debug")):
            if a in c:
                kw[b] = c[a]
        if "reward" in c:
            kw["reward_fn"] = _one(SparseReward) if c["reward"] == "sparse" else _one(DenseReward)
        return E.BinPack(**kw)
    if env == "FlatPack":
        from jumanji.environments.packing.flat_pack import generator as fg
        from jumanji.environments.packing.flat_pack.reward import BlockDenseReward, CellDenseReward

        kw = {}
        g = c.get("gen")
        if "row_blocks" in c:
            kw["generator"] = fg.RandomFlatPackGenerator(c["row_blocks"], c["col_blocks"])
        elif g == "toy_rot":
            kw["generator"] = fg.ToyFlatPackGeneratorWithRotation()
        elif g == "toy_norot":
            kw["generator"] = fg.ToyFlatPackGeneratorNoRotation()
        if "reward" in c:
            kw["reward_fn"] = _one(BlockDenseReward) if c["reward"] == "block" else _one(CellDenseReward)
        elif kw:
            kw["reward_fn"] = _one(CellDenseReward)  # the documented default, as one object shared by all sizes
        return E.FlatPack(**kw)
    if env == "JobShop":
        from jumanji.environments.packing.job_shop import generator as jg

        if c.get("gen") == "toy":
            return E.JobShop(jg.ToyGenerator())
        if "jobs" in c:
            return E.JobShop(jg.RandomGenerator(c["jobs"], c["machines"], c["ops"], c["dur"]))
        return E.JobShop()
    if env == "Knapsack":
        from jumanji.environments.packing.knapsack.generator import RandomGenerator
        from jumanji.environments.packing.knapsack.reward import DenseReward, SparseReward

        kw = {}
        if c.get("gen") == "grid":
            kw["generator"] = make_knapsack_grid_generator(c["items"], c["budget"])
        elif c.get("gen") == "decimal":
            kw["generator"] = make_knapsack_decimal_generator(c["items"], c["budget"])
        elif c.get("gen") == "varbudget":
            kw["generator"] = make_knapsack_varbudget_generator(c["items"], c["budget"])
        elif "items" in c:
            kw["generator"] = RandomGenerator(c["items"], c["budget"])
        if "reward" in c:
            kw["reward_fn"] = _one(SparseReward) if c["reward"] == "sparse" else _one(DenseReward)
        return E.Knapsack(**kw)
    if env == "Tetris":
        kw = dict(tl)
        if "rows" in c:
            kw.update(num_rows=c["rows"], num_cols=c["cols"])
        return E.Tetris(**kw)
    if env == "Cleaner":
        from jumanji.environments.routing.cleaner.generator import RandomGenerator

        kw = dict(tl)
        if "rows" in c:
            kw["generator"] = RandomGenerator(c["rows"], c["cols"], c["agents"])
        if "penalty" in c:
            kw["penalty_per_timestep"] = c["penalty"]
        return E.Cleaner(**kw)
    if env == "Connector":
        from jumanji.environments.routing.connector import generator as cg

        kw = dict(tl)
        if "grid_size" in c:
            G = cg.UniformRandomGenerator if c.get("gen") == "uniform" else cg.RandomWalkGenerator
            kw["generator"] = G(c["grid_size"], c["agents"])
        if "reward_coeffs" in c:
            from jumanji.environments.routing.connector.reward import DenseRewardFn

            kw["reward_fn"] = DenseRewardFn(connected_reward=c["reward_coeffs"][0], timestep_reward=c["reward_coeffs"][1])
        return E.Connector(**kw)
    if env == "CVRP":
        from jumanji.environments.routing.cvrp.generator import UniformGenerator
        from jumanji.environments.routing.cvrp.reward import DenseReward, SparseReward

        kw = {}
        if c.get("gen") == "padded":
            kw["generator"] = make_cvrp_padded_generator(c["nodes"], c["cap"], c["demand"])
        elif "nodes" in c:
            kw["generator"] = UniformGenerator(c["nodes"], c["cap"], c["demand"])
        if "reward" in c:
            kw["reward_fn"] = _one(SparseReward) if c["reward"] == "sparse" else _one(DenseReward)
        return E.CVRP(**kw)
    if env == "LevelBasedForaging":
        from jumanji.environments.routing.lbf.generator import RandomGenerator

        kw = dict(tl)
        if "grid_size" in c:
            kw["generator"] = RandomGenerator(
                grid_size=c["grid_size"], num_agents=c["agents"], num_food=c["food"], fov=c["fov"],
                max_agent_level=c.get("max_level", 2), force_coop=c.get("force_coop", False),
            )
        if "grid_obs" in c:
            kw["grid_observation"] = c["grid_obs"]
        if "normalize" in c:
            kw["normalize_reward"] = c["normalize"]
        if "penalty" in c:
            kw["penalty"] = c["penalty"]
        return E.LevelBasedForaging(**kw)
    if env == "Maze":
        from jumanji.environments.routing.maze import generator as mg

        kw = dict(tl)
        if c.get("gen") == "toy":
            kw["generator"] = mg.ToyGenerator()
        elif "rows" in c:
            kw["generator"] = mg.RandomGenerator(c["rows"], c["cols"])
        return E.Maze(**kw)
    if env == "MMST":
        from jumanji.environments.routing.mmst.generator import SplitRandomGenerator

        kw = dict(tl)
        if "nodes" in c:
            kw["generator"] = SplitRandomGenerator(
                num_nodes=c["nodes"], num_edges=c["edges"], max_degree=c["degree"], num_agents=c["agents"],
                num_nodes_per_agent=c["per_agent"], max_step=c.get("max_step", c.get("time_limit", 70)),
            )
        return E.MMST(**kw)
    if env == "MultiCVRP":
        from jumanji.environments.routing.multi_cvrp.generator import UniformRandomGenerator
        from jumanji.environments.routing.multi_cvrp.reward import DenseReward, SparseReward

        cust, veh = c.get("customers", 20), c.get("vehicles", 2)
        kw = {}
        if "customers" in c:
            kw["generator"] = UniformRandomGenerator(cust, veh)
        if "reward" in c:
            R = SparseReward if c["reward"] == "sparse" else DenseReward
            kw["reward_fn"] = R(veh, cust, 10)
        return E.MultiCVRP(**kw)
    if env == "PacMan":
        if c.get("maze") == "small":
            from jumanji.environments.routing.pac_man.generator import AsciiGenerator

            return E.PacMan(generator=AsciiGenerator(_shared("pacman-small-maze", lambda: PACMAN_SMALL_MAZE)), **tl)
        return E.PacMan(**tl)
    if env == "RobotWarehouse":
        from jumanji.environments.routing.robot_warehouse.generator import RandomGenerator

        kw = dict(tl)
        if "shelf_rows" in c:
            kw["generator"] = RandomGenerator(
                shelf_rows=c["shelf_rows"], shelf_columns=c["shelf_cols"], column_height=c["height"],
                num_agents=c["agents"], sensor_range=c["sensor"], request_queue_size=c["queue"],
            )
        return E.RobotWarehouse(**kw)
    if env == "Snake":
        kw = dict(tl)
        if "rows" in c:
            kw.update(num_rows=c["rows"], num_cols=c["cols"])
        return E.Snake(**kw)
    if env == "Sokoban":
        from jumanji.environments.routing.sokoban import generator as sg
        from jumanji.environments.routing.sokoban.reward import DenseReward, SparseReward

        kw = dict(tl)
        g = c.get("gen", "toy")
        if g == "toy":
            kw["generator"] = sg.ToyGenerator()
        elif g == "simple":
            kw["generator"] = sg.SimpleSolveGenerator()
        else:
            kw["generator"] = make_sokoban_harness_generator(border=c.get("border", False))
        if "reward" in c:
            kw["reward_fn"] = _one(SparseReward) if c["reward"] == "sparse" else _one(DenseReward)
        return E.Sokoban(**kw)
    if env == "TSP":
        from jumanji.environments.routing.tsp.generator import UniformGenerator
        from jumanji.environments.routing.tsp.reward import DenseReward, SparseReward

        kw = {}
        if "cities" in c:
            kw["generator"] = UniformGenerator(c["cities"])
        if "reward" in c:
            kw["reward_fn"] = _one(SparseReward) if c["reward"] == "sparse" else _one(DenseReward)
        return E.TSP(**kw)
    raise KeyError(env)


def _build_custom(env: str, c: Dict[str, Any]):
    """User-defined components plugged into the documented extension points (RewardFn / DoneFn subclasses) that return plain
    Python values instead of JAX arrays. What such an episode is worth is the user's business; the protocol (C03), the specs
    (C01) and purity (C02) must hold regardless, so these configurations carry `props` restricting them to those checks."""
    import importlib

    import jumanji.environments as JE

    kind = c["custom"]
    mod = {
        "Minesweeper": "logic.minesweeper", "RubiksCube": "logic.rubiks_cube", "SlidingTilePuzzle": "logic.sliding_tile_puzzle", "Sudoku": "logic.sudoku",
        "BinPack": "packing.bin_pack", "FlatPack": "packing.flat_pack", "Knapsack": "packing.knapsack", "CVRP": "routing.cvrp", "TSP": "routing.tsp",
        "Sokoban": "routing.sokoban",
    }[env]
    kw: Dict[str, Any] = {}
    if env == "Sokoban":
        from jumanji.environments.routing.sokoban.generator import ToyGenerator

        kw["generator"] = ToyGenerator()
    if env == "Minesweeper":
        from jumanji.environments.logic.minesweeper.generator import UniformSamplingGenerator

        kw["generator"] = UniformSamplingGenerator(4, 5, 3)
    if kind.startswith("done_"):
        done = importlib.import_module(f"jumanji.environments.{mod}.done")
        if kind == "done_never":
            class Fn(done.DoneFn):
                def __call__(self, state, next_state, action):
                    return False
        elif kind == "done_always":
            class Fn(done.DoneFn):
                def __call__(self, state, next_state, action):
                    return True
        else:  # default rule, but handed back as a Python-level `or` of JAX booleans mixed with a Python bool
            class Fn(done.DefaultDoneFn):
                def __call__(self, state, next_state, action):
                    return bool(False) | super().__call__(state, next_state, action)
        kw["done_function"] = Fn()
        return getattr(JE, env)(**kw)
    rew = importlib.import_module(f"jumanji.environments.{mod}.reward")

    class PyReward(rew.RewardFn):
        def __call__(self, *args, **kwargs):
            return 0.5  # a Python float

    kw["reward_function" if env == "Minesweeper" else "reward_fn"] = PyReward()
    if "time_limit" in c:
        kw["time_limit"] = c["time_limit"]
    return getattr(JE, env)(**kw)


def cleanup() -> None:
    for p in _tmpfiles:
        try:
            os.remove(p)
        except OSError:
            pass
    _tmpfiles.clear()


def sokoban_tactical_levels(border: bool, seed: int = 4321):
    """Levels that *start* in the situations random play hardly ever builds: the agent behind a box whose next cell holds
    another box / a box already standing on a target / a wall / a target / nothing / the grid edge, and the agent next to a box
    on a target with a free cell or another box-on-target beyond it - for each of the four directions. 4 boxes, 4 targets."""
    import numpy as np

    rng = np.random.default_rng(seed + int(border))
    kinds = ["box", "box_on_target", "wall", "target", "empty", "edge", "bt_then_empty", "bt_then_bt"]
    moves = [(-1, 0), (0, 1), (1, 0), (0, -1)]
    fixed, variable = [], []
    for kind in kinds:
        for (dr, dc) in moves:
            for _try in range(200):
                f = np.zeros((10, 10), np.uint8)
                v = np.zeros((10, 10), np.uint8)
                if border:
                    f[0, :] = f[-1, :] = f[:, 0] = f[:, -1] = 1
                lo, hi = (1, 8) if border else (0, 9)
                if kind == "edge":
                    if border:
                        break  # with a border wall the edge case is the wall case
                    # the pushed box stands on the last cell of the grid in direction (dr, dc)
                    r0 = hi - 1 if dr > 0 else (lo + 1 if dr < 0 else int(rng.integers(lo, hi + 1)))
                    c0 = hi - 1 if dc > 0 else (lo + 1 if dc < 0 else int(rng.integers(lo, hi + 1)))
                    r0, c0 = r0 - dr, c0 - dc
                else:
                    r0, c0 = int(rng.integers(lo, hi + 1)), int(rng.integers(lo, hi + 1))
                cells = [(r0 + k * dr, c0 + k * dc) for k in range(4)]
                need = 2 if kind == "edge" else 3
                if not all(lo <= r <= hi and lo <= c <= hi for r, c in cells[:need]):
                    continue
                a, b, x = cells[0], cells[1], cells[2]
                v[a] = 3
                v[b] = 4
                nb, nt = 1, 0
                if kind in ("bt_then_empty", "bt_then_bt"):
                    f[b] = 2
                    nt += 1
                if kind == "box":
                    v[x] = 4
                    nb += 1
                elif kind in ("box_on_target", "bt_then_bt"):
                    v[x] = 4
                    f[x] = 2
                    nb += 1
                    nt += 1
                elif kind == "wall":
                    f[x] = 1
                elif kind == "target":
                    f[x] = 2
                    nt += 1
                used = set(cells[:need])
                free = [(r, c) for r in range(10) for c in range(10) if f[r, c] == 0 and v[r, c] == 0 and (r, c) not in used]
                rng.shuffle(free)
                for (r, c) in free[:6]:
                    f[r, c] = 1
                rest = free[6:]
                for (r, c) in rest[: 4 - nt]:
                    f[r, c] = 2
                for (r, c) in rest[4 - nt: 4 - nt + 4 - nb]:
                    v[r, c] = 4
                if (v == 4).sum() == 4 and (f == 2).sum() == 4 and ((v == 4) & (f == 2)).sum() < 4:
                    fixed.append(f)
                    variable.append(v)
                    break
    return fixed, variable


def make_sokoban_harness_generator(border: bool, n_levels: int = 24, seed: int = 1234):
    """Harness Sokoban generator: a fixed bank of random 10x10 levels (4 boxes, 4 targets, one agent,
    ~15% interior walls), with or without a border wall, plus the tactical levels above (half of the draws). Subclass of the
    public Generator; the level is chosen by the reset key. Without border walls pushes against the grid edge become reachable."""
    import jax
    import jax.numpy as jnp
    import numpy as np
    from jumanji.environments.routing.sokoban.generator import Generator
    from jumanji.environments.routing.sokoban.types import State

    rng = np.random.default_rng(seed + int(border))
    fixed, variable = [], []
    for _ in range(n_levels):
        f = np.zeros((10, 10), np.uint8)
        v = np.zeros((10, 10), np.uint8)
        if border:
            f[0, :] = f[-1, :] = f[:, 0] = f[:, -1] = 1
        free = [(r, c) for r in range(10) for c in range(10) if f[r, c] == 0]
        rng.shuffle(free)
        nwall = int(0.15 * len(free))
        for (r, c) in free[:nwall]:
            f[r, c] = 1
        rest = free[nwall:]
        for (r, c) in rest[:4]:
            f[r, c] = 2  # target
        for (r, c) in rest[4:8]:
            v[r, c] = 4  # box
        r, c = rest[8]
        v[r, c] = 3  # agent
        fixed.append(f)
        variable.append(v)
    tf, tv = sokoban_tactical_levels(border)
    n_rand, n_tac = len(fixed), len(tf)
    F = jnp.asarray(np.stack(fixed + tf))
    V = jnp.asarray(np.stack(variable + tv))

    class HarnessGenerator(Generator):
        def __call__(self, rng_key):
            key, idx_key, kind_key = jax.random.split(rng_key, 3)
            i_rand = jax.random.randint(idx_key, (), 0, n_rand)
            i_tac = n_rand + jax.random.randint(idx_key, (), 0, n_tac)
            i = jnp.where(jax.random.bernoulli(kind_key, 0.5), i_tac, i_rand)
            return State(
                key=key,
                fixed_grid=F[i],
                variable_grid=V[i],
                agent_location=self.get_agent_coordinates(V[i]),
                step_count=jnp.array(0, jnp.int32),
            )

    return HarnessGenerator()


def make_cvrp_padded_generator(num_nodes: int, max_capacity: int, max_demand: int):
    """Harness CVRP generator (subclass of the public UniformGenerator): instances padded to a fixed size with dummy customers of
    demand 0 (about a third of the customers), as a user batching instances of different sizes would build them."""
    import jax
    import jax.numpy as jnp
    from jumanji.environments.routing.cvrp.generator import UniformGenerator

    class PaddedGenerator(UniformGenerator):
        def __call__(self, key):
            state = super().__call__(key)
            pad = jax.random.bernoulli(jax.random.fold_in(key, 99), 0.35, state.demands.shape)
            demands = jnp.where(pad, 0, state.demands).at[0].set(0)
            return state.replace(demands=demands)  # type: ignore

    return PaddedGenerator(num_nodes, max_capacity, max_demand)


def make_knapsack_varbudget_generator(num_items: int, total_budget: float):
    """Harness Knapsack generator (subclass of the shipped RandomGenerator) whose instances carry their own budget, between 30 %
    and 100 % of the nominal `total_budget` ("the maximum budget"): the dynamics must use the budget held in the state."""
    import jax
    from jumanji.environments.packing.knapsack.generator import RandomGenerator

    class VarBudgetGenerator(RandomGenerator):
        def __call__(self, key):
            state = super().__call__(key)
            frac = jax.random.uniform(jax.random.fold_in(key, 7), (), minval=0.3, maxval=1.0)
            return state.replace(remaining_budget=state.remaining_budget * frac)  # type: ignore

    return VarBudgetGenerator(num_items, total_budget)


def make_knapsack_decimal_generator(num_items: int, total_budget: float, step: float = 0.05):
    """Harness Knapsack generator with "catalogue" weights: multiples of 0.05 (not representable in binary floating point), so
    that sums of weights meet the budget up to round-off - exact fits as a user with decimal data meets them."""
    import jax
    import jax.numpy as jnp
    from jumanji.environments.packing.knapsack.generator import Generator
    from jumanji.environments.packing.knapsack.types import State

    class DecimalGenerator(Generator):
        def __call__(self, key):
            key, wk, vk = jax.random.split(key, 3)
            weights = jax.random.randint(wk, (self.num_items,), 1, int(round(1.0 / step))).astype(jnp.float32) * jnp.float32(step)
            values = jax.random.randint(vk, (self.num_items,), 1, 21).astype(jnp.float32) * jnp.float32(0.05)
            return State(
                weights=weights,
                values=values,
                packed_items=jnp.zeros(self.num_items, dtype=bool),
                remaining_budget=jnp.array(self.total_budget, float),
                key=key,
            )

    return DecimalGenerator(num_items, total_budget)


def make_knapsack_grid_generator(num_items: int, total_budget: float):
    """Harness Knapsack generator (subclass of the public Generator): weights are multiples of 1/8 in (0, 1], values
    uniform, so that items whose weight equals the remaining budget exactly (in float32) really occur."""
    import jax
    import jax.numpy as jnp
    from jumanji.environments.packing.knapsack.generator import Generator
    from jumanji.environments.packing.knapsack.types import State

    class GridGenerator(Generator):
        def __call__(self, key):
            key, wk, vk = jax.random.split(key, 3)
            weights = jax.random.randint(wk, (self.num_items,), 1, 9).astype(jnp.float32) / 8.0
            values = jax.random.uniform(vk, (self.num_items,), minval=0, maxval=1)
            return State(
                weights=weights,
                values=values,
                packed_items=jnp.zeros(self.num_items, dtype=bool),
                remaining_budget=jnp.array(self.total_budget, float),
                key=key,
            )

    return GridGenerator(num_items, total_budget)


# ------------------------------------------------------------------------------------------------- configuration fuzzing
# Random configurations inside the documented parameter ranges (thorough tier): the fixed matrix above names the hostile
# corners, this sampler walks the rest of the "all constructor configurations" quantifier. Ids spell out the parameters, and a
# shard / replay file carries the whole dict, so a witness never depends on the sampler.

def random_config(env: str, rng) -> Dict[str, Any]:
    ri = lambda a, b: int(rng.integers(a, b + 1))  # inclusive
    ch = lambda xs: xs[int(rng.integers(0, len(xs)))]
    c: Dict[str, Any] = {}
    if env == "Game2048":
        c = dict(board_size=ri(2, 6))
    elif env == "GraphColoring":
        c = dict(num_nodes=ri(2, 14), edge_probability=ch([0.1, 0.3, 0.5, 0.7, 0.9]))
    elif env == "Minesweeper":
        r, k = ri(2, 8), ri(2, 8)
        c = dict(rows=r, cols=k, mines=ri(1, r * k - 1))
        if rng.random() < 0.4:
            c["rewards"] = ch([[2.0, -3.0, -5.0], [1, -1, -2], [0.5, 0.0, -1.0]])
    elif env == "RubiksCube":
        c = dict(cube_size=ri(2, 5), scrambles=ri(0, 9), time_limit=ri(1, 25))
    elif env == "SlidingTilePuzzle":
        c = dict(grid_size=ri(2, 5), moves=ri(0, 60), time_limit=ri(1, 40))
        if rng.random() < 0.5:
            c["reward"] = ch(["sparse", "dense"])
    elif env == "BinPack":
        me = ri(6, 30)
        c = dict(gen="random", max_items=ri(3, 20), max_ems=me, split_same=ri(1, 9), obs_num_ems=ri(2, me), debug=True)
        if rng.random() < 0.4:
            c["normalize"] = False
        if rng.random() < 0.4:
            c["reward"] = "sparse"
        if rng.random() < 0.5:
            c["container"] = [ri(3, 60) * 100, ri(3, 30) * 100, ri(3, 30) * 100]
    elif env == "FlatPack":
        c = dict(row_blocks=ri(1, 4), col_blocks=ri(1, 4))
        if rng.random() < 0.5:
            c["reward"] = "block"
    elif env == "JobShop":
        m = ri(2, 5)
        c = dict(jobs=ri(2, 8), machines=m, ops=ri(1, 5), dur=ri(1, 5))
    elif env == "Knapsack":
        c = dict(items=ri(2, 20), budget=ch([0.5, 1.0, 2.0, 3, 5.5]))
        if rng.random() < 0.5:
            c["reward"] = "sparse"
        if rng.random() < 0.3:
            c["gen"] = "grid"
    elif env == "Tetris":
        c = dict(rows=ri(4, 10), cols=ri(4, 10), time_limit=ri(1, 40))
    elif env == "Cleaner":
        c = dict(rows=ri(3, 11), cols=ri(3, 11), agents=ri(1, 4))
        if rng.random() < 0.6:
            c["time_limit"] = ri(1, 30)
        if rng.random() < 0.5:
            c["penalty"] = ch([0.0, 0.25, 1, 2.0])
    elif env == "Connector":
        g = ri(3, 8)
        c = dict(grid_size=g, agents=ri(1, max(1, min(g, 6))), time_limit=ri(1, 30))
        if rng.random() < 0.5:
            c["gen"] = "uniform"
        if rng.random() < 0.3:
            c["reward_coeffs"] = ch([[2.0, -0.5], [3, -1], [1.0, 0.0]])
    elif env == "CVRP":
        cap = ri(2, 30)
        c = dict(nodes=ri(2, 15), cap=cap, demand=ri(1, cap))
        if rng.random() < 0.5:
            c["reward"] = "sparse"
    elif env == "LevelBasedForaging":
        for _ in range(50):
            g, a, f = ri(5, 9), ri(1, 4), ri(1, 3)
            if (g - 2) ** 2 - a > 5 * f:
                break
        c = dict(grid_size=g, agents=a, food=f, fov=ri(1, g), max_level=ri(2, 4), time_limit=ri(1, 40))
        if rng.random() < 0.3:
            c["force_coop"] = True
        if rng.random() < 0.4:
            c["grid_obs"] = True
        if rng.random() < 0.4:
            c["normalize"] = False
        if rng.random() < 0.4:
            c["penalty"] = ch([0.5, 1, 2.0])
    elif env == "Maze":
        c = dict(rows=ri(3, 11), cols=ri(3, 11))
        if rng.random() < 0.6:
            c["time_limit"] = ri(1, 30)
    elif env == "MMST":
        for _ in range(50):
            n, a, p = ri(10, 24), ri(2, 4), ri(2, 3)
            if a * p <= 0.7 * n and n // a >= p + 2:
                break
        c = dict(nodes=n, edges=ri(int(1.4 * n), 2 * n), degree=ri(5, 6), agents=a, per_agent=p, time_limit=ri(1, 40))
    elif env == "MultiCVRP":
        c = dict(customers=ch([6, 6, 20]), vehicles=ri(2, 3))  # the reward functions only know a few (customers, vehicles) pairs
        if rng.random() < 0.5:
            c["reward"] = "sparse"
    elif env == "RobotWarehouse":
        for _ in range(50):
            sr, sc, h, q = ri(1, 2), ch([1, 3, 5]), ri(1, 4), ri(1, 6)
            if sr * sc < 2:
                continue  # a 1x1 layout has no shelf cell at all
            try:  # the floor must hold more shelves than the request queue (otherwise no new request can ever be drawn)
                from jumanji.environments.routing.robot_warehouse.generator import RandomGenerator as _RW

                n_shelves = int(len(_RW(shelf_rows=sr, shelf_columns=sc, column_height=h, num_agents=1, sensor_range=1, request_queue_size=q).shelf_ids))
            except Exception:
                continue
            if n_shelves > q + 1:
                break
        c = dict(shelf_rows=sr, shelf_cols=sc, height=h, agents=ri(1, 4), sensor=ri(1, 2), queue=q, time_limit=ri(1, 30))
    elif env == "Snake":
        c = dict(rows=ri(2, 8), cols=ri(2, 8), time_limit=ri(1, 60))
    elif env == "TSP":
        c = dict(cities=ri(1, 12))
        if rng.random() < 0.5:
            c["reward"] = "sparse"
    else:
        return {}
    cid = "fz_" + "_".join(f"{k[:3]}{'x'.join(str(x) for x in v) if isinstance(v, list) else v}" for k, v in c.items() if k != "debug")
    c["id"] = cid.replace(" ", "").replace(".", "p")[:70]
    return c


FUZZ_ENVS = ["Game2048", "GraphColoring", "Minesweeper", "RubiksCube", "SlidingTilePuzzle", "BinPack", "FlatPack", "JobShop", "Knapsack",
             "Tetris", "Cleaner", "Connector", "CVRP", "LevelBasedForaging", "Maze", "MMST", "MultiCVRP", "RobotWarehouse", "Snake", "TSP"]


def fuzz_configs(env: str, seed: int, n: int) -> List[Dict[str, Any]]:
    """`n` random configurations of `env` for this seed that the constructors accept (deterministic in (env, seed))."""
    import zlib

    import numpy as np

    if env not in FUZZ_ENVS:
        return []
    rng = np.random.default_rng([int(seed), zlib.crc32(env.encode()), 77])
    out, seen = [], set()
    for _ in range(8 * n):
        if len(out) >= n:
            break
        c = random_config(env, rng)
        if not c or c["id"] in seen:
            continue
        seen.add(c["id"])
        out.append(c)
    return out
