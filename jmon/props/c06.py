"""C06 — model-based runtime monitor (see DESIGN §3 C06; machinery in _model_prop.py, rules in jmon/models/)."""
from jmon.props import _model_prop as MP

RULE = 'after every step of episodes in which only masked-in actions were played (masked / first-fit / last-fit / complete / collide policies) the hard constraints are recomputed from raw state arrays plus shadow state accumulated by the monitor; completed episodes must encode a complete feasible solution; distinct by (environment, configuration, state digest)'
ASSUMPTIONS = ["'legal' means mask-respecting, as in the property title", 'an episode that ends because no legal action remains is not a completion']
SHARD_TIMEOUT = MP.SHARD_TIMEOUT


def shards(tier, seed):
    return MP.shards_for("C06", tier, seed)


def run_shard(shard, rep):
    MP.run_model_shard("C06", shard, rep)


def floors(tier, counters, per_env):
    return MP.model_floors("C06", tier, counters, per_env, "states_checked", 10, extra=EXTRA_FLOORS)


def EXTRA_FLOORS(counters, per_env):
    return []
