"""Helpers shared by the property modules."""
from __future__ import annotations

from typing import Any, Dict, List

from jmon import envs as E

STEP_CAP = {"quick": 60, "thorough": 150}
ENV_STEP_CAP = {"PacMan": {"quick": 160, "thorough": 400}, "Snake": {"quick": 80, "thorough": 300}}


def step_cap(env: str, cfg: Dict[str, Any], tier: str) -> int:
    cap = ENV_STEP_CAP.get(env, STEP_CAP)[tier]
    L = cfg.get("time_limit")
    if L is not None and L <= 250:
        cap = max(cap, L + 1)
    return cap


# "deep" episodes: environments whose natural episodes are much longer than the ordinary step cap get a few long runs, so
# that states only reached late (long snakes, full boards, late ghost phases, many delivered shelves, high tiles) are monitored
DEEP_CAP = {"Game2048": 1500, "SlidingTilePuzzle": 501, "JobShop": 1000, "Tetris": 401, "PacMan": 1001, "RobotWarehouse": 501,
            "Snake": 1500, "Minesweeper": 100, "Sokoban": 121, "RubiksCube": 201}


# the policies that actually produce long episodes (measured): generic names are in jmon.rollout.POLICIES, the others are the
# model's own workloads (fall back to "survive" when a model does not offer them)
DEEP_POLICY = {
    "Game2048": ["plan", "first", "survive"], "Tetris": ["complete", "complete", "survive"], "PacMan": ["plan", "plan", "complete"],
    "Snake": ["plan", "survive", "plan"], "JobShop": ["greedy", "greedy", "masked"], "RobotWarehouse": ["survive", "complete", "masked"],
    "SlidingTilePuzzle": ["masked", "mixed", "random"], "Minesweeper": ["complete", "complete", "complete"],
    "Sokoban": ["plan", "random", "masked"], "RubiksCube": ["random", "masked", "random"],
}


def deep_episodes(env: str, cfg: Dict[str, Any], tier: str, extra: Dict[str, Any] = None) -> List[Any]:
    """[(policy, max_steps)] of the long episodes a shard adds to its ordinary workload (`extra`: the model's policies)."""
    from jmon.rollout import POLICIES

    if "deep" in cfg:  # a configuration may ask for its own long run on both tiers: ["policy", max_steps]
        nm, c = cfg["deep"]
        return [((extra or {}).get(nm) or (nm if nm in POLICIES else "survive"), int(c))]
    if env not in DEEP_CAP:
        return []
    L = cfg.get("time_limit")
    cap = DEEP_CAP[env] if L is None else min(DEEP_CAP[env], L + 1)
    if cap <= step_cap(env, cfg, tier):
        return []
    names = DEEP_POLICY[env]
    if tier == "quick":
        if cfg.get("id") != "default":
            return []
        names, cap = names[:1], min(cap, 450)
    out = []
    for nm in names:
        pol = (extra or {}).get(nm) or (nm if nm in POLICIES else "survive")
        out.append((pol, cap))
    return out


FUZZ_PER_ENV = {"quick": 0, "thorough": 4}


def env_cfg_shards(tier: str, env_list: List[str], weight: Dict[str, float] = None, cfg_filter=None, prop: str = None, seed: int = 0) -> List[Dict[str, Any]]:
    out = []
    for e in env_list:
        # the fixed matrix, then (thorough tier) random configurations drawn for this seed
        fuzz = E.fuzz_configs(e, seed, FUZZ_PER_ENV[tier]) if FUZZ_PER_ENV[tier] else []
        for c in E.configs(e, tier) + fuzz:
            if cfg_filter is not None and not cfg_filter(e, c):
                continue
            if prop is not None and "props" in c and prop not in c["props"]:
                continue  # a configuration may be restricted to the properties whose statement covers it (see jmon/envs.py)
            out.append({"id": f"{e}|{c['id']}", "env": e, "cfg": c, "weight": (weight or {}).get(e, 1.0)})
    return out


HEAVY = {"BinPack": 3.0, "MMST": 3.0, "RobotWarehouse": 2.5, "PacMan": 2.5, "RubiksCube": 2.0, "JobShop": 2.0, "LevelBasedForaging": 2.0, "Connector": 2.0}
