"""Helpers shared by the property modules."""
from __future__ import annotations

from typing import Any, Dict, List

from jmon import envs as E

STEP_CAP = {"quick": 60, "thorough": 150}
ENV_STEP_CAP = {"PacMan": {"quick": 120, "thorough": 400}, "Snake": {"quick": 80, "thorough": 300}}


def step_cap(env: str, cfg: Dict[str, Any], tier: str) -> int:
    cap = ENV_STEP_CAP.get(env, STEP_CAP)[tier]
    L = cfg.get("time_limit")
    if L is not None and L <= 250:
        cap = max(cap, L + 1)
    return cap


def env_cfg_shards(tier: str, env_list: List[str], weight: Dict[str, float] = None, cfg_filter=None) -> List[Dict[str, Any]]:
    out = []
    for e in env_list:
        for c in E.configs(e, tier):
            if cfg_filter is not None and not cfg_filter(e, c):
                continue
            out.append({"id": f"{e}|{c['id']}", "env": e, "cfg": c, "weight": (weight or {}).get(e, 1.0)})
    return out


HEAVY = {"BinPack": 3.0, "MMST": 3.0, "RobotWarehouse": 2.5, "PacMan": 2.5, "RubiksCube": 2.0, "JobShop": 2.0, "LevelBasedForaging": 2.0, "Connector": 2.0}
