"""Helpers shared by the property modules."""
from __future__ import annotations

from typing import Any, Dict, List

from jmon import envs as E

STEP_CAP = {"quick": 60, "thorough": 150}
ENV_STEP_CAP = {"PacMan": {"quick": 160, "thorough": 400}, "Snake": {"quick": 80, "thorough": 300}}


def step_cap(env: str, cfg: Dict[str, Any], tier: str) -> int:
    cap = ENV_STEP_CAP.get(env, STEP_CAP)[tier]
    L = cfg.get("time_limit")
    if L is not None and L <= 250:
        cap = max(cap, L + 1)
    return cap


# "deep" episodes: environments whose natural episodes are much longer than the ordinary step cap get a few long runs, so
# that states only reached late (long snakes, full boards, late ghost phases, many delivered shelves, high tiles) are monitored
DEEP_CAP = {"Game2048": 1500, "SlidingTilePuzzle": 501, "JobShop": 1000, "Tetris": 401, "PacMan": 1001, "RobotWarehouse": 501,
            "Snake": 1500, "Minesweeper": 100, "Sokoban": 121, "RubiksCube": 201}


# the policies that actually produce long episodes (measured): generic names are in jmon.rollout.POLICIES, the others are the
# model's own workloads (fall back to "survive" when a model does not offer them)
DEEP_POLICY = {
    "Game2048": ["plan", "first", "survive"], "Tetris": ["complete", "complete", "survive"], "PacMan": ["plan", "plan", "complete"],
    "Snake": ["plan", "survive", "plan"], "JobShop": ["greedy", "greedy", "masked"], "RobotWarehouse": ["survive", "complete", "masked"],
    "SlidingTilePuzzle": ["masked", "mixed", "random"], "Minesweeper": ["complete", "complete", "complete"],
    "Sokoban": ["plan", "random", "masked"], "RubiksCube": ["random", "masked", "random"],
}


def deep_episodes(env: str, cfg: Dict[str, Any], tier: str, extra: Dict[str, Any] = None) -> List[Any]:
    """[(policy, max_steps)] of the long episodes a shard adds to its ordinary workload (`extra`: the model's policies)."""
    from jmon.rollout import POLICIES

    if "deep" in cfg:  # a configuration may ask for its own long run on both tiers: ["policy", max_steps]
        nm, c = cfg["deep"]
        return [((extra or {}).get(nm) or (nm if nm in POLICIES else "survive"), int(c))]
    if env not in DEEP_CAP:
        return []
    L = cfg.get("time_limit")
    cap = DEEP_CAP[env] if L is None else min(DEEP_CAP[env], L + 1)
    if cap <= step_cap(env, cfg, tier):
        return []
    names = DEEP_POLICY[env]
    if tier == "quick":
        if cfg.get("id") != "default":
            return []
        names, cap = names[:1], min(cap, 450)
    out = []
    for nm in names:
        pol = (extra or {}).get(nm) or (nm if nm in POLICIES else "survive")
        out.append((pol, cap))
    return out


FUZZ_PER_ENV = {"quick": 0, "thorough": 4}


def env_cfg_shards(tier: str, env_list: List[str], weight: Dict[str, float] = None, cfg_filter=None, prop: str = None, seed: int = 0) -> List[Dict[str, Any]]:
    out = []
    for e in env_list:
        # the fixed matrix, then (thorough tier) random configurations drawn for this seed
        fuzz = E.fuzz_configs(e, seed, FUZZ_PER_ENV[tier]) if FUZZ_PER_ENV[tier] else []
        for c in E.configs(e, tier) + fuzz:
            if cfg_filter is not None and not cfg_filter(e, c):
                continue
            if prop is not None and "props" in c and prop not in c["props"]:
                continue  # a configuration may be restricted to the properties whose statement covers it (see jmon/envs.py)
            out.append({"id": f"{e}|{c['id']}", "env": e, "cfg": c, "weight": (weight or {}).get(e, 1.0)})
    return out


HEAVY = {"BinPack": 3.0, "MMST": 3.0, "RobotWarehouse": 2.5, "PacMan": 2.5, "RubiksCube": 2.0, "JobShop": 2.0, "LevelBasedForaging": 2.0, "Connector": 2.0}


# ------------------------------------------------------------------------------------------------- coincidences
# Two end reasons on one step: the episode is first played with a generous limit and the models' completing workload; if it
# ends naturally at step S, the same key and actions are replayed on an environment built with time_limit = S, so that the
# completion (last food eaten, target reached, puzzle solved, maze cleared ...) falls exactly on the step that reaches the limit.
COINCIDE = {
    "LevelBasedForaging": ["g6a3f2v1L20", "default"], "Maze": ["r4c7", "r5c9L7"], "Cleaner": ["r4c7a1"], "Connector": ["u5a4L7", "w5a3rwintL15"],
    "Sokoban": ["simple"], "Snake": ["r2c3L40", "r3c4L60"], "RubiksCube": ["n2s3L7"], "SlidingTilePuzzle": ["g3m20L7"],
    "PacMan": ["small12x13L400"], "MMST": ["n12e18d4a2p3L7", "n10e16d5a3p2"],
}


def coincidence_shards(tier: str, weight: Dict[str, float] = None) -> List[Dict[str, Any]]:
    out = []
    for e, cids in COINCIDE.items():
        for cid in (cids[:1] if tier == "quick" else cids):
            try:
                c = E.cfg_by_id(e, cid)
            except KeyError:
                continue
            out.append({"id": f"{e}|{cid}|coincide", "env": e, "cfg": c, "coincide": True, "weight": (weight or {}).get(e, 1.0)})
    return out


def run_coincidence(shard: Dict[str, Any], rep, make_monitor) -> None:
    """make_monitor(runner, P) -> Monitor for the replayed episode on the environment whose limit equals the natural end step."""
    import numpy as np

    from jmon.common import key_for, shard_rng
    from jmon.modelapi import ModelCtx
    from jmon.rollout import Runner, run_episode

    name, cfg, tier, seed, sid = shard["env"], shard["cfg"], shard["tier"], shard["seed"], shard["id"]
    rng = shard_rng(seed, sid)
    big = {k: v for k, v in cfg.items() if k not in ("tl_type", "make_id")}
    big["time_limit"] = 400
    big["id"] = cfg["id"] + "|L400"
    r_big = Runner(name, big)
    P_big = ModelCtx(name, big, rep, env=r_big.env, rng=rng)
    extra = P_big.call("policies") if P_big.has("policies") else {}
    pol = extra.get("complete")
    if pol is None:
        rep.count("coincidence_no_completing_workload")
        return
    done = 0
    for ep in range(6 if tier == "quick" else 20):
        key, kint = key_for(seed, sid, ep)
        info = run_episode(r_big, key, kint, pol, rng, [], episode=ep, max_steps=399)
        S = info["steps"]
        if not info["ended"] or S < 1 or S >= 399:
            continue
        acts = [np.asarray(e.action) for e in info["trace"][1:]]
        c2 = dict(big)
        c2["time_limit"] = S
        c2["id"] = cfg["id"] + f"|L=naturalend{S}"
        if name == "MMST":
            c2["max_step"] = S
        r2 = Runner(name, c2)
        P2 = ModelCtx(name, c2, rep, env=r2.env, rng=rng)
        mon = make_monitor(r2, P2)

        def replay(ctx, acts=acts):
            return acts[ctx["t"]] if ctx["t"] < len(acts) else acts[-1]

        info2 = run_episode(r2, key, kint, replay, rng, [mon], episode=ep, max_steps=S + 3, post_terminal=2)
        rep.states += info2["steps"] + 1
        rep.transitions += info2["steps"]
        rep.count("coincidence_episodes")
        rep.env_count(name, "coincidence_episodes")
        done += 1
        if done >= (2 if tier == "quick" else 6):
            break
    E.cleanup()
