"""C07 — model-based runtime monitor (see DESIGN §3 C07; machinery in _model_prop.py, rules in jmon/models/)."""
from jmon.props import _model_prop as MP

RULE = 'invariant monitor: the reset state and every state whose timestep is not LAST, under random / mixed / masked / frontier / collide workloads and probe branches, is checked for physical consistency and conservation laws recomputed from raw arrays; distinct by (environment, configuration, state digest)'
ASSUMPTIONS = ['states of LAST timesteps are exempt, as the quantifier says']
SHARD_TIMEOUT = MP.SHARD_TIMEOUT


def shards(tier, seed):
    return MP.shards_for("C07", tier, seed)


def run_shard(shard, rep):
    MP.run_model_shard("C07", shard, rep)


def floors(tier, counters, per_env):
    return MP.model_floors("C07", tier, counters, per_env, "states_checked", 10, extra=EXTRA_FLOORS)


def EXTRA_FLOORS(counters, per_env):
    return []
