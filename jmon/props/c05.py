"""C05 — model-based runtime monitor (see DESIGN §3 C05; machinery in _model_prop.py, rules in jmon/models/)."""
from jmon.props import _model_prop as MP

RULE = 'every transition (main trajectory and probes: all actions of small spaces at probed states) whose action the independent rules forbid is judged against the documented effect of an illegal move (LAST + documented reward + untouched problem state, or ignored move with position/holdings unchanged); distinct by (environment, configuration, successor state digest)'
ASSUMPTIONS = ["legality is decided by the rule sheet (DESIGN §4), not by the environment's mask", 'only the effects named in the statement are demanded (step counters / PRNG keys may advance)']
SHARD_TIMEOUT = MP.SHARD_TIMEOUT


def shards(tier, seed):
    return MP.shards_for("C05", tier, seed)


def run_shard(shard, rep):
    MP.run_model_shard("C05", shard, rep)


def floors(tier, counters, per_env):
    return MP.model_floors("C05", tier, counters, per_env, "illegal_actions_judged", 3, extra=EXTRA_FLOORS)


def EXTRA_FLOORS(counters, per_env):
    return []
