"""C03 — FIRST, MID*, LAST protocol with sane reward and discount (DESIGN §3 C03)."""
from __future__ import annotations

from typing import Any, Dict, List

import numpy as np

from jmon import envs as E
from jmon.common import Report, key_for, shard_rng
from jmon.props._util import HEAVY, coincidence_shards, deep_episodes, env_cfg_shards, run_coincidence, step_cap
from jmon.rollout import Event, Monitor, Runner, run_episode

RULE = (
    "trace automaton over whole episodes (one shard per environment x configuration, policies random / masked / "
    "invalid_late / survive / mixed / first), including 4 steps taken after the first LAST; each timestep is one "
    "evaluation per clause; distinct by (environment, configuration, state digest)"
)
ASSUMPTIONS = [
    "LevelBasedForaging at its time limit with food left is the only documented truncation (LAST with discount 1)",
    "timestep.first()/mid()/last() are compared with the raw step_type value",
]
SHARD_TIMEOUT = {"quick": 900, "thorough": 2400}
POLS = ["random", "masked", "invalid_late", "survive", "mixed", "first", "survive", "masked"]


def shards(tier: str, seed: int) -> List[Dict[str, Any]]:
    return env_cfg_shards(tier, E.ENVS, HEAVY, prop="C03", seed=seed) + coincidence_shards(tier, HEAVY)


class ProtocolMonitor(Monitor):
    def __init__(self, runner: Runner, rep: Report):
        self.r = runner
        self.rep = rep
        self.rshape = tuple(runner.env.reward_spec.shape)
        self.dshape = tuple(runner.env.discount_spec.shape)

    def _viol(self, ev: Event, clause: str, detail: Dict[str, Any]) -> None:
        detail = dict(detail)
        detail["event"] = ev.brief()
        detail["post_terminal"] = bool(ev.post_terminal)
        self.rep.violation(ev.env, ev.cfg_id, clause, detail, replay=ev.replay())

    def _common(self, ev: Event) -> None:
        rep = self.rep
        d = ev.discount.astype(np.float64)
        r = ev.reward
        st = ev.step_type
        rep.evaluated(1, ev.digest)
        rep.env_count(ev.env, "timesteps")
        if tuple(r.shape) != self.rshape:
            self._viol(ev, "reward_shape", {"shape": list(r.shape), "spec": list(self.rshape)})
        if tuple(d.shape) != self.dshape:
            self._viol(ev, "discount_shape", {"shape": list(d.shape), "spec": list(self.dshape)})
        if not bool(np.all((d >= 0) & (d <= 1))):
            self._viol(ev, "discount_in_unit_interval", {"discount": d.tolist()})
        # helper predicates agree with step_type
        f, m, l = bool(np.asarray(ev.ts.first())), bool(np.asarray(ev.ts.mid())), bool(np.asarray(ev.ts.last()))
        if (f, m, l) != (st == 0, st == 1, st == 2):
            self._viol(ev, "first_mid_last_predicates", {"step_type": st, "first": f, "mid": m, "last": l})

    def on_reset(self, ev: Event) -> None:
        self._common(ev)
        self.rep.count("reset_checked")
        if ev.step_type != 0:
            self._viol(ev, "reset_is_first", {"step_type": ev.step_type})
        if not bool(np.all(ev.reward == 0)):
            self._viol(ev, "reset_zero_reward", {"reward": ev.reward.tolist()})
        if not bool(np.all(ev.discount == 1)):
            self._viol(ev, "reset_unit_discount", {"discount": ev.discount.tolist()})

    def on_step(self, ev: Event) -> None:
        self._common(ev)
        rep = self.rep
        st = ev.step_type
        d = ev.discount.astype(np.float64)
        if ev.post_terminal:
            rep.count("post_terminal_steps")
            rep.env_count(ev.env, "post_terminal")
        if st not in (1, 2):
            self._viol(ev, "step_never_first", {"step_type": st})
            return
        if st == 1:
            rep.count("mid_checked")
            m = ev.O.get("action_mask")
            if m is not None and not np.asarray(m).any():
                rep.count("mid_with_empty_action_mask")  # dead-locked but still running
            if d.size and bool(np.all(d == 0)):
                self._viol(ev, "mid_discount_not_all_zero", {"discount": d.tolist()})
        else:
            rep.count("last_checked")
            rep.env_count(ev.env, "last")
            allowed_truncation = False
            if ev.env == "LevelBasedForaging":
                L = self.r.env.time_limit
                sc = int(ev.S["step_count"])
                eaten = bool(np.all(ev.S["food_items.eaten"]))
                if sc >= L and not eaten:
                    allowed_truncation = True
                    rep.count("lbf_truncation_seen")
                elif eaten:
                    rep.count("lbf_termination_seen")
            if not allowed_truncation and not bool(np.all(d == 0)):
                self._viol(ev, "last_zero_discount", {"discount": d.tolist()})
            if allowed_truncation and not bool(np.all((d == 1) | (d == 0))):
                self._viol(ev, "lbf_truncation_discount", {"discount": d.tolist()})
        if len(rep.samples) < 2 and st == 2 and not ev.post_terminal:
            rep.sample({"episode_end": ev.brief(), "actions": [np.asarray(a).tolist() for a in ev.actions][:12]})


def run_shard(shard: Dict[str, Any], rep: Report) -> None:
    if shard.get("coincide"):
        run_coincidence(shard, rep, lambda r2, P2: ProtocolMonitor(r2, rep))
        return
    tier, seed = shard["tier"], shard["seed"]
    runner = Runner(shard["env"], shard["cfg"])
    rng = shard_rng(seed, shard["id"])
    mon = ProtocolMonitor(runner, rep)
    pols = list(POLS if tier == "quick" else POLS * 3)
    from jmon.modelapi import ModelCtx

    P = ModelCtx(shard["env"], shard["cfg"], rep, env=runner.env, rng=rng)
    extra = P.call("policies") if P.has("policies") else {}
    for nm in ("complete", "collide", "frontier"):
        if nm in extra:
            pols.extend([extra[nm]] * (1 if tier == "quick" else 3))
    cap = step_cap(shard["env"], shard["cfg"], tier)
    # adversarial key search (workload only): where the model can score reset instances, the frontier workload (e.g. the MMST
    # dead-lock) is played on the best of 64 keys
    if P.has("key_score") and "frontier" in extra:
        from jmon.common import decode

        scored = []
        for j in range(64 if tier == "quick" else 256):
            k_, ki_ = key_for(seed, shard["id"] + "|search", j)
            s_, _ = runner.reset(k_)
            scored.append((P.call("key_score", decode(s_)), ki_, k_))
        scored.sort(key=lambda x: -x[0])
        for sc, ki_, k_ in scored[: (3 if tier == "quick" else 10)]:
            if sc > 0:
                info = run_episode(runner, k_, ki_, extra["frontier"], rng, [mon], episode=900, max_steps=cap + 4, post_terminal=4)
                rep.states += info["steps"] + 1
                rep.transitions += info["steps"]
                rep.count("adversarial_key_episodes")
    caps = [cap] * len(pols)
    for pol, c in deep_episodes(shard["env"], shard["cfg"], tier, extra):
        pols.append(pol)
        caps.append(c)
        rep.count("deep_episodes")
    for ep, pol in enumerate(pols):
        key, kint = key_for(seed, shard["id"], ep)
        info = run_episode(runner, key, kint, pol, rng, [mon], episode=ep, max_steps=caps[ep] + 4, post_terminal=4)
        rep.states += info["steps"] + 1
        rep.transitions += info["steps"]
        rep.env_count(shard["env"], "episodes")
    E.cleanup()


def floors(tier: str, counters: Dict[str, int], per_env: Dict[str, Dict[str, int]]) -> List[str]:
    missed = []
    for e in E.ENVS:
        pe = per_env.get(e, {})
        if pe.get("last", 0) < 1:
            missed.append(f"{e}: no LAST timestep observed")
        if pe.get("post_terminal", 0) < 1:
            missed.append(f"{e}: no post-terminal step observed")
    if counters.get("lbf_truncation_seen", 0) < 1:
        missed.append("LBF truncation at the time limit never observed")
    return missed
