"""C08 — model-based runtime monitor (see DESIGN §3 C08; machinery in _model_prop.py, rules in jmon/models/)."""
from jmon.props import _model_prop as MP

RULE = 'for every episode of masked-in actions that ran to its natural end, the float64 sum of rewards is compared with the documented objective recomputed from the final state (and shadow history); for environments with dense and sparse reward functions the same key and action list is replayed under the other reward function and the returns compared; distinct by (environment, configuration, final state digest)'
ASSUMPTIONS = ['episodes ended by an invalid action or a time limit are outside the statement unless the documentation defines their value', 'MultiCVRP is only in the dense=sparse clause']
SHARD_TIMEOUT = MP.SHARD_TIMEOUT


def shards(tier, seed):
    return MP.shards_for("C08", tier, seed)


def run_shard(shard, rep):
    MP.run_model_shard("C08", shard, rep)


def floors(tier, counters, per_env):
    return MP.model_floors("C08", tier, counters, per_env, "returns_compared", 1, extra=EXTRA_FLOORS)


def EXTRA_FLOORS(counters, per_env):
    return []
