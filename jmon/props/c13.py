"""C13 — AutoResetWrapper resets exactly when an episode ends, with a fresh instance (DESIGN §3 C13)."""
from __future__ import annotations

from typing import Any, Dict, List

import numpy as np

from jmon import actions as A
from jmon import envs as E
from jmon.common import Report, decode, digest_decoded, key_for, shard_rng, tree_diff
from jmon.props._util import HEAVY

RULE = (
    "differential monitor: every AutoResetWrapper.step(S, a) (both next_obs_in_extras settings; python loop of jitted "
    "steps, lax.scan of 40-60 steps and vmap over 2 instances) is compared with env.step(S, a) and, when that is LAST, with "
    "env.reset(k') for k' derived from the terminal state's key (split/fold_in candidates, never the terminal or the original "
    "key); runs span several episodes (tiny time limits / random actions); shadow history of derived keys and instances; "
    "one evaluation = one wrapper step compared; distinct by (environment, configuration, digest of the wrapper's output state)"
)
ASSUMPTIONS = [
    "fresh key = split(key)[0|1] or fold_in(key, 0..3) of the terminal state's key (documented: split(key)[0])",
    "instance/key distinctness across auto-resets is demanded only for random generators (toy/CSV/dummy generators are constant by design)",
    "float leaves compared with rtol 1e-5 (wrapper and native programs are compiled separately); ints/bools exact",
]
SHARD_TIMEOUT = {"quick": 1500, "thorough": 3000}

# configurations whose generator is deterministic by design (no distinctness demanded)
DETERMINISTIC = {
    ("Sokoban", "toy"), ("Sokoban", "simple"), ("Maze", "toy"), ("FlatPack", "toy_rot"), ("FlatPack", "toy_norot"),
    ("BinPack", "toy"), ("BinPack", "csv"), ("JobShop", "toy"), ("Sudoku", "dummy"), ("Sudoku", "tiny"), ("PacMan", None),
}


SHORT_CFG = {"Game2048": "b2"}  # configurations with short episodes for environments without a time limit


def is_random_cfg(env: str, cfg: Dict[str, Any]) -> bool:
    if env == "PacMan":
        return False
    if env == "RubiksCube" and cfg.get("scrambles", 100) == 0:
        return False
    if env == "SlidingTilePuzzle" and cfg.get("moves", 100) == 0:
        return False
    if (env, cfg.get("gen")) in DETERMINISTIC:
        return False
    # the model modules know the degenerate sizes on which a random construction leaves no choice (FlatPack 1x1 block,
    # 3x3 Cleaner mazes, Minesweeper without mines ...)
    from jmon.modelapi import get_model

    m = get_model(env)
    if m is not None and hasattr(m, "RANDOM_GENERATOR") and not m.RANDOM_GENERATOR(cfg):
        return False
    return True


def pick_cfgs(env: str, tier: str) -> List[Dict[str, Any]]:
    cfgs = E.configs(env, tier)
    # prefer configurations with short episodes: small explicit time limits first
    def score(c):
        L = c.get("time_limit")
        if L is None:
            return (3, 10**6)
        # short episodes, but long enough that some steps do not terminate (a limit of 1 ends every step)
        return (0 if 3 <= L <= 7 else (1 if L == 2 else (2 if L > 7 else 4)), L)
    ranked = sorted(cfgs[1:], key=score)
    if env in SHORT_CFG:
        ranked = [E.cfg_by_id(env, SHORT_CFG[env])] + [c for c in ranked if c["id"] != SHORT_CFG[env]]
    if tier == "quick":
        return ranked[:1] if ranked else cfgs[:1]
    return (ranked[:3] if ranked else []) + cfgs[:1]


# the wrapped object need not be a bare environment: a user-defined Wrapper that rewrites observations in reset and step, and
# the library's MultiToSingleWrapper, sit between the auto-reset wrapper and the environment in these shards
INNER = {
    "quick": [("Snake", "r3c5L7", "tag"), ("Knapsack", "n10b2sparse", "tag"), ("Maze", "r5c9L7", "tag"),
              ("Connector", "u5a4L7", "m2s"), ("LevelBasedForaging", "g6a3f2v2gridL7", "m2s_tag")],
    "thorough": [("Snake", "r3c5L7", "tag"), ("Knapsack", "n10b2sparse", "tag"), ("Maze", "r5c9L7", "tag"), ("Tetris", "r6c5L3", "tag"),
                 ("Cleaner", "r5c11a2L7", "tag"), ("Minesweeper", "r3c7m5", "tag"), ("TSP", "n5sparse", "tag"), ("Game2048", "b2", "tag"),
                 ("Connector", "u5a4L7", "m2s"), ("LevelBasedForaging", "g6a3f2v2gridL7", "m2s_tag"), ("Connector", "u4a3L2", "m2s_tag")],
}


MIXED_ENDINGS = {
    "quick": [("Tetris", "r5c8L12"), ("Tetris", "r6c5L7"), ("Snake", "r3c4L60"), ("Cleaner", "r4c7a1"), ("Minesweeper", "r3c7m5")],
    "thorough": [("Tetris", "r5c8L12"), ("Tetris", "r6c5L7"), ("Tetris", "default"), ("Snake", "r3c4L60"), ("Snake", "default"), ("Cleaner", "r4c7a1"),
                 ("Minesweeper", "r3c7m5"), ("Sudoku", "veryeasy"), ("GraphColoring", "n6p5"), ("JobShop", "j5m3o4d3"), ("BinPack", "r10e12o5"),
                 ("TSP", "n5"), ("CVRP", "n10c3d3"), ("Knapsack", "n10b2")],
}


def wrap_inner(env, kind):
    """kind: None | "tag" (user wrapper rewriting every observation leaf in reset and step) | "m2s" | "m2s_tag"."""
    if not kind:
        return env
    import jax
    import jax.numpy as jnp
    from jumanji.wrappers import MultiToSingleWrapper, Wrapper

    class TagObservation(Wrapper):
        """Same structure, shapes and dtypes; every numeric leaf + 1, every boolean leaf negated."""

        @staticmethod
        def _tag(ts):
            f = lambda x: (~x if jnp.asarray(x).dtype == jnp.bool_ else jnp.asarray(x) + jnp.asarray(1, jnp.asarray(x).dtype))
            return ts.replace(observation=jax.tree_util.tree_map(f, ts.observation))

        def reset(self, key):
            state, ts = self._env.reset(key)
            return state, self._tag(ts)

        def step(self, state, action):
            state, ts = self._env.step(state, action)
            return state, self._tag(ts)

    if kind.startswith("m2s"):
        env = MultiToSingleWrapper(env)
    if kind.endswith("tag"):
        env = TagObservation(env)
    return env


def shards(tier: str, seed: int) -> List[Dict[str, Any]]:
    out = []
    for e in E.ENVS:
        for c in pick_cfgs(e, tier):
            out.append({"id": f"{e}|{c['id']}", "env": e, "cfg": c, "weight": HEAVY.get(e, 1.0)})
    # runs in which episodes end for different reasons (invalid move, completion, time limit) inside one run: the small
    # time limits chosen above end nearly every episode at the limit
    for e, cid in MIXED_ENDINGS[tier]:
        out.append({"id": f"{e}|{cid}|mixed", "env": e, "cfg": E.cfg_by_id(e, cid), "steps": 150 if tier == "quick" else 500, "weight": HEAVY.get(e, 1.0)})
    # episodes driven by the models' completing workloads through the wrapper (a perfect Snake player fills the board again and
    # again), and runs whose time limit is set to the step of the first rewarded event of that very key (a RobotWarehouse
    # delivery / a PacMan pellet / a Cleaner tile on the step that ends the episode)
    for e, cid in (("Snake", "r2c3L40"), ("Snake", "r4c4L200"), ("Sudoku", "veryeasy"), ("Minesweeper", "r3c7m5"),
                   ("SlidingTilePuzzle", "g3m3sparse"), ("RubiksCube", "n2s3L7"), ("Maze", "r4c7"), ("Cleaner", "r4c7a1"),
                   # Knapsack with a generous budget: about one instance in ten is trivial (every item fits at once)
                   ("Knapsack", "n8b3int")):
        out.append({"id": f"{e}|{cid}|policy-complete", "env": e, "cfg": E.cfg_by_id(e, cid), "policy": "complete", "steps": 260 if tier == "quick" else 800, "weight": HEAVY.get(e, 1.0)})
    for e, cid in (("RobotWarehouse", "s2x1h3a2r1q2L7"), ("RobotWarehouse", "default"), ("Cleaner", "r4c7a1"), ("LevelBasedForaging", "g6a3f2v1L20"),
                   # one food: the first rewarded event is the *last* food, completion and time limit fall on the same step
                   ("LevelBasedForaging", "g5a1f1v1L3")):
        out.append({"id": f"{e}|{cid}|limit-at-first-reward", "env": e, "cfg": E.cfg_by_id(e, cid), "policy": "complete", "coincide_reward": True, "weight": HEAVY.get(e, 1.0)})
    for e, cid, kind in INNER[tier]:
        out.append({"id": f"{e}|{cid}|inner-{kind}", "env": e, "cfg": E.cfg_by_id(e, cid), "inner": kind, "weight": HEAVY.get(e, 1.0)})
    return out


def slice_tree(tree, i):
    import jax

    return jax.tree_util.tree_map(lambda x: x[i], tree)


def run_shard(shard: Dict[str, Any], rep: Report) -> None:
    import jax
    import jax.numpy as jnp
    from jumanji.wrappers import AutoResetWrapper

    tier, seed, sid = shard["tier"], shard["seed"], shard["id"]
    name, cfg = shard["env"], shard["cfg"]
    cid = cfg["id"]
    rng = shard_rng(seed, sid)
    env = wrap_inner(E.build(name, cfg), shard.get("inner"))
    if shard.get("inner"):
        rep.count("inner_wrapper_shards")
    spec = env.action_spec
    n_reset = jax.jit(env.reset)
    n_step = jax.jit(env.step)
    tol = dict(exact=False, rtol=1e-5, atol=1e-6)
    random_cfg = is_random_cfg(name, cfg)
    n_steps = shard.get("steps") or (40 if tier == "quick" else 200)

    def viol(clause, detail, replay=None, qualifier=""):
        rep.violation(name, cid, clause, detail, replay=replay or {"env": name, "cfg": cfg}, qualifier=qualifier)

    model_pol = None
    pol_ctx: Dict[str, Any] = {}
    if shard.get("policy"):
        from jmon.modelapi import ModelCtx
        from jmon.rollout import Runner

        facade = Runner(name, cfg)
        P = ModelCtx(name, cfg, rep, env=facade.env, rng=rng)
        model_pol = (P.call("policies") if P.has("policies") else {}).get(shard["policy"])
        pol_ctx = {"env_name": name, "spec": spec, "rng": rng, "runner": facade, "legal_only": True, "policy": "model", "episode": 0}

    def choose_action(ts, i, state=None, t_ep=0):
        if model_pol is not None and state is not None:
            if t_ep == 0:  # a new episode: the workloads keep per-episode plans in their context
                for k_ in [k_ for k_ in pol_ctx if k_ not in ("env_name", "spec", "rng", "runner", "legal_only", "policy", "episode")]:
                    del pol_ctx[k_]
            pol_ctx.update(ts=ts, state=state, t=t_ep)
            try:
                return np.asarray(model_pol(pol_ctx))
            except Exception:
                pass
        m = A.get_mask(ts)
        u = rng.random()
        if u < 0.55:
            return A.sample_masked(name, spec, m, rng)[0]
        return A.sample_random(spec, rng)

    all_derived: Dict[bytes, int] = {}
    for nobs in (False, True):
        if shard.get("coincide_reward") and model_pol is not None:
            # the limit of this pass = the step of the first rewarded event of this pass's own key under the completing workload
            from jmon.rollout import Runner, run_episode

            big = dict(cfg)
            big["time_limit"] = 300
            big["id"] = cfg["id"] + "|L300"
            key_p, kint_p = key_for(seed, sid, int(nobs))
            rb = Runner(name, big)
            Pb = ModelCtx(name, big, rep, env=rb.env, rng=rng)
            polb = (Pb.call("policies") if Pb.has("policies") else {}).get(shard["policy"])
            info = run_episode(rb, key_p, kint_p, polb, np.random.default_rng(kint_p), [], max_steps=299)
            hits = [e_.t for e_ in info["trace"][1:] if float(np.sum(e_.reward)) > 0]
            if not hits:
                rep.count("coincide_reward_no_event")
                continue
            c2 = dict(cfg)
            c2["time_limit"] = int(hits[0])
            c2["id"] = cfg["id"] + f"|L=firstreward{hits[0]}"
            env = E.build(name, c2)
            spec = env.action_spec
            n_reset, n_step = jax.jit(env.reset), jax.jit(env.step)
            facade = Runner(name, c2)
            pol_ctx.update(runner=facade, rng=np.random.default_rng(kint_p))
            n_steps = int(hits[0]) + 6
            rep.count("coincide_reward_runs")
        w = AutoResetWrapper(env, next_obs_in_extras=nobs)
        # specs pass through unchanged
        for sname in ("observation_spec", "action_spec", "reward_spec", "discount_spec"):
            rep.evaluated(1)
            a_, b_ = getattr(w, sname), getattr(env, sname)
            if a_ is not b_ and repr(a_) != repr(b_):
                viol("specs_pass_through", {"spec": sname})
        w_reset = jax.jit(w.reset)
        w_step = jax.jit(w.step)
        key, kint = key_for(seed, sid, int(nobs))
        ws, wt = w_reset(key)
        ns, nt = n_reset(key)
        rep.evaluated(1)
        bad = tree_diff(decode(ws), decode(ns), **tol)
        exp_t = decode(nt)
        if nobs:
            exp_t.update({"extras.next_obs." + k if k else "extras.next_obs": v for k, v in decode(nt.observation).items()})
        bad += tree_diff(decode(wt), exp_t, **tol)
        if bad:
            viol("wrapper_reset_equals_env_reset", {"fields": bad[:6], "next_obs_in_extras": nobs}, replay={"env": name, "cfg": cfg, "reset_key_int": kint})
        state, ts = ws, wt
        actions = []
        derived_keys, instance_digests = [], [digest_decoded({k: v for k, v in decode(ns).items() if k != "key"})]
        resets = 0
        orig_key = np.asarray(key)
        t_ep = 0
        for i in range(n_steps):
            a = choose_action(ts, i, state, t_ep)
            t_ep += 1
            aj = A.as_action(spec, a)
            actions.append(np.asarray(a).tolist())
            w2s, w2t = w_step(state, aj)
            n2s, n2t = n_step(state, aj)
            is_last = int(np.asarray(n2t.step_type)) == 2
            dws = decode(w2s)
            rep.evaluated(1, digest_decoded(dws))
            rep.count("wrapper_steps")
            rp = {"env": name, "cfg": cfg, "reset_key_int": kint, "actions": list(actions), "next_obs_in_extras": nobs}
            term_obs = decode(n2t.observation)
            if not is_last:
                rep.count("non_terminal_steps")
                exp_t = decode(n2t)
                if nobs:
                    exp_t.update({("extras.next_obs." + k) if k else "extras.next_obs": v for k, v in term_obs.items()})
                bad = tree_diff(dws, decode(n2s), **tol)
                bad_t = tree_diff(decode(w2t), exp_t, **tol)
                if bad:
                    viol("non_terminal_state_equals_env_step", {"fields": bad[:6], "step": i}, replay=rp)
                if bad_t:
                    viol("non_terminal_timestep_equals_env_step", {"fields": bad_t[:6], "step": i}, replay=rp)
            else:
                rep.count("terminal_steps")
                if float(np.sum(np.asarray(n2t.reward))) > 0:
                    rep.count("terminal_steps_with_positive_reward")  # an event and the end of the episode on one step
                resets += 1
                t_ep = 0
                tkey = n2s.key
                cands = {"split0": jax.random.split(tkey)[0], "split1": jax.random.split(tkey)[1]}
                for j in range(4):
                    cands[f"fold_in{j}"] = jax.random.fold_in(tkey, j)
                found = None
                for cname, ck in cands.items():
                    rs, rt = n_reset(ck)
                    if not tree_diff(dws, decode(rs), **tol):
                        found = (cname, ck, rs, rt)
                        break
                if found is None:
                    q = ""
                    for cname, ck in (("terminal_key", tkey), ("original_reset_key", jnp.asarray(orig_key))):
                        rs, rt = n_reset(ck)
                        if not tree_diff(dws, decode(rs), **tol):
                            q = cname
                    if not q and not tree_diff(dws, decode(n2s), **tol):
                        q = "not_reset_at_all"
                    viol("auto_reset_state_is_reset_of_fresh_key", {"step": i, "looks_like": q or "unknown"}, replay=rp, qualifier=q)
                else:
                    cname, ck, rs, rt = found
                    rep.count(f"derivation:{cname}")
                    derived_keys.append(np.asarray(ck).tobytes())
                    instance_digests.append(digest_decoded({k: v for k, v in decode(rs).items() if k != "key"}))
                    exp_t = decode(n2t)
                    for k in list(exp_t):
                        if k.startswith("observation"):
                            del exp_t[k]
                    exp_t.update({("observation." + k) if k else "observation": v for k, v in decode(rt.observation).items()})
                    if nobs:
                        exp_t.update({("extras.next_obs." + k) if k else "extras.next_obs": v for k, v in term_obs.items()})
                    bad_t = tree_diff(decode(w2t), exp_t, **tol)
                    if bad_t:
                        kinds = sorted({f.split(".")[0] for f in bad_t})
                        viol("terminal_timestep_fields", {"fields": bad_t[:6], "step": i}, replay=rp, qualifier=",".join(kinds))
                    if int(np.asarray(w2t.step_type)) != 2:
                        viol("terminal_step_type_is_last", {"step": i}, replay=rp)
            state, ts = w2s, w2t
        rep.env_count(name, "auto_resets", resets)
        rep.env_count(name, "wrapper_steps", n_steps)
        rep.states += n_steps
        rep.transitions += n_steps
        if random_cfg:
            # the same derived key in two runs that started from different keys: it was not derived from the episode's key stream
            for dk in set(derived_keys):
                if dk in all_derived and all_derived[dk] != int(nobs):
                    rep.evaluated(1)
                    viol("auto_reset_keys_repeat_across_runs", {"key": np.frombuffer(dk, np.uint32).tolist(), "runs": [all_derived[dk], int(nobs)]},
                         replay={"env": name, "cfg": cfg, "reset_key_int": kint, "actions": actions[-60:]})
                all_derived.setdefault(dk, int(nobs))
            rep.count("key_history_across_runs_checked")
        if random_cfg and len(derived_keys) >= 2:
            rep.evaluated(1)
            rep.count("key_history_checked")
            if len(set(derived_keys)) < len(derived_keys):
                viol("successive_auto_resets_use_distinct_keys", {"resets": len(derived_keys), "distinct": len(set(derived_keys))},
                     replay={"env": name, "cfg": cfg, "reset_key_int": kint, "actions": actions})
            if len(derived_keys) >= 3 and len(set(instance_digests)) < 2:
                viol("random_generator_not_replayed", {"episodes": len(instance_digests), "distinct_instances": len(set(instance_digests))},
                     replay={"env": name, "cfg": cfg, "reset_key_int": kint, "actions": actions})
        if len(rep.samples) < 2:
            rep.sample({"env": name, "cfg": cid, "next_obs_in_extras": nobs, "reset_key_int": kint, "actions_head": actions[:10], "auto_resets": resets})

        # ---- scan and vmap of the wrapper vs the python loop of wrapper steps ---------------------------------
        n_scan = 40 if tier == "quick" else 60
        acts = jnp.stack([A.as_action(spec, A.sample_random(spec, rng) if rng.random() < 0.5 else A.sample_masked(name, spec, None, rng)[0]) for _ in range(n_scan)])
        s0, t0 = w_reset(key)
        loop = []
        s = s0
        for i in range(n_scan):
            s, t = w_step(s, acts[i])
            loop.append((s, t))
        try:
            fin, (ss, tt) = jax.jit(lambda st, xs: jax.lax.scan(lambda c, x: (lambda r: (r[0], r))(w.step(c, x)), st, xs))(s0, acts)
            n_last = 0
            for i in range(n_scan):
                bad = tree_diff(decode(slice_tree(ss, i)), decode(loop[i][0]), **tol) + tree_diff(decode(slice_tree(tt, i)), decode(loop[i][1]), **tol)
                rep.evaluated(1)
                rep.count("scan_steps")
                n_last += int(np.asarray(loop[i][1].step_type)) == 2
                if bad:
                    viol("scan_equals_loop", {"index": i, "fields": bad[:6], "next_obs_in_extras": nobs})
                    break
            rep.count("scan_auto_resets", n_last)
        except Exception as e:
            viol("scan_of_wrapper_raises", {"error": repr(e)[:300]})
        try:
            keys2 = jnp.stack([key, jax.random.PRNGKey(kint % 1000 + 5)])
            vs, vt = jax.jit(jax.vmap(w.reset))(keys2)
            singles = [w_reset(keys2[j]) for j in range(2)]
            vstep = jax.jit(jax.vmap(w.step))
            for i in range(min(n_scan, 25)):
                a2 = jnp.stack([acts[i], acts[(i * 7 + 3) % n_scan]])
                vs, vt = vstep(vs, a2)
                for j in range(2):
                    singles[j] = w_step(singles[j][0], a2[j])
                    bad = tree_diff(decode(slice_tree(vs, j)), decode(singles[j][0]), **tol) + tree_diff(decode(slice_tree(vt, j)), decode(singles[j][1]), **tol)
                    rep.evaluated(1)
                    rep.count("vmap_steps")
                    if bad:
                        viol("vmap_of_wrapper_equals_single", {"index": i, "element": j, "fields": bad[:6]})
                        raise StopIteration
        except StopIteration:
            pass
        except Exception as e:
            viol("vmap_of_wrapper_raises", {"error": repr(e)[:300]})
    E.cleanup()


def floors(tier: str, counters: Dict[str, int], per_env: Dict[str, Dict[str, int]]) -> List[str]:
    missed = []
    for e in E.ENVS:
        pe = per_env.get(e, {})
        if pe.get("auto_resets", 0) < 2:
            missed.append(f"{e}: fewer than 2 auto-resets observed ({pe.get('auto_resets', 0)})")
    for c in ("non_terminal_steps", "terminal_steps", "scan_steps", "vmap_steps", "key_history_checked"):
        if counters.get(c, 0) < 10:
            missed.append(f"clause {c} evaluated fewer than 10 times")
    return missed
