"""C19 — pytree helpers satisfy their algebraic laws (DESIGN §3 C19)."""
from __future__ import annotations

import collections
from typing import Any, Dict, List

import numpy as np

from jmon import envs as E
from jmon.common import Report, decode, shard_rng

RULE = (
    "law-based harness: random pytrees (dict / list / tuple / namedtuple nests, leaves of rank 0-3 and dtypes bool/int/float, "
    "batch sizes 1-8, every index incl. negative ones) and stacked REAL states of the 23 environments are pushed through "
    "tree_transpose / tree_slice / tree_add_element / is_equal_pytree / assert_trees_are_different|equal; results are judged "
    "by NumPy oracles; the real functions additionally run under icontract contracts (also while the repository's own "
    "tree_utils_test.py and pytrees_test.py run). One evaluation = one law instance; distinct by digest of the tree"
)
ASSUMPTIONS = ["NaN leaves are not generated (array equality is not reflexive on NaN by definition)",
               "is_equal_pytree is judged on trees of the same structure only, as its docstring requires"]
SHARD_TIMEOUT = {"quick": 1200, "thorough": 3000}

Pair = collections.namedtuple("Pair", ["left", "right"])
Triple = collections.namedtuple("Triple", ["a", "b", "c"])
DT = ["bool", "int8", "int32", "uint8", "float32", "float16"]


def shards(tier: str, seed: int) -> List[Dict[str, Any]]:
    n = 6 if tier == "quick" else 12
    per = 90 if tier == "quick" else 850
    out = [{"id": f"trees|gen{i}", "kind": "generated", "count": per, "weight": 1.0} for i in range(n)]
    groups = [E.ENVS[i::4] for i in range(4)]
    out += [{"id": f"trees|envs{i}", "kind": "envs", "envs": g, "weight": 3.0} for i, g in enumerate(groups)]
    out.append({"id": "trees|repo_tests_under_contracts", "kind": "pytest", "weight": 2.0})
    return out


INF_LEAVES = [0]


def rand_leaf(rng, shape_prefix=()):
    rank = int(rng.integers(0, 4))
    shape = tuple(shape_prefix) + tuple(int(rng.integers(1, 4)) for _ in range(rank))
    dt = np.dtype(rng.choice(DT))
    if dt == np.bool_:
        return rng.integers(0, 2, size=shape).astype(bool)
    if np.issubdtype(dt, np.integer):
        return rng.integers(0, 100, size=shape).astype(dt)
    return rng.uniform(-5, 5, size=shape).astype(dt)


def rand_struct(rng, depth):
    """A structure description: nested python containers with leaf *specs* (shape suffix, dtype)."""
    if depth == 0 or rng.random() < 0.3:
        rank = int(rng.integers(0, 3))
        return ("leaf", tuple(int(rng.integers(1, 4)) for _ in range(rank)), str(rng.choice(DT)))
    kind = rng.choice(["dict", "list", "tuple", "pair", "triple"])
    n = {"pair": 2, "triple": 3}.get(kind, int(rng.integers(1, 4)))
    return (kind, [rand_struct(rng, depth - 1) for _ in range(n)])


def build(rng, struct, prefix=()):
    if struct[0] == "leaf":
        shape, dt = tuple(prefix) + struct[1], np.dtype(struct[2])
        if dt == np.bool_:
            return rng.integers(0, 2, size=shape).astype(bool)
        if np.issubdtype(dt, np.integer):
            return rng.integers(0, 100, size=shape).astype(dt)
        a = rng.uniform(-5, 5, size=shape).astype(dt)
        if a.size and rng.random() < 0.2:
            # an infinite entry (a padding / sentinel value): arithmetic shortcuts (0 * inf) must not leak it into other entries
            a.reshape(-1)[int(rng.integers(a.size))] = np.inf if rng.random() < 0.5 else -np.inf
            INF_LEAVES[0] += 1
        return a
    kids = [build(rng, s, prefix) for s in struct[1]]
    if struct[0] == "dict":
        return {f"k{i}": k for i, k in enumerate(kids)}
    if struct[0] == "list":
        return list(kids)
    if struct[0] == "tuple":
        return tuple(kids)
    if struct[0] == "pair":
        return Pair(*kids)
    return Triple(*kids)


def to_jnp(tree):
    import jax
    import jax.numpy as jnp

    return jax.tree_util.tree_map(jnp.asarray, tree)


def leaves(tree):
    import jax

    return [np.asarray(x) for x in jax.tree_util.tree_leaves(tree)]


def same_structure(a, b) -> bool:
    import jax

    return jax.tree_util.tree_structure(a) == jax.tree_util.tree_structure(b)


def np_equal_trees(a, b) -> bool:
    la, lb = leaves(a), leaves(b)
    return len(la) == len(lb) and all(x.shape == y.shape and bool(np.all(x == y)) for x, y in zip(la, lb))


def strict_equal_trees(a, b) -> bool:
    la, lb = leaves(a), leaves(b)
    return len(la) == len(lb) and all(x.shape == y.shape and x.dtype == y.dtype and bool(np.array_equal(x, y)) for x, y in zip(la, lb))


class Laws:
    def __init__(self, rep: Report, rng, where="generated"):
        from jumanji import tree_utils
        from jumanji.testing import pytrees

        self.rep, self.rng, self.tu, self.pt, self.where = rep, rng, tree_utils, pytrees, where

    def viol(self, clause, detail, qualifier=""):
        self.rep.violation(self.where, "trees", clause, detail, replay={"where": self.where, "detail": detail}, qualifier=qualifier)

    def ev(self, clause):
        self.rep.evaluated(1)
        self.rep.count(clause)

    def stack_slice_add(self, trees, desc):
        """trees: list of identically structured trees (jnp leaves)."""
        tu = self.tu
        b = len(trees)
        try:
            stacked = tu.tree_transpose(trees)
        except Exception as e:
            self.viol("tree_transpose_raises", {"error": repr(e)[:200], "desc": desc})
            return
        self.ev("transpose_structure")
        if not same_structure(stacked, trees[0]):
            self.viol("transpose_preserves_structure", {"desc": desc})
            return
        for i in list(range(b)) + [-1, -b]:
            self.ev("slice_of_transpose")
            try:
                sl = tu.tree_slice(stacked, i)
            except Exception as e:
                self.viol("tree_slice_raises", {"error": repr(e)[:200], "index": i, "desc": desc})
                continue
            if not same_structure(sl, trees[i]) or not strict_equal_trees(sl, trees[i]):
                self.viol("slice_of_transpose_is_ith_tree", {"index": i, "batch": b, "desc": desc})
        # tree_add_element
        i = int(self.rng.integers(-b, b))
        elem = trees[int(self.rng.integers(0, b))]
        elem = _perturb(self.rng, elem)
        before = [x.copy() for x in leaves(stacked)]
        self.ev("add_element")
        try:
            out = tu.tree_add_element(stacked, i, elem)
        except Exception as e:
            self.viol("tree_add_element_raises", {"error": repr(e)[:200], "index": i, "desc": desc})
            return
        if not same_structure(out, stacked):
            self.viol("add_element_preserves_structure", {"desc": desc})
            return
        lo, ls, le = leaves(out), leaves(stacked), leaves(elem)
        for k, (o, s, e) in enumerate(zip(lo, ls, le)):
            if o.shape != s.shape or o.dtype != s.dtype:
                self.viol("add_element_preserves_shape_dtype", {"leaf": k, "got": [list(o.shape), str(o.dtype)], "want": [list(s.shape), str(s.dtype)], "desc": desc})
                continue
            if not np.array_equal(o[i], e.astype(s.dtype)):
                self.viol("add_element_sets_index", {"leaf": k, "index": i, "desc": desc})
            mask = np.ones(b, bool)
            mask[i] = False
            if not np.array_equal(o[mask], s[mask]):
                self.viol("add_element_changes_nothing_else", {"leaf": k, "index": i, "desc": desc})
        if any(not np.array_equal(x, y) for x, y in zip(before, leaves(stacked))):
            self.viol("add_element_does_not_modify_input", {"desc": desc})
        # the same element handed over in *wider* dtypes (an int32 0/1 mask for a bool leaf, int32 for int8, float32 for
        # float16 - values that fit): structure and dtypes of the batched tree must still be preserved
        import jax
        import jax.numpy as jnp

        def widen(x):
            a = np.asarray(x)
            if a.dtype == np.bool_ or (np.issubdtype(a.dtype, np.integer) and a.dtype.itemsize < 4):
                return jnp.asarray(a.astype(np.int32))
            if a.dtype == np.float16:
                return jnp.asarray(a.astype(np.float32))
            return x

        elem_w = jax.tree_util.tree_map(widen, elem)
        if any(np.asarray(x).dtype != np.asarray(y).dtype for x, y in zip(jax.tree_util.tree_leaves(elem_w), jax.tree_util.tree_leaves(elem))):
            self.ev("add_element_wider_dtype")
            try:
                out_w = tu.tree_add_element(stacked, i, elem_w)
            except Exception as e:
                self.viol("tree_add_element_raises", {"error": repr(e)[:200], "index": i, "desc": desc, "element": "wider dtypes"}, qualifier="wider_element_dtype")
                return
            for k, (o, s_, e) in enumerate(zip(leaves(out_w), ls, le)):
                if o.shape != s_.shape or o.dtype != s_.dtype:
                    self.viol("add_element_preserves_shape_dtype", {"leaf": k, "got": [list(o.shape), str(o.dtype)], "want": [list(s_.shape), str(s_.dtype)], "element": "wider dtypes", "desc": desc}, qualifier="wider_element_dtype")
                elif not np.array_equal(o[i], e.astype(s_.dtype)):
                    self.viol("add_element_sets_index", {"leaf": k, "index": i, "element": "wider dtypes", "desc": desc}, qualifier="wider_element_dtype")

    def cross_dtype_near_misses(self, desc):
        """Pairs of *JAX* leaves of different dtypes whose values differ only by what a 32/16-bit promotion would lose
        (int32 2**24+1 vs float32 2**24, uint32 2**32-1 vs int32 -1, int32 2049 vs float16 2048 ...): equal shape but not
        equal elements, so the helper must say False; and cross-dtype pairs that really are element-wise equal (True)."""
        import jax.numpy as jnp

        pt, rng = self.pt, self.rng
        k = int(rng.integers(0, 6))
        big = 16777217 + 2 * int(rng.integers(0, 1000))
        pairs = [
            (jnp.asarray([big, 5], jnp.int32), jnp.asarray([big, 5], jnp.int32).astype(jnp.float32)),
            (jnp.asarray([2**32 - 1 - k], jnp.uint32), jnp.asarray([-1 - k], jnp.int32)),
            (jnp.asarray([2049 + 2 * k, 1], jnp.int32), jnp.asarray([2049 + 2 * k, 1], jnp.int32).astype(jnp.float16)),
            (jnp.asarray([255 - k], jnp.uint8), jnp.asarray([-1 - k], jnp.int8)),
            (jnp.asarray([3 + k, 7], jnp.int32), jnp.asarray([3 + k, 7], jnp.float32)),          # really equal
            (jnp.asarray([True, False]), jnp.asarray([1, 0], jnp.int8)),                          # really equal
            (jnp.asarray([0.0, 1.5, -0.0], jnp.float32), jnp.asarray([-0.0, 1.5, 0.0], jnp.float32)),  # equal elements: 0.0 == -0.0
            (np.asarray([0.0, -0.0], np.float32), np.asarray([-0.0, 0.0], np.float32)),                 # the same with NumPy leaves
            (jnp.asarray([-0.0], jnp.float16), jnp.asarray([0.0], jnp.float32)),                        # and across dtypes
            (jnp.asarray([0.1], jnp.float32), jnp.asarray([0.1], jnp.float16)),                   # 0.1 differs between the two
        ]
        wrap = [lambda x: {"a": x}, lambda x: [x, jnp.zeros((2,), jnp.int32)], lambda x: (x,)][int(rng.integers(0, 3))]
        for a, b in pairs:
            A_, B_ = np.asarray(a), np.asarray(b)
            oracle = bool(A_.shape == B_.shape and np.all(A_.astype(object) == B_.astype(object)))  # exact Python arithmetic
            self.ev("eq_matches_oracle")
            self.rep.count("eq_variant_cross_dtype_jax")
            try:
                r1, r2 = pt.is_equal_pytree(wrap(a), wrap(b)), pt.is_equal_pytree(wrap(b), wrap(a))
            except Exception as e:
                self.viol("is_equal_raises", {"error": repr(e)[:200], "variant": "cross_dtype_jax"}, qualifier="cross_dtype_jax")
                continue
            if r1 != r2:
                self.viol("is_equal_symmetric", {"variant": "cross_dtype_jax", "a": [str(a.dtype), A_.tolist()], "b": [str(b.dtype), B_.tolist()]})
            if r1 != oracle:
                self.viol("is_equal_iff_leaves_equal", {"variant": "cross_dtype_jax", "got": r1, "oracle": oracle, "a": [str(a.dtype), A_.tolist()], "b": [str(b.dtype), B_.tolist()], "desc": desc}, qualifier="cross_dtype_jax")

    def equality(self, tree, desc, as_jax=False):
        pt = self.pt
        rng = self.rng
        if as_jax:
            # the same laws on JAX-array leaves (the helper may take another code path for them); 64-bit variants are
            # narrowed by jnp.asarray, the oracle below judges the arrays that are really passed
            tree = to_jnp(tree)
            self.rep.count("eq_trees_with_jax_leaves")
        variants = [("identical", _copy(tree), True)]
        lv = leaves(tree)
        if lv:
            k = int(rng.integers(len(lv)))
            if lv[k].size > 0:
                variants.append(("one_element", _mutate_leaf(tree, k, "element", rng), False))
            variants.append(("shape_only", _mutate_leaf(tree, k, "shape", rng), False))
            variants.append(("dtype_only", _mutate_leaf(tree, k, "dtype", rng), None))  # judged by the numpy oracle
            if lv[k].size > 0:
                # other dtype AND a value that a cast to the first dtype would destroy (x + 0.5, or 2 for a bool)
                variants.append(("dtype_and_fraction", _mutate_leaf(tree, k, "dtype_fraction", rng), False))
        fl = [j for j, x in enumerate(lv) if np.issubdtype(x.dtype, np.floating) and x.size > 0 and np.all(np.isfinite(x))]
        if fl:
            # every element of one float leaf moved to the next representable number: equal shape, no equal element
            variants.append(("float_next_representable", _mutate_leaf(tree, fl[int(rng.integers(len(fl)))], "nextafter", rng), False))
        if _has_multi_dict(tree):
            # dicts are the same structure whatever order their keys were inserted in (one built by a constructor, the other
            # restored from a checkpoint): the leaves that are paired are the ones under the same key
            variants.append(("identical_other_key_order", _reorder(_copy(tree)), True))
            if len(variants) > 1 and variants[1][0] == "one_element":
                variants.append(("one_element_other_key_order", _reorder(variants[1][1]), False))
        self.ev("eq_reflexive")
        try:
            if pt.is_equal_pytree(tree, tree) is not True:
                self.viol("is_equal_reflexive", {"desc": desc})
        except Exception as e:
            self.viol("is_equal_raises", {"error": repr(e)[:200], "desc": desc, "variant": "self"})
        if as_jax:
            variants = [(tag, to_jnp(other), None if tag.startswith("dtype") else expect) for tag, other, expect in variants]
        for tag, other, expect in variants:
            oracle = np_equal_trees(tree, other)
            if expect is not None and oracle != expect:
                continue  # (mutation happened to be a no-op)
            self.ev("eq_matches_oracle")
            self.rep.count("eq_variant_" + tag)
            try:
                r1, r2 = pt.is_equal_pytree(tree, other), pt.is_equal_pytree(other, tree)
            except Exception as e:
                self.viol("is_equal_raises", {"error": repr(e)[:200], "desc": desc, "variant": tag}, qualifier=tag)
                continue
            if not isinstance(r1, bool):
                self.viol("is_equal_returns_bool", {"type": type(r1).__name__})
            if r1 != r2:
                self.viol("is_equal_symmetric", {"variant": tag, "desc": desc})
            if r1 != oracle:
                self.viol("is_equal_iff_leaves_equal", {"variant": tag, "got": r1, "oracle": oracle, "desc": desc}, qualifier=tag)
            self.ev("assert_different")
            raised = False
            try:
                pt.assert_trees_are_different(tree, other)
            except AssertionError:
                raised = True
            except Exception as e:
                self.viol("assert_different_raises_other", {"error": repr(e)[:200], "variant": tag})
                continue
            if raised != bool(r1):
                self.viol("assert_different_fails_iff_equal", {"variant": tag, "raised": raised, "is_equal": r1}, qualifier=tag)
            raised = False
            try:
                pt.assert_trees_are_equal(tree, other)
            except AssertionError:
                raised = True
            if raised == bool(r1):
                self.viol("assert_equal_fails_iff_different", {"variant": tag, "raised": raised, "is_equal": r1}, qualifier=tag)


def _copy(tree):
    import jax

    return jax.tree_util.tree_map(lambda x: np.array(x, copy=True), tree)


def _reorder(tree):
    """The same nest with every dict built in the reverse insertion order (same keys, same leaves: the same structure)."""
    if isinstance(tree, dict):
        return {k: _reorder(tree[k]) for k in reversed(list(tree))}
    if isinstance(tree, tuple) and hasattr(tree, "_fields"):
        return type(tree)(*[_reorder(x) for x in tree])
    if isinstance(tree, (list, tuple)):
        return type(tree)(_reorder(x) for x in tree)
    return tree


def _has_multi_dict(tree) -> bool:
    if isinstance(tree, dict):
        return len(tree) > 1 or any(_has_multi_dict(v) for v in tree.values())
    if isinstance(tree, (list, tuple)):
        return any(_has_multi_dict(v) for v in tree)
    return False


def _perturb(rng, tree):
    import jax
    import jax.numpy as jnp

    def f(x):
        a = np.asarray(x)
        if a.dtype == np.bool_:
            return jnp.asarray(~a)
        return jnp.asarray((a + 1).astype(a.dtype))

    return jax.tree_util.tree_map(f, tree)


def _mutate_leaf(tree, k, how, rng):
    import jax

    flat, treedef = jax.tree_util.tree_flatten(tree)
    a = np.array(flat[k], copy=True)
    if how == "element":
        idx = tuple(int(rng.integers(0, s)) for s in a.shape)
        if a.dtype == np.bool_:
            a[idx] = ~a[idx]
        else:
            a[idx] = a[idx] + 1
    elif how == "nextafter":
        a = np.nextafter(a, np.asarray(np.inf, a.dtype)).astype(a.dtype)
    elif how == "shape":
        a = np.concatenate([a.reshape((1,) + a.shape), a.reshape((1,) + a.shape)], 0) if a.ndim == 0 or True else a
    elif how == "dtype_fraction":
        idx = tuple(int(rng.integers(0, s)) for s in a.shape)
        if a.dtype == np.bool_:
            a = a.astype(np.int32)
            a[idx] = 2 if a[idx] else 3
        else:
            a = a.astype(np.float64)
            a[idx] = a[idx] + 0.5
    else:
        a = a.astype(np.float64 if a.dtype != np.float64 else np.int64)
    flat = list(flat)
    flat[k] = a
    return jax.tree_util.tree_unflatten(treedef, flat)


def run_shard(shard: Dict[str, Any], rep: Report) -> None:
    import jax

    from jmon import contracts
    from jmon.props.c16 import run_repo_tests_under_contracts

    tier, seed, sid = shard["tier"], shard["seed"], shard["id"]
    rng = shard_rng(seed, sid)
    if shard["kind"] == "pytest":
        run_repo_tests_under_contracts(rep, "jumanji/tree_utils_test.py", ["tree_slice.post", "tree_transpose.post", "tree_add_element.post"])
        run_repo_tests_under_contracts(rep, "jumanji/testing/pytrees_test.py", ["assert_trees_are_different"])
        return
    contracts.install()
    if shard["kind"] == "generated":
        L = Laws(rep, rng)
        for n in range(shard["count"]):
            struct = rand_struct(rng, int(rng.integers(0, 4)))
            b = int(rng.integers(1, 9))
            trees = [to_jnp(build(rng, struct)) for _ in range(b)]
            desc = {"struct": repr(struct)[:200], "batch": b}
            from jmon.common import digest

            rep.digests.add(digest(trees[0]))
            L.stack_slice_add(trees, desc)
            if n % 3 == 0:
                # trees that share leaf *objects*: the same tree b times, and trees derived from the first one by replacing
                # some of its leaves (what state.replace(...) gives: the untouched fields are the very same arrays)
                L.stack_slice_add([trees[0]] * b, dict(desc, sharing="same tree repeated"))
                rep.count("stack_same_tree_repeated")
                keep = [bool(rng.random() < 0.5) for _ in jax.tree_util.tree_leaves(trees[0])]
                it = [iter(keep) for _ in trees]
                derived = [trees[0]] + [jax.tree_util.tree_map(lambda x0, x, it_=it_: x0 if next(it_) else x, trees[0], t) for t, it_ in zip(trees[1:], it[1:])]
                L.stack_slice_add(derived, dict(desc, sharing="some leaves are one object in all trees"))
                rep.count("stack_shared_leaf_objects")
            L.equality(build(rng, struct), desc)
            if n % 2 == 0:
                L.equality(build(rng, struct), desc, as_jax=True)
            if n % 5 == 0:
                L.cross_dtype_near_misses(desc)
            if len(rep.samples) < 2:
                rep.sample(desc)
        rep.count("generated_leaves_with_infinity", INF_LEAVES[0])
    else:
        for name in shard["envs"]:
            L = Laws(rep, rng, where=name)
            c = E.configs(name, tier)[0 if tier == "quick" else 1 % len(E.configs(name, tier))]
            env = E.build(name, c)
            reset = jax.jit(env.reset)
            step = jax.jit(env.step)
            b = int(rng.integers(2, 6))
            states = []
            for j in range(b):
                s, t = reset(jax.random.PRNGKey(int(rng.integers(0, 2**31 - 1))))
                for _ in range(int(rng.integers(0, 3))):
                    if int(np.asarray(t.step_type)) == 2:
                        break
                    from jmon import actions as A

                    s, t = step(s, A.as_action(env.action_spec, A.sample_masked(name, env.action_spec, A.get_mask(t), rng)[0]))
                states.append((s, t))
            from jmon.common import digest

            rep.digests.add(name + digest(states[0][0]))
            L.stack_slice_add([x[0] for x in states], {"env": name, "tree": "State", "batch": b})
            L.stack_slice_add([x[1] for x in states], {"env": name, "tree": "TimeStep", "batch": b})
            # one real state repeated, and real states derived from the first one with `replace` (constant fields shared)
            L.stack_slice_add([states[0][0]] * b, {"env": name, "tree": "State", "batch": b, "sharing": "same state repeated"})
            fl0, td = jax.tree_util.tree_flatten(states[0][0])
            if len(fl0) > 1:
                der = [states[0][0]]
                for s_, _t in states[1:]:
                    fl = jax.tree_util.tree_leaves(s_)
                    der.append(jax.tree_util.tree_unflatten(td, [a if k % 2 == 0 else b_ for k, (a, b_) in enumerate(zip(fl0, fl))]))
                L.stack_slice_add(der, {"env": name, "tree": "State", "batch": b, "sharing": "every other field is one object in all states"})
            rep.count("stack_shared_leaf_objects", 2)
            rep.env_count(name, "real_state_batches")
            rep.count("real_state_batches")
            E.cleanup()
    recs, counts = contracts.drain()
    for k, v in counts.items():
        rep.count("contract:" + k, v)
    for r in recs:
        if r["contract"] == "contract_error":
            rep.notes.append("contract error: " + r["detail"][:200])
            continue
        rep.violation("contracts", "trees", "contract_" + r["contract"], r, replay={"where": sid})


def floors(tier: str, counters: Dict[str, int], per_env: Dict[str, Dict[str, int]]) -> List[str]:
    missed = []
    need = {"slice_of_transpose": 1000, "add_element": 300, "eq_matches_oracle": 500, "assert_different": 500, "eq_variant_one_element": 100,
            "eq_variant_shape_only": 100, "eq_variant_identical": 100, "real_state_batches": len(E.ENVS), "contract:tree_slice.post": 500,
            "stack_shared_leaf_objects": 100, "eq_variant_identical_other_key_order": 40}
    for k, n in need.items():
        if counters.get(k, 0) < n:
            missed.append(f"clause {k} evaluated {counters.get(k, 0)} < {n} times")
    return missed
