"""C15 — Gym, dm_env and MultiToSingle adapters relay the native episode faithfully (DESIGN §3 C15)."""
from __future__ import annotations

from typing import Any, Dict, List

import numpy as np

from jmon import actions as A
from jmon import envs as E
from jmon import specmodel as SM
from jmon.common import Report, decode, digest_decoded, shard_rng, tree_diff
from jmon.props._util import HEAVY
from jmon.props.c13 import pick_cfgs

RULE = (
    "differential monitor: JumanjiToGymWrapper / JumanjiToDMEnvWrapper / MultiToSingleWrapper are driven over several reset "
    "calls and many steps (actions from action_space.sample() and from the native masks) while the native jitted reset/step is "
    "run beside them on the documented key schedule (PRNGKey(seed); one split per reset); observations, rewards, "
    "terminated/truncated, FIRST-timestep conventions, space/spec membership, re-seeding and aggregators are compared; one "
    "evaluation = one adapter call compared; distinct by (environment, configuration, native state digest)"
)
ASSUMPTIONS = [
    "multi-agent environments (Connector, LevelBasedForaging) are placed behind MultiToSingleWrapper for gym, as documented",
    "gym actions are judged after the same jnp.asarray conversion the adapter applies",
]
SHARD_TIMEOUT = {"quick": 1500, "thorough": 3000}
MULTI = ("Connector", "LevelBasedForaging")


def shards(tier: str, seed: int) -> List[Dict[str, Any]]:
    out = []
    for e in E.ENVS:
        cfgs = pick_cfgs(e, tier)
        if tier == "thorough":
            cfgs = cfgs[:2] + [E.configs(e, tier)[0]]
        elif e == "PacMan":
            # the short-limit configuration never leaves the start area: the default maze with its long limit lets the
            # frontier workload reach the last rows / the tunnel through the adapters
            cfgs = cfgs + [E.configs(e, tier)[0]]
        # configurations whose observations reach the far end of the declared ranges (LBF: a sight range below the grid size
        # with few agents - view coordinates above every level; Connector: episodes long enough for agents to connect while others still move)
        for cid in {"LevelBasedForaging": ["g10a2f4v3L30"], "Connector": ["u5a3L41"]}.get(e, []):
            cfgs = cfgs + [E.cfg_by_id(e, cid)]
        seen = set()
        for c in cfgs:
            if c["id"] in seen:
                continue
            seen.add(c["id"])
            out.append({"id": f"{e}|{c['id']}", "env": e, "cfg": c, "weight": HEAVY.get(e, 1.0)})
    many = [["Snake", "r3c5L7"], ["Game2048", "b3"], ["Knapsack", "n10b2sparse"]] + ([["Maze", "r5c9L7"], ["Minesweeper", "r3c7m5"], ["TSP", "n5sparse"]] if tier == "thorough" else [])
    out.append({"id": "adapters|many_resets", "kind": "many_resets", "cfgs": many, "resets": 70 if tier == "quick" else 300, "weight": 3.0})
    return out


def flat_gym(obs, prefix="") -> Dict[str, np.ndarray]:
    if isinstance(obs, dict):
        out = {}
        for k, v in obs.items():
            out.update(flat_gym(v, f"{prefix}.{k}" if prefix else str(k)))
        return out
    return {prefix: np.asarray(obs)}


def run_many_resets(shard: Dict[str, Any], rep: Report) -> None:
    """One adapter object, many reset() calls (more than any plausible internal key buffer): reset number n must show the
    observation of the native reset on the n-th key of the documented schedule (seed, then one split per reset)."""
    import jax
    import jax.numpy as jnp
    from jumanji.wrappers import JumanjiToDMEnvWrapper, JumanjiToGymWrapper

    tol = dict(exact=False, rtol=1e-6, atol=1e-7)
    n = shard["resets"]
    for name, cid in shard["cfgs"]:
        cfg = E.cfg_by_id(name, cid)
        env = E.build(name, cfg)
        n_reset = jax.jit(env.reset)
        aspec = env.action_spec
        rng = shard_rng(shard["seed"], shard["id"] + name)
        for kind in ("gym", "dm"):
            sd = 11 + shard["seed"]
            k = jax.random.PRNGKey(sd)
            ad = JumanjiToGymWrapper(env, seed=sd) if kind == "gym" else JumanjiToDMEnvWrapper(env, key=k)
            seen = {}
            for r in range(n):
                rk, k = jax.random.split(k)
                obs = ad.reset()[0] if kind == "gym" else ad.reset().observation
                s0, t0 = n_reset(rk)
                rep.evaluated(1)
                rep.count(f"many_resets_{kind}")
                got = flat_gym(obs) if kind == "gym" else decode(obs)
                exp = decode(t0.observation) if not hasattr(t0.observation, "shape") else {"": np.asarray(t0.observation)}
                d = digest_decoded(got)
                if tree_diff(got, exp, **tol):
                    rep.violation(name, cid, f"{kind}_reset_follows_key_schedule", {"reset_number": r + 1, "same_as_reset_number": seen.get(d)},
                                  replay={"env": name, "cfg": cfg, "adapter": kind, "seed": sd, "reset_number": r + 1}, qualifier="replays_earlier_reset" if d in seen else "")
                    break
                seen.setdefault(d, r + 1)
                a = np.asarray(A.sample_masked(name, aspec, A.get_mask(t0), rng)[0])
                ad.step(a)
        rep.env_count(name, "many_resets_run")
    E.cleanup()


def run_shard(shard: Dict[str, Any], rep: Report) -> None:
    if shard.get("kind") == "many_resets":
        return run_many_resets(shard, rep)
    import dm_env
    import jax
    import jax.numpy as jnp
    from jumanji.wrappers import JumanjiToDMEnvWrapper, JumanjiToGymWrapper, MultiToSingleWrapper

    tier, seed, sid = shard["tier"], shard["seed"], shard["id"]
    name, cfg = shard["env"], shard["cfg"]
    cid = cfg["id"]
    rng = shard_rng(seed, sid)
    base = E.build(name, cfg)
    tol = dict(exact=False, rtol=1e-6, atol=1e-7)
    n_steps = 30 if tier == "quick" else 100
    n_resets = 2 if tier == "quick" else 3
    seeds = [seed * 10 + 1, seed * 10 + 2] if tier == "quick" else [seed * 10 + i for i in range(1, 6)]

    def viol(clause, detail, replay=None, qualifier=""):
        rep.violation(name, cid, clause, detail, replay=replay or {"env": name, "cfg": cfg}, qualifier=qualifier)

    # ---------------- MultiToSingleWrapper ------------------------------------------------------------------
    if name in MULTI:
        aggs = [("default", None, None, np.sum, np.max), ("mean_min", jnp.mean, jnp.min, np.mean, np.min), ("first", lambda x: x[0], lambda x: x[0], lambda x: x[0], lambda x: x[0])]
        # all wrappers exist side by side before any of them is used, and they are used oldest first (a training and an
        # evaluation wrapper with different aggregators): what one wrapper was given must not leak into another
        built = [(MultiToSingleWrapper(base) if ra is None else MultiToSingleWrapper(base, reward_aggregator=ra, discount_aggregator=da)) for _, ra, da, _, _ in aggs]
        rep.count("multi_to_single_wrappers_coexisting", len(built))
        for (aname, ra, da, nra, nda), w in zip(aggs, built):
            wr, ws = jax.jit(w.reset), jax.jit(w.step)
            nr, ns = jax.jit(base.reset), jax.jit(base.step)
            key = jax.random.PRNGKey(seeds[0])
            s, t = wr(key)
            s0, t0 = nr(key)
            for i in range(n_steps):
                if i > 0:
                    a = A.as_action(base.action_spec, A.sample_masked(name, base.action_spec, A.get_mask(t0), rng)[0] if rng.random() < 0.7 else A.sample_random(base.action_spec, rng))
                    s, t = ws(s0, a)
                    s0, t0 = ns(s0, a)
                rep.evaluated(1, digest_decoded(decode(s0)))
                rep.count("multi_to_single_steps")
                d, d0 = decode(t), decode(t0)
                exp_r = np.asarray(nra(np.asarray(t0.reward)), dtype=np.asarray(t.reward).dtype)
                exp_d = np.asarray(nda(np.asarray(t0.discount)), dtype=np.asarray(t.discount).dtype)
                if np.asarray(t.reward).shape != () or not np.allclose(np.asarray(t.reward), exp_r, rtol=1e-5, atol=1e-6):
                    viol("multi_to_single_reward", {"aggregator": aname, "got": np.asarray(t.reward).tolist(), "native": np.asarray(t0.reward).tolist()})
                if np.asarray(t.discount).shape != () or not np.allclose(np.asarray(t.discount), exp_d, rtol=1e-5, atol=1e-6):
                    viol("multi_to_single_discount", {"aggregator": aname, "got": np.asarray(t.discount).tolist(), "native": np.asarray(t0.discount).tolist()})
                bad = tree_diff({k: v for k, v in d.items() if k not in ("reward", "discount")}, {k: v for k, v in d0.items() if k not in ("reward", "discount")}, **tol)
                bad += tree_diff(decode(s), decode(s0), **tol)
                if bad:
                    viol("multi_to_single_nothing_else_changed", {"aggregator": aname, "fields": bad[:6]})
                if int(np.asarray(t0.step_type)) == 2:
                    key = jax.random.PRNGKey(seeds[0] + i + 1)
                    s, t = wr(key)
                    s0, t0 = nr(key)
            for sname in ("observation_spec", "action_spec"):
                if repr(getattr(w, sname)) != repr(getattr(base, sname)):
                    viol("multi_to_single_specs", {"spec": sname})
        env = MultiToSingleWrapper(base)
    else:
        env = base

    # the adapters are driven over every variant: for multi-agent environments the default (sum, max) aggregation and a
    # fractional one (mean, mean), whose discounts lie strictly between 0 and 1 while only some agents are done
    variants = [(env, "")]
    if name in MULTI:
        variants.append((MultiToSingleWrapper(base, reward_aggregator=jnp.mean, discount_aggregator=jnp.mean), "mean_aggregators"))
        # ... and a zero-propagating one (sum, min): the single-agent discount is 0 as soon as one agent is done, i.e. on
        # ordinary mid-episode steps (Connector: an agent that has connected) - terminated must follow the discount, not LAST
        variants.append((MultiToSingleWrapper(base, reward_aggregator=jnp.sum, discount_aggregator=jnp.min), "min_discount_aggregator"))
    for env, vtag in variants:
        if vtag:
            rep.count("adapter_runs_with_fractional_discount_aggregator")
            seeds = seeds[:1]
        n_reset, n_step = jax.jit(env.reset), jax.jit(env.step)
        aspec = env.action_spec
        # environment-specific workloads (drive to completion / to the extreme cells) so that boundary observations are
        # also relayed through the adapters
        from jmon.modelapi import ModelCtx

        P = ModelCtx(name, cfg, rep, env=base, rng=rng)
        model_pols = P.call("policies") if P.has("policies") else {}
        model_pol_list = [model_pols[k] for k in ("complete", "frontier") if k in model_pols]

        class _R:  # minimal runner facade for policies that look ahead with the real step
            env_name, spec = name, aspec

            def __init__(self):
                self.env = base

            def step(self, st, a):
                return n_step(st, A.as_action(aspec, a))

        facade = _R()

        # ---------------- Gym ---------------------------------------------------------------------------------------
        for sd in seeds:
            try:
                g = JumanjiToGymWrapper(env, seed=sd)
            except Exception as e:
                viol("gym_wrapper_constructs", {"error": repr(e)[:300]})
                break
            g.action_space.seed(sd)
            k = jax.random.PRNGKey(sd)
            first_episode = None
            for rnum in range(n_resets):
                rk, k = jax.random.split(k)
                obs, info = g.reset()
                s0, t0 = n_reset(rk)
                rep.evaluated(1)
                rep.count("gym_resets")
                fo = flat_gym(obs)
                bad = tree_diff(fo, decode(t0.observation) if not hasattr(t0.observation, "shape") else {"": np.asarray(t0.observation)}, **tol)
                rp = {"env": name, "cfg": cfg, "gym_seed": sd, "reset_number": rnum}
                if bad:
                    viol("gym_reset_observation", {"fields": bad[:6]}, replay=rp)
                if not g.observation_space.contains(obs):
                    viol("gym_observation_in_space", {"when": "reset", "why": why_not_contained(g.observation_space, obs)}, replay=rp)
                bad = tree_diff(flat_gym(info), decode(t0.extras) if t0.extras else {}, **tol)
                if bad:
                    viol("gym_reset_info", {"fields": bad[:6]}, replay=rp)
                trace = []
                use_model_pol = model_pol_list[(rnum + seeds.index(sd)) % len(model_pol_list)] if (model_pol_list and (rnum + seeds.index(sd)) % 2 == 1) else None
                pctx = {"env_name": name, "spec": aspec, "rng": rng, "runner": facade, "legal_only": True, "policy": "model", "key": rk, "key_int": None, "episode": rnum}
                for i in range(n_steps if use_model_pol is None else max(n_steps, 120)):
                    if use_model_pol is not None:
                        pctx.update(ts=t0, state=s0, t=i)
                        try:
                            a = np.asarray(use_model_pol(pctx))
                        except Exception:
                            a = np.asarray(A.sample_masked(name, aspec, A.get_mask(t0), rng)[0])
                        rep.count("gym_model_policy_actions")
                        aj = jnp.asarray(a)
                    elif rng.random() < 0.5:
                        a = g.action_space.sample()
                        rep.count("gym_sampled_actions")
                        aj = jnp.asarray(a)
                        probs = SM.problems(aspec, np.asarray(aj))
                        rep.evaluated(1)
                        if probs:
                            viol("gym_sample_is_native_action", {"sample": np.asarray(a).tolist(), "problems": probs[:3]}, replay=rp)
                    else:
                        a = np.asarray(A.sample_masked(name, aspec, A.get_mask(t0), rng)[0])
                        aj = jnp.asarray(a)
                    try:
                        obs, reward, term, trunc, info = g.step(a)
                    except Exception as e:
                        viol("gym_step_raises", {"action": np.asarray(a).tolist(), "error": repr(e)[:300]}, replay=rp)
                        break
                    s0, t0 = n_step(s0, aj)
                    rep.evaluated(1, digest_decoded(decode(s0)))
                    rep.count("gym_steps")
                    trace.append((np.asarray(a).tolist(), float(reward), bool(term), bool(trunc)))
                    rp2 = dict(rp, actions=[x[0] for x in trace])
                    bad = tree_diff(flat_gym(obs), decode(t0.observation) if not hasattr(t0.observation, "shape") else {"": np.asarray(t0.observation)}, **tol)
                    if bad:
                        viol("gym_step_observation", {"fields": bad[:6], "step": i}, replay=rp2)
                    if not g.observation_space.contains(obs):
                        viol("gym_observation_in_space", {"when": f"step {i}", "why": why_not_contained(g.observation_space, obs)}, replay=rp2)
                    if not isinstance(reward, float) or not np.isclose(reward, float(np.asarray(t0.reward)), rtol=1e-6, atol=1e-7):
                        viol("gym_reward", {"got": reward, "native": float(np.asarray(t0.reward)), "step": i}, replay=rp2)
                    if 0 < float(np.asarray(t0.discount)) < 1:
                        rep.count("gym_steps_with_fractional_discount")
                    nat_term = bool(np.all(np.asarray(t0.discount) == 0))
                    nat_last = int(np.asarray(t0.step_type)) == 2
                    if nat_term and not nat_last:
                        rep.count("gym_steps_zero_discount_not_last")
                    if term is not True and term is not False or bool(term) != nat_term:
                        viol("gym_terminated_iff_zero_discount", {"terminated": bool(term), "native_discount": np.asarray(t0.discount).tolist(), "step": i}, replay=rp2)
                    if bool(trunc) != nat_last:
                        viol("gym_truncated_iff_last", {"truncated": bool(trunc), "native_last": nat_last, "step": i}, replay=rp2)
                    bad = tree_diff(flat_gym(info), decode(t0.extras) if t0.extras else {}, **tol)
                    if bad:
                        viol("gym_info_equals_extras", {"fields": bad[:6], "step": i}, replay=rp2)
                    if nat_last:
                        rep.count("gym_episode_ends")
                        break
                if rnum == 0:
                    first_episode = (flat_gym(g.reset(seed=sd)[0]), None)
                    # re-seeding reproduces the first reset observation; restore the documented key stream afterwards
                    s_again, t_again = n_reset(jax.random.split(jax.random.PRNGKey(sd))[0])
                    rep.evaluated(1)
                    rep.count("gym_reseeds")
                    if tree_diff(first_episode[0], decode(t_again.observation) if not hasattr(t_again.observation, "shape") else {"": np.asarray(t_again.observation)}, **tol):
                        viol("gym_reseed_reproduces_episode", {"seed": sd}, replay=rp)
                    k = jax.random.split(jax.random.PRNGKey(sd))[1]
            if len(rep.samples) < 1 and trace:
                rep.sample({"env": name, "cfg": cid, "gym_seed": sd, "trace_head": trace[:6]})
            # re-seeding with seed 0 (a falsy value) on an adapter that has already been used
            for reseed in (0, sd + 7):
                obs0, _ = g.reset(seed=reseed)
                s_n, t_n = n_reset(jax.random.split(jax.random.PRNGKey(reseed))[0])
                rep.evaluated(1)
                rep.count("gym_reseeds")
                if tree_diff(flat_gym(obs0), decode(t_n.observation) if not hasattr(t_n.observation, "shape") else {"": np.asarray(t_n.observation)}, **tol):
                    viol("gym_reseed_reproduces_episode", {"seed": reseed, "adapter_seed": sd}, replay={"env": name, "cfg": cfg, "gym_seed": sd, "reseed": reseed}, qualifier="seed0" if reseed == 0 else "")

        # ---------------- dm_env -------------------------------------------------------------------------------------
        for sd in seeds[:2]:
            k0 = jax.random.PRNGKey(sd + 1000)
            episodes = []
            for rep_no in range(2):  # the second adapter with the same key must reproduce the first
                d = JumanjiToDMEnvWrapper(env, key=k0)
                k = k0
                ospec = d.observation_spec()
                a_rng = np.random.default_rng(sd)
                log = []
                for rnum in range(n_resets):
                    rk, k = jax.random.split(k)
                    ts = d.reset()
                    s0, t0 = n_reset(rk)
                    if rep_no == 0:
                        rep.evaluated(1)
                        rep.count("dm_resets")
                        if ts.step_type != dm_env.StepType.FIRST or ts.reward is not None or ts.discount is not None:
                            viol("dm_first_timestep", {"step_type": int(ts.step_type), "reward": repr(ts.reward), "discount": repr(ts.discount)})
                        bad = tree_diff(decode(ts.observation), decode(t0.observation), **tol)
                        if bad:
                            viol("dm_reset_observation", {"fields": bad[:6]})
                        probs = dm_spec_problems(ospec, ts.observation)
                        if probs:
                            viol("dm_observation_in_spec", {"when": "reset", "problems": probs[:3]})
                    log.append(digest_decoded(decode(ts.observation)))
                    for i in range(n_steps):
                        a = A.sample_masked(name, aspec, A.get_mask(t0), a_rng)[0] if a_rng.random() < 0.7 else A.sample_random(aspec, a_rng)
                        ts = d.step(np.asarray(a))
                        s0, t0 = n_step(s0, jnp.asarray(a))
                        log.append(digest_decoded(decode(ts.observation)))
                        if rep_no == 0:
                            rep.evaluated(1, digest_decoded(decode(s0)))
                            rep.count("dm_steps")
                            exp = {"step_type": np.asarray(t0.step_type), "reward": np.asarray(t0.reward), "discount": np.asarray(t0.discount)}
                            got = {"step_type": np.asarray(ts.step_type), "reward": np.asarray(ts.reward), "discount": np.asarray(ts.discount)}
                            bad = [f for f in exp if not np.allclose(np.asarray(got[f], np.float64), np.asarray(exp[f], np.float64), rtol=1e-6, atol=1e-7)]
                            bad += tree_diff(decode(ts.observation), decode(t0.observation), **tol)
                            if bad:
                                viol("dm_step_equals_native", {"fields": bad[:6], "step": i})
                            probs = dm_spec_problems(ospec, ts.observation)
                            if probs:
                                viol("dm_observation_in_spec", {"when": f"step {i}", "problems": probs[:3]})
                        if int(np.asarray(t0.step_type)) == 2:
                            break
                episodes.append(log)
            rep.evaluated(1)
            rep.count("dm_recreations")
            if episodes[0] != episodes[1]:
                viol("dm_same_key_reproduces_episode", {"seed": sd})
    rep.env_count(name, "adapters_run")
    E.cleanup()


def dm_spec_problems(spec, obs, path="") -> List[str]:
    """Each observation leaf must satisfy the converted dm_env spec (spec.validate on the numpy value)."""
    out = []
    if isinstance(spec, dict):
        vals = obs if isinstance(obs, dict) else (obs._asdict() if hasattr(obs, "_asdict") else vars(obs))
        for k, s in spec.items():
            if k not in vals:
                out.append(f"{path}.{k}: missing in observation")
                continue
            out.extend(dm_spec_problems(s, vals[k], f"{path}.{k}" if path else k))
        return out
    try:
        spec.validate(np.asarray(obs))
    except Exception as e:
        out.append(f"{path}: {str(e)[:160]}")
    return out


def why_not_contained(space, obs, path="") -> str:
    import gymnasium as gym

    if isinstance(space, gym.spaces.Dict):
        if not isinstance(obs, dict):
            return f"{path}: not a dict"
        for k, sp in space.spaces.items():
            if k not in obs:
                return f"{path}.{k}: missing"
            if not sp.contains(obs[k]):
                return why_not_contained(sp, obs[k], f"{path}.{k}")
        extra = set(obs) - set(space.spaces)
        return f"{path}: unexpected keys {sorted(extra)}" if extra else f"{path}: ?"
    a = np.asarray(obs)
    return f"{path}: value dtype {a.dtype} shape {a.shape} range [{a.min() if a.size else None}, {a.max() if a.size else None}] not in {space}"


def floors(tier: str, counters: Dict[str, int], per_env: Dict[str, Dict[str, int]]) -> List[str]:
    missed = []
    for e in E.ENVS:
        if per_env.get(e, {}).get("adapters_run", 0) < 1:
            missed.append(f"{e}: adapters not run")
    for c, n in (("gym_steps", 200), ("gym_resets", 40), ("gym_sampled_actions", 100), ("gym_episode_ends", 10), ("gym_reseeds", 20), ("dm_steps", 200), ("dm_recreations", 20), ("multi_to_single_steps", 50), ("gym_steps_zero_discount_not_last", 1)):
        if counters.get(c, 0) < n:
            missed.append(f"clause {c} evaluated {counters.get(c, 0)} < {n} times")
    return missed
