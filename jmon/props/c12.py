"""C12 — model-based runtime monitor (see DESIGN §3 C12; machinery in _model_prop.py, rules in jmon/models/)."""
from jmon.props import _model_prop as MP

RULE = 'every (state, observation) pair returned together by reset/step is compared with an independent NumPy observer computing the documented function of the state (exact for ints/bools, 1e-6 for normalised floats); distinct by (environment, configuration, state digest)'
ASSUMPTIONS = ["the content of action masks is C04's job; here only that the observation mask equals the state's"]
SHARD_TIMEOUT = MP.SHARD_TIMEOUT


def shards(tier, seed):
    return MP.shards_for("C12", tier, seed)


def run_shard(shard, rep):
    MP.run_model_shard("C12", shard, rep)


def floors(tier, counters, per_env):
    return MP.model_floors("C12", tier, counters, per_env, "observations_checked", 10, extra=EXTRA_FLOORS)


def EXTRA_FLOORS(counters, per_env):
    return []
