"""C01 — everything an environment emits conforms to the specs it declares (DESIGN §3 C01)."""
from __future__ import annotations

from typing import Any, Dict, List

import numpy as np

from jmon import envs as E
from jmon import specmodel as SM
from jmon.common import Report, key_for, shard_rng
from jmon.props._util import HEAVY, deep_episodes, env_cfg_shards, step_cap
from jmon.rollout import Event, Monitor, Runner, run_episode

RULE = (
    "one shard per (environment, configuration); episodes under the policies random / masked / first / last / "
    "mixed / invalid_late / survive; every emitted timestep up to and including the first LAST is tested "
    "against observation_spec / reward_spec / discount_spec by an independent NumPy membership test; "
    "eval_shape decides shapes+dtypes for all keys/states of a configuration; a case is distinct by "
    "(environment, configuration, digest of the state without its PRNG key)"
)
ASSUMPTIONS = [
    "outputs are observed under jax.jit (all leaves are arrays with concrete dtypes)",
    "Sokoban is explored with the Toy/SimpleSolve/harness generators only (the registered default needs the network)",
    "post-terminal steps are outside the statement and are not validated",
]
SHARD_TIMEOUT = {"quick": 900, "thorough": 2400}

QUICK_POLICIES = ["random", "masked", "survive", "invalid_late", "first", "mixed", "last", "survive"]
THOROUGH_POLICIES = QUICK_POLICIES * 3


def shards(tier: str, seed: int) -> List[Dict[str, Any]]:
    return env_cfg_shards(tier, E.ENVS, HEAVY, prop="C01", seed=seed)


class SpecMonitor(Monitor):
    def __init__(self, runner: Runner, rep: Report):
        self.r = runner
        self.rep = rep
        env = runner.env
        self.obs_spec = env.observation_spec
        self.rew_spec = env.reward_spec
        self.dis_spec = env.discount_spec

    def _check(self, ev: Event) -> None:
        if ev.post_terminal:
            return
        rep = self.rep
        name = ev.env
        for clause, spec, val in (
            ("observation_in_spec", self.obs_spec, ev.ts.observation),
            ("reward_in_spec", self.rew_spec, ev.ts.reward),
            ("discount_in_spec", self.dis_spec, ev.ts.discount),
        ):
            probs = SM.problems(spec, _np_tree(val))
            rep.evaluated(1, ev.digest)
            if probs:
                fields = sorted({p.split(":")[0] for p in probs})
                rep.violation(
                    name, ev.cfg_id, clause,
                    {"problems": probs[:4], "event": ev.brief(), "when": "reset" if ev.action is None else ("last" if ev.last else "mid")},
                    replay=ev.replay(), qualifier=_qualifier(name, fields, ev),
                )
        rep.count("timesteps_validated")
        rep.env_count(name, "timesteps")
        if ev.action is None:
            rep.count("reset_validated")
        if ev.last:
            rep.count(f"terminal_validated:{name}")
            rep.env_count(name, "terminal")
            L = self.r.time_limit
            if L is not None and ev.t == L:
                rep.count(f"limit_boundary_validated:{name}")
                rep.env_count(name, "limit_boundary")
        if len(rep.samples) < 2 and ev.t == 2:
            rep.sample({"event": ev.brief(), "observation_fields": {k: [list(v.shape), str(v.dtype)] for k, v in ev.O.items()}})

    on_reset = _check
    on_step = _check


def _qualifier(env: str, fields: List[str], ev: Event) -> str:
    return ",".join(fields)[:80]


def _np_tree(val):
    import jax

    return jax.tree_util.tree_map(lambda x: np.asarray(x), val)


def static_checks(runner: Runner, rep: Report) -> None:
    """eval_shape part (universal over keys/states of the configuration) + generate_value part."""
    import jax
    import jax.numpy as jnp

    env, name, cid = runner.env, runner.env_name, runner.cfg_id
    key = jax.random.PRNGKey(0)
    st_s, ts_s = jax.eval_shape(env.reset, key)

    def cmp_abstract(ts_abs, where):
        for clause, spec, val in (
            ("abstract_observation", env.observation_spec, ts_abs.observation),
            ("abstract_reward", env.reward_spec, ts_abs.reward),
            ("abstract_discount", env.discount_spec, ts_abs.discount),
        ):
            leaves_spec = dict(SM.spec_leaves(spec))
            import jmon.common as C

            leaves_val = {C.path_str(p) or "<root>": l for p, l in jax.tree_util.tree_flatten_with_path(val)[0]}
            rep.evaluated(1)
            probs = []
            if set(leaves_spec) != set(leaves_val):
                probs.append(f"fields {sorted(leaves_val)} != spec fields {sorted(leaves_spec)}")
            for k, s in leaves_spec.items():
                if k in leaves_val:
                    l = leaves_val[k]
                    if tuple(l.shape) != tuple(s.shape) or np.dtype(l.dtype) != np.dtype(s.dtype):
                        probs.append(f"{k}: abstract {tuple(l.shape)} {l.dtype} vs spec {tuple(s.shape)} {s.dtype}")
            if probs:
                rep.violation(name, cid, clause, {"where": where, "problems": probs[:5]}, replay={"env": name, "cfg": runner.cfg, "where": where})
        rep.count("eval_shape_checks")

    cmp_abstract(ts_s, "reset")
    # generate_value: member of the action spec, accepted by step, conforming timestep
    try:
        gv = env.action_spec.generate_value()
    except Exception as e:
        rep.violation(name, cid, "generate_value_raises", {"error": repr(e)[:300]}, replay={"env": name, "cfg": runner.cfg})
        return
    probs = SM.problems(env.action_spec, np.asarray(gv))
    rep.evaluated(1)
    if probs:
        rep.violation(name, cid, "generate_value_in_action_spec", {"problems": probs[:3]}, replay={"env": name, "cfg": runner.cfg})
    st_abs, ts_abs = jax.eval_shape(env.step, st_s, jax.ShapeDtypeStruct(jnp.shape(gv), jnp.asarray(gv).dtype))
    cmp_abstract(ts_abs, "step")
    state, ts0 = runner.reset(key)
    try:
        s2, ts2 = runner._step(state, gv)
        jax.block_until_ready(s2)
    except Exception as e:
        rep.violation(name, cid, "generate_value_accepted_by_step", {"error": repr(e)[:300]}, replay={"env": name, "cfg": runner.cfg})
        return
    rep.evaluated(1)
    rep.count("generate_value_stepped")
    for clause, spec, val in (
        ("observation_in_spec", env.observation_spec, ts2.observation),
        ("reward_in_spec", env.reward_spec, ts2.reward),
        ("discount_in_spec", env.discount_spec, ts2.discount),
    ):
        probs = SM.problems(spec, _np_tree(val))
        if probs:
            rep.violation(name, cid, clause, {"after": "step(reset(PRNGKey(0)), generate_value())", "problems": probs[:3]},
                          replay={"env": name, "cfg": runner.cfg, "reset_key_int": 0, "actions": [np.asarray(gv).tolist()]},
                          qualifier=",".join(sorted({p.split(":")[0] for p in probs}))[:80])


def run_shard(shard: Dict[str, Any], rep: Report) -> None:
    tier, seed = shard["tier"], shard["seed"]
    runner = Runner(shard["env"], shard["cfg"])
    rng = shard_rng(seed, shard["id"])
    static_checks(runner, rep)
    mon = SpecMonitor(runner, rep)
    pols = list(QUICK_POLICIES if tier == "quick" else THOROUGH_POLICIES)
    # environment-specific workloads from the model modules: drive to completion / to the extreme rows and columns
    from jmon.modelapi import ModelCtx

    P = ModelCtx(shard["env"], shard["cfg"], rep, env=runner.env, rng=rng)
    extra = P.call("policies") if P.has("policies") else {}
    for nm in ("frontier", "complete", "collide", "greedy", "lazy"):
        if nm in extra:
            # "greedy" is the adversarial fill order (e.g. MultiCVRP shuttle that maximises the accumulated times):
            # boundary values of the declared bounds are only reached for some keys, so it gets more episodes
            reps = 4 if nm == "greedy" else 1
            pols.extend([extra[nm]] * (reps if tier == "quick" else 3 * reps))
    cap = step_cap(shard["env"], shard["cfg"], tier)
    # adversarial key search (workload only): where the model can score reset instances, the greedy/lazy workloads
    # are played on the highest-scoring of 64 keys
    hard_keys = []
    if P.has("key_score"):
        from jmon.common import decode

        scored = []
        for j in range(256 if tier == "quick" else 1024):
            k_, ki_ = key_for(seed, shard["id"] + "|search", j)
            s_, _ = runner.reset(k_)
            scored.append((P.call("key_score", decode(s_)), ki_, k_))
        scored.sort(key=lambda x: -x[0])
        hard_keys = [(k_, ki_) for _, ki_, k_ in scored[: (2 if tier == "quick" else 6)]]
        rep.count("adversarial_keys_searched", len(scored))
        for (k_, ki_) in hard_keys:
            for nm in ("greedy", "lazy", "complete", "masked"):
                pol_ = extra.get(nm) or (nm if nm == "masked" else None)
                if pol_ is not None:
                    info = run_episode(runner, k_, ki_, pol_, rng, [mon], episode=900, max_steps=max(cap, 250))
                    rep.states += info["steps"] + 1
                    rep.transitions += info["steps"]
                    rep.count("adversarial_key_episodes")
    caps = [cap] * len(pols)
    for pol, c in deep_episodes(shard["env"], shard["cfg"], tier, extra):
        pols.append(pol)
        caps.append(c)
        rep.count("deep_episodes")
    for ep, pol in enumerate(pols):
        key, kint = key_for(seed, shard["id"], ep)
        info = run_episode(runner, key, kint, pol, rng, [mon], episode=ep, max_steps=caps[ep])
        rep.states += info["steps"] + 1
        rep.transitions += info["steps"]
        rep.env_count(shard["env"], "episodes")
        if info["ended"]:
            rep.env_count(shard["env"], "episodes_ended")
    E.cleanup()


def floors(tier: str, counters: Dict[str, int], per_env: Dict[str, Dict[str, int]]) -> List[str]:
    missed = []
    for e in E.ENVS:
        pe = per_env.get(e, {})
        if pe.get("terminal", 0) < 1:
            missed.append(f"{e}: no terminal timestep validated")
        if pe.get("timesteps", 0) < 20:
            missed.append(f"{e}: fewer than 20 timesteps validated")
    for e in E.TIME_LIMIT_ENVS:
        if per_env.get(e, {}).get("limit_boundary", 0) < 1:
            missed.append(f"{e}: step_count == time_limit boundary never validated")
    if counters.get("generate_value_stepped", 0) < len(E.ENVS):
        missed.append("generate_value not stepped on every environment")
    return missed
