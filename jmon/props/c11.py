"""C11 — model-based runtime monitor (see DESIGN §3 C11; machinery in _model_prop.py, rules in jmon/models/)."""
from jmon.props import _model_prop as MP

RULE = 'the index of the first LAST timestep of episodes driven by a survive policy (one-step look-ahead with the real step), masked and random play is compared with the configured time_limit (never later; earlier only with another end reason computed by the model from the states) or with the structural horizon; decided on logical step counts; distinct by (environment, configuration, terminal state digest)'
ASSUMPTIONS = ["default time limits above 60 (quick) / 1200 (thorough) steps are only checked for 'never earlier'"]
SHARD_TIMEOUT = MP.SHARD_TIMEOUT


def shards(tier, seed):
    return MP.shards_for("C11", tier, seed)


def run_shard(shard, rep):
    MP.run_model_shard("C11", shard, rep)


def floors(tier, counters, per_env):
    return MP.model_floors("C11", tier, counters, per_env, "episode_ends", 3, extra=EXTRA_FLOORS)


def EXTRA_FLOORS(counters, per_env):
    return []
