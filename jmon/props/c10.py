"""C10 — model-based runtime monitor (see DESIGN §3 C10; machinery in _model_prop.py, rules in jmon/models/)."""
from jmon.props import _model_prop as MP

RULE = 'generator monitor: reset states for many keys per (generator, size) are checked for the invariants the generator advertises (connectivity, exact tiling / solvability certificates, parity, distinctness, ranges), and random generators must produce >=2 distinct instances; distinct by (environment, configuration, instance digest)'
ASSUMPTIONS = ["Sokoban's dataset generators need the network and are not explored", 'key dependence is demanded only of generators advertised as random on non-degenerate sizes']
SHARD_TIMEOUT = MP.SHARD_TIMEOUT


def shards(tier, seed):
    return MP.shards_for("C10", tier, seed)


def run_shard(shard, rep):
    MP.run_model_shard("C10", shard, rep)


def floors(tier, counters, per_env):
    return MP.model_floors("C10", tier, counters, per_env, "instances_checked", 10, extra=EXTRA_FLOORS)


def EXTRA_FLOORS(counters, per_env):
    return []
