"""C09 — model-based runtime monitor (see DESIGN §3 C09; machinery in _model_prop.py, rules in jmon/models/)."""
from jmon.props import _model_prop as MP

RULE = 'reference-model monitor: every (state, action, next state, reward, LAST) of rollouts and probe branches is replayed in an independent pure-NumPy model of the documented rules and compared field by field (stochastic fields as membership constraints); plus synthetic inputs fed directly to the public rule functions; distinct by (environment, configuration, successor state digest)'
ASSUMPTIONS = ['where documentation is silent the rule sheet (DESIGN §4) states the reading used']
SHARD_TIMEOUT = MP.SHARD_TIMEOUT


def shards(tier, seed):
    return MP.shards_for("C09", tier, seed)


def run_shard(shard, rep):
    MP.run_model_shard("C09", shard, rep)


def floors(tier, counters, per_env):
    return MP.model_floors("C09", tier, counters, per_env, "transitions_checked", 10, extra=EXTRA_FLOORS)


def EXTRA_FLOORS(counters, per_env):
    return []
