"""Generic machinery for the model-based properties C04..C12: shards, workloads, probes, monitors, floors."""
from __future__ import annotations

import os
from typing import Any, Callable, Dict, List, Optional

import numpy as np

from jmon import actions as A
from jmon import envs as E
from jmon.common import Report, key_for, shard_rng
from jmon.modelapi import DENSE_SPARSE, REQUIRED_FN, SCOPE, ModelCtx, split_problem
from jmon.props._util import HEAVY, coincidence_shards, deep_episodes, env_cfg_shards, run_coincidence, step_cap
from jmon.rollout import POLICIES, Event, Monitor, Runner, run_episode

SHARD_TIMEOUT = {"quick": 1200, "thorough": 3000}

DEFAULT_POLICIES = {
    "C04": ["masked", "mixed", "random", "invalid_late", "first", "masked"],
    "C05": ["masked", "mixed", "invalid_late", "random", "invalid_late", "masked"],
    "C06": ["masked", "first", "last", "masked", "masked", "first"],
    "C07": ["random", "mixed", "masked", "random", "mixed", "survive"],
    "C08": ["masked", "first", "last", "masked", "masked", "masked"],
    "C09": ["random", "masked", "mixed", "invalid_late", "first", "mixed"],
    "C10": [],
    "C11": ["survive", "survive", "masked", "random", "survive", "mixed"],
    "C12": ["masked", "random", "mixed", "first", "survive", "mixed"],
}
# which model-provided policies each property adds when the model offers them
EXTRA_POLICIES = {
    "C04": ["frontier", "complete", "collide", "convoy"], "C05": ["frontier", "collide", "complete", "convoy"], "C06": ["complete", "collide", "greedy", "frontier"],
    "C07": ["frontier", "collide", "complete", "convoy"], "C08": ["complete", "greedy", "frontier"], "C09": ["complete", "collide", "frontier"],
    "C11": ["complete", "collide", "greedy", "lazy"], "C12": ["complete", "frontier", "collide", "convoy"],
}
PROBES = {"C04": "all", "C05": "all", "C09": "some", "C07": "some"}


def shards_for(prop: str, tier: str, seed: int = 0) -> List[Dict[str, Any]]:
    out = env_cfg_shards(tier, SCOPE[prop], HEAVY, prop=prop, seed=seed)
    if prop == "C11":
        out += coincidence_shards(tier, HEAVY)
    return out


class ModelMonitor(Monitor):
    prop = ""

    def __init__(self, runner: Runner, rep: Report, P: ModelCtx):
        self.r, self.rep, self.P = runner, rep, P
        self.kind = A.MASK_KIND[runner.env_name]

    def report(self, ev: Optional[Event], problems, extra: Optional[Dict[str, Any]] = None, qualifier: str = "") -> None:
        for p in problems or []:
            clause, detail = split_problem(p)
            d = {"problem": detail}
            if ev is not None:
                d["event"] = ev.brief()
            if extra:
                d.update(extra)
            q = qualifier
            if not q and self.P.has("qualify"):
                # a model may qualify a clause by the mechanism's precondition (used to key known findings)
                q = self.P.call("qualify", clause, ev) or ""
            self.rep.violation(self.r.env_name, self.r.cfg_id, clause, d, replay=ev.replay() if ev is not None else {"env": self.r.env_name, "cfg": self.r.cfg}, qualifier=q)

    def ev_count(self, ev: Event, name: str, n: int = 1) -> None:
        self.rep.env_count(ev.env, name, n)


def _legal_cached(P: ModelCtx, ev: Event):
    """legal(P, S, O) for the state of event `ev`, cached on the event."""
    if "legal" not in ev._cache:
        ev._cache["legal"] = np.asarray(P.call("legal", ev.S, ev.O)).astype(bool)
    return ev._cache["legal"]


def components(kind, action, agent=None):
    """[(agent_or_None, index_into_mask)] for an action."""
    a = np.asarray(action)
    if kind in ("flat", None):
        return [(None, (int(a),))] if a.ndim == 0 else [(None, tuple(int(x) for x in a))]
    if kind == "joint":
        return [(None, tuple(int(x) for x in a))]
    return [(i, (i, int(x))) for i, x in enumerate(a) if agent is None or agent == i]


# ----------------------------------------------------------------------------------------------- C04

class MaskMonitor(ModelMonitor):
    prop = "C04"

    def _rule(self, ev: Event) -> None:
        if ev.last or ev.post_terminal or "action_mask" not in ev.O:
            return
        P = self.P
        M = ev.O["action_mask"].astype(bool)
        L = _legal_cached(P, ev)
        self.rep.evaluated(1, ev.digest)
        self.ev_count(ev, "states_rule_checked")
        if L.shape != M.shape:
            self.rep.inconclusive.append(f"model legal() shape {L.shape} != mask shape {M.shape}")
            return
        ign = np.zeros(M.shape, bool)
        if P.has("ignore_mask"):
            ign = np.asarray(P.call("ignore_mask", M.shape)).astype(bool)
        diff = (L != M) & ~ign
        if diff.any():
            idx = np.argwhere(diff)
            hidden = int((diff & L).sum())
            offered = int((diff & M).sum())
            q = "legal_move_hidden" if hidden and not offered else ("illegal_move_offered" if offered and not hidden else "both")
            self.report(ev, [f"mask_equals_rule: {len(idx)} entries differ (legal-but-masked-out {hidden}, illegal-but-masked-in {offered}); first indices {idx[:4].tolist()}"], qualifier=q)
        if "action_mask" in ev.S:
            self.rep.evaluated(1)
            if not np.array_equal(ev.S["action_mask"].astype(bool), M):
                self.report(ev, ["state_mask_equals_observation_mask: state.action_mask differs from observation.action_mask"])

    def on_reset(self, ev: Event) -> None:
        self._rule(ev)

    def on_step(self, ev: Event) -> None:
        self._rule(ev)
        if ev.post_terminal or ev.O0 is None or "action_mask" not in ev.O0 or not self.P.has("reaction"):
            return
        M0 = ev.O0["action_mask"].astype(bool)
        comps = components(self.kind, ev.action, ev.meta.get("agent"))
        inb = [(ag, ix) for ag, ix in comps if all(0 <= i < n for i, n in zip(ix, M0.shape))]
        if self.kind == "per_agent" and not ev.probe:
            # main-trajectory joint actions are judged only when every component is masked-in
            allc = components(self.kind, ev.action)
            if not all(all(0 <= i < n for i, n in zip(ix, M0.shape)) and M0[ix] for _, ix in allc):
                return
        for ag, ix in inb:
            m = bool(M0[ix])
            if self.P.has("ignore_mask") and np.asarray(self.P.call("ignore_mask", M0.shape)).astype(bool)[ix]:
                continue
            r = self.P.call("reaction", ev.S0, ev.action, ev.S, ev, ag)
            if r is None:
                continue
            self.rep.evaluated(1)
            self.rep.count("reaction_masked_in" if m else "reaction_masked_out")
            self.ev_count(ev, "reaction_masked_in" if m else "reaction_masked_out")
            if m and r == "invalid":
                self.report(ev, [f"masked_in_treated_invalid: action {np.asarray(ev.action).tolist()} (agent {ag}) is masked-in but the environment treated it as invalid"])
            if (not m) and r == "accepted":
                self.report(ev, [f"masked_out_accepted: action {np.asarray(ev.action).tolist()} (agent {ag}) is masked-out but the environment accepted it"])


# ----------------------------------------------------------------------------------------------- C05

class IllegalMonitor(ModelMonitor):
    prop = "C05"

    def on_step(self, ev: Event) -> None:
        if ev.post_terminal or ev.prev_event is None or ev.prev_event.last:
            return
        P = self.P
        L0 = _legal_cached(P, ev.prev_event)
        kind = self.kind if self.kind is not None else "flat"
        for ag, ix in components(kind, ev.action, ev.meta.get("agent")):
            if not all(0 <= i < n for i, n in zip(ix, L0.shape)):
                continue
            if L0[ix]:
                continue
            if P.has("ignore_mask") and np.asarray(P.call("ignore_mask", L0.shape)).astype(bool)[ix]:
                continue
            self.rep.evaluated(1, ev.digest)
            self.rep.count("illegal_actions_judged")
            self.ev_count(ev, "illegal_actions_judged")
            if ev.t > 3:
                self.ev_count(ev, "illegal_late")
            self.report(ev, P.call("illegal_effect", ev.S0, ev.action, ev.S, ev, ag), extra={"agent": ag})


# ----------------------------------------------------------------------------------------------- C06

class FeasibilityMonitor(ModelMonitor):
    prop = "C06"

    def __init__(self, *a):
        super().__init__(*a)
        self.trace: List[Event] = []
        self.ok = True

    def on_reset(self, ev: Event) -> None:
        self.trace = [ev]
        self.ok = True
        self.P.shadow = {}
        self._check(ev)

    def on_step(self, ev: Event) -> None:
        if ev.probe or ev.post_terminal:
            return
        self.trace.append(ev)
        if not ev.legal_only:
            self.ok = False
        if self.ok:
            self._check(ev)

    def _check(self, ev: Event) -> None:
        self.rep.evaluated(1, ev.digest)
        self.ev_count(ev, "states_checked")
        self.report(ev, self.P.call("hard_constraints", self.trace))

    def on_episode_end(self, trace: List[Event]) -> None:
        if not self.ok or not trace or not trace[-1].last or not self.P.has("complete"):
            return
        res = self.P.call("complete", trace)
        if res is None:
            self.ev_count(trace[-1], "ended_not_by_completion")
            return
        self.rep.evaluated(1)
        self.rep.count("completed_episodes")
        self.ev_count(trace[-1], "completed_episodes")
        self.report(trace[-1], res)


# ----------------------------------------------------------------------------------------------- C07

class PhysicalMonitor(ModelMonitor):
    prop = "C07"

    def on_reset(self, ev: Event) -> None:
        self.rep.evaluated(1, ev.digest)
        self.ev_count(ev, "states_checked")
        self.report(ev, self.P.call("physical", None, None, ev.S))

    def on_step(self, ev: Event) -> None:
        if ev.last or ev.post_terminal or (ev.prev_event is not None and ev.prev_event.last):
            return
        self.rep.evaluated(1, ev.digest)
        self.ev_count(ev, "states_checked")
        self.report(ev, self.P.call("physical", ev.S0, ev.action, ev.S))


# ----------------------------------------------------------------------------------------------- C08

class ObjectiveMonitor(ModelMonitor):
    prop = "C08"

    def on_episode_end(self, trace: List[Event]) -> None:
        if not trace or not all(e.legal_only for e in trace):
            return
        if not trace[-1].last:
            # an episode cut by the step cap: where the documented objective is a running quantity (score so far, fruits so
            # far, tiles cleaned so far) the rewards collected so far must already add up to it
            if len(trace) < 2 or not getattr(self.P.model, "OBJECTIVE_HOLDS_ON_PREFIX", False):
                return
            obj = self.P.call("objective", trace)
            if obj is None:
                return
            ret = float(sum(np.sum(e.reward.astype(np.float64)) for e in trace[1:]))
            n = len(trace) - 1
            self.rep.evaluated(1, trace[-1].digest)
            self.rep.count("prefix_returns_compared")
            self.ev_count(trace[-1], "prefix_returns_compared")
            if not (abs(ret - obj) <= 1e-4 * max(1.0, abs(obj)) + 1e-5 * n):
                self.report(trace[-1], [f"return_equals_objective: after {n} steps of an unfinished episode the rewards add up to {ret!r} but the objective so far is {obj!r}"], qualifier="prefix")
            return
        obj = self.P.call("objective", trace)
        if obj is None:
            self.ev_count(trace[-1], "episodes_outside_statement")
            return
        ret = float(sum(np.sum(e.reward.astype(np.float64)) for e in trace[1:]))
        n = max(1, len(trace) - 1)
        tol = 1e-4 * max(1.0, abs(obj)) + 1e-5 * n
        self.rep.evaluated(1, trace[-1].digest)
        self.rep.count("returns_compared")
        self.ev_count(trace[-1], "returns_compared")
        if len(self.rep.samples) < 3:
            self.rep.sample({"env": trace[-1].env, "cfg": trace[-1].cfg_id, "steps": n, "return": ret, "objective": obj})
        if not (abs(ret - obj) <= tol):
            self.report(trace[-1], [f"return_equals_objective: return {ret!r} != objective {obj!r} over {n} steps"])


# ----------------------------------------------------------------------------------------------- C09

class RefStepMonitor(ModelMonitor):
    prop = "C09"

    def on_step(self, ev: Event) -> None:
        if ev.post_terminal or ev.prev_event is None or ev.prev_event.last:
            return
        self.rep.evaluated(1, ev.digest)
        self.ev_count(ev, "transitions_checked")
        self.report(ev, self.P.call("check_step", ev.S0, ev.action, ev.S, ev.reward, ev.last, ev))


# ----------------------------------------------------------------------------------------------- C10

class InstanceMonitor(ModelMonitor):
    prop = "C10"

    def on_reset(self, ev: Event) -> None:
        self.rep.evaluated(1, ev.digest)
        self.ev_count(ev, "instances_checked")
        self.report(ev, self.P.call("instance", ev.S, ev))


# ----------------------------------------------------------------------------------------------- C11

class TimeLimitMonitor(ModelMonitor):
    prop = "C11"

    def __init__(self, *a):
        super().__init__(*a)
        P = self.P
        self.L = P.call("time_limit") if P.has("time_limit") else None
        self.H = P.call("horizon") if P.has("horizon") else None
        self.done = False

    def on_reset(self, ev: Event) -> None:
        self.done = False

    def on_step(self, ev: Event) -> None:
        if ev.probe or self.done:
            return
        L, H = self.L, self.H
        if ev.last:
            self.done = True
            self.rep.evaluated(1, ev.digest)
            self.ev_count(ev, "episode_ends")
            if L is not None and ev.t < L:
                other = bool(self.P.call("other_end_reason", ev.S0, ev.action, ev.S, ev)) if self.P.has("other_end_reason") else None
                if other is None:
                    return
                self.ev_count(ev, "early_end_explained")
                if not other:
                    self.report(ev, [f"ended_before_limit: LAST at step {ev.t} < time_limit {L} without any other end reason"])
            elif L is not None and ev.t == L:
                self.rep.count("ended_at_limit")
                self.ev_count(ev, "ended_at_limit")
            if H is not None and ev.t > H:
                self.report(ev, [f"within_horizon: first LAST at step {ev.t} > structural horizon {H}"])
            if H is not None:
                self.ev_count(ev, "horizon_checked")
        else:
            if L is not None and ev.t >= L:
                self.done = True
                self.rep.evaluated(1, ev.digest)
                self.report(ev, [f"not_ended_at_limit: step {ev.t} is not LAST although time_limit is {L}"])
            if H is not None and ev.t > H:
                self.done = True
                self.rep.evaluated(1, ev.digest)
                self.report(ev, [f"within_horizon: episode still running at step {ev.t} > structural horizon {H}"])


# ----------------------------------------------------------------------------------------------- C12

class ObservationMonitor(ModelMonitor):
    prop = "C12"

    def _chk(self, ev: Event) -> None:
        if ev.post_terminal:
            return
        self.rep.evaluated(1, ev.digest)
        self.ev_count(ev, "observations_checked")
        self.report(ev, self.P.call("check_obs", ev.S, ev.O))

    on_reset = _chk
    on_step = _chk


MONITORS = {"C04": MaskMonitor, "C05": IllegalMonitor, "C06": FeasibilityMonitor, "C07": PhysicalMonitor, "C08": ObjectiveMonitor,
            "C09": RefStepMonitor, "C10": InstanceMonitor, "C11": TimeLimitMonitor, "C12": ObservationMonitor}


# ----------------------------------------------------------------------------------------------- probes

def make_probe_fn(prop: str, runner: Runner, P: ModelCtx, rng: np.random.Generator, tier: str):
    mode = PROBES.get(prop)
    if mode is None:
        return None
    # the per-episode probe budget is counted in *branch steps*: small action spaces are probed at (nearly) every state of
    # an episode, large ones at a handful of states
    per_state = 512 if mode == "all" else 8
    n_act = A.num_actions(runner.spec) if tuple(runner.spec.shape) == () else None
    if A.MASK_KIND[runner.env_name] == "per_agent":
        lo_, hi_ = A.spec_bounds(runner.spec)
        n_act = 2 * int(np.sum(hi_ - lo_ + 1))
    elif n_act is None:
        n_act = A.num_actions(runner.spec)
    n_act = min(n_act, per_state) if n_act <= per_state else (2 * max(4, per_state // 8) if mode == "all" else 8)
    branch_budget = {"all": {"quick": 1500, "thorough": 5000}, "some": {"quick": 400, "thorough": 1200}}[mode][tier]
    floor_states = ((6 if prop == "C05" else 3) if tier == "quick" else 10)
    per_episode = int(min(250, max(floor_states, branch_budget // max(1, n_act))))
    base_rate = max(0.6 if prop == "C05" else 0.35, min(1.0, per_episode / 25.0))
    state = {"episode": -1, "n": 0}
    tune = {"rate": None, "per_episode": None}  # set by the shard runner for deep episodes: probes spread over the whole run
    kind = A.MASK_KIND[runner.env_name]
    spec = runner.spec
    lo, hi = A.spec_bounds(spec)
    dt = A.np_dtype(spec)

    def fn(ev: Event):
        if ev.episode != state["episode"]:
            state["episode"], state["n"] = ev.episode, 0
        if state["n"] >= (tune["per_episode"] or per_episode):
            return []
        # probe the first states of an episode and then a random third of the later ones
        if tune["rate"] is not None:
            if rng.random() > tune["rate"]:
                return []
        elif ev.t > 1 and rng.random() > base_rate:
            return []
        state["n"] += 1
        budget = 512 if mode == "all" else 8
        M = ev.O.get("action_mask")
        out = []
        if kind == "per_agent" and M is not None:
            M = M.astype(bool)
            # what the *other* agents do while one agent deviates: their first masked-in action (usually the no-op), their
            # last one (LBF: load; Connector / Cleaner: a real move) or a random masked-in one - events that need two agents to
            # act on the same step (one pushes into a food cell while the others eat it) only occur with active partners
            default, last_in, rand_in = [], [], []
            for i, row in enumerate(M):
                idx = np.flatnonzero(row)
                default.append(int(idx[0]) if len(idx) else int(lo[i]))
                last_in.append(int(idx[-1]) if len(idx) else int(lo[i]))
                rand_in.append(int(rng.choice(idx)) if len(idx) else int(lo[i]))
            bases = [default]
            if last_in != default:
                bases.append(last_in)
            if rand_in not in bases:
                bases.append(rand_in)
            pairs = [(i, j, b) for b in range(len(bases)) for i in range(M.shape[0]) for j in range(int(lo[i]), min(int(hi[i]), M.shape[1] - 1) + 1)]
            if len(pairs) > budget:
                pairs = [pairs[k] for k in rng.choice(len(pairs), budget, replace=False)]
            for i, j, b in pairs:
                a = np.asarray(bases[b], dt).copy()
                a[i] = j
                out.append((a, {"agent": i}))
            return out
        acts = A.all_actions(spec, cap=budget)
        if acts is not None:
            return [(a, {}) for a in acts]
        # large space: stratified sample of masked-in and masked-out actions (by mask and by rule)
        half = max(4, budget // 8) if mode == "all" else 4
        chosen = []
        if M is not None and kind in ("flat", "joint"):
            M = M.astype(bool)
            sub = M if kind == "joint" else M
            for sel in (np.argwhere(sub), np.argwhere(~sub)):
                if len(sel):
                    for k in rng.choice(len(sel), min(half, len(sel)), replace=False):
                        ix = sel[k]
                        if all(int(l) <= int(x) <= int(h) for x, l, h in zip(np.atleast_1d(ix), np.atleast_1d(lo).ravel(), np.atleast_1d(hi).ravel())):
                            chosen.append(np.asarray(ix if kind == "joint" else ix[0], dt).reshape(tuple(spec.shape)))
        else:
            chosen = [A.sample_random(spec, rng) for _ in range(2 * half)]
        return [(a, {}) for a in chosen]

    fn.tune = tune
    return fn


# ----------------------------------------------------------------------------------------------- shard runner

def run_model_shard(prop: str, shard: Dict[str, Any], rep: Report) -> None:
    import jax

    tier, seed, sid = shard["tier"], shard["seed"], shard["id"]
    name, cfg = shard["env"], shard["cfg"]
    if shard.get("coincide"):
        run_coincidence(shard, rep, lambda r2, P2: MONITORS[prop](r2, rep, P2))
        return
    runner = Runner(name, cfg)
    rng = shard_rng(seed, sid)
    P = ModelCtx(name, cfg, rep, env=runner.env, rng=rng)
    need = REQUIRED_FN[prop]
    if P.model is None or (need is not None and not P.has(need)):
        rep.count(f"no_model:{name}")
        rep.env_count(name, "no_model")
        return
    mon = MONITORS[prop](runner, rep, P)
    pols: List[Any] = list(DEFAULT_POLICIES[prop])
    extra = P.call("policies") if P.has("policies") else {}
    if cfg.get("light"):
        # very large instances (hundreds of entities: dtype wrap-arounds, buffer limits): three generic episodes, no model
        # workloads (the solvers behind "complete" policies do not scale to them)
        pols, extra = pols[:3], {}
    for nm in EXTRA_POLICIES.get(prop, []):
        if nm in extra:
            # a model may ask for more episodes of a workload whose interesting event is rare (e.g. three-way ties)
            w = int(getattr(P.model, "POLICY_WEIGHT", {}).get(nm, 1))
            pols.extend([extra[nm]] * (2 * w))
    if tier == "thorough" and not cfg.get("light"):
        pols = pols * 3
    cap = step_cap(name, cfg, tier)
    if cfg.get("light"):
        cap = max(cap, int(cfg["light"]))
    probe_fn = make_probe_fn(prop, runner, P, rng, tier)

    if prop == "C10":
        # many keys per generator configuration: rare-key defects (one instance in a few hundred) are the ones a handful of keys
        # cannot see, and a reset costs about a millisecond. The count is fixed (not time-boxed) so that a loaded machine
        # explores exactly what an idle one does; a configuration may ask for more (`c10_keys`).
        n_keys = int(os.environ.get("JMON_C10_KEYS", 0)) or int(cfg.get("c10_keys", {}).get(tier, 600 if tier == "quick" else 3000))
        digs = set()
        for ep in range(n_keys):
            key, kint = key_for(seed, sid, ep)
            state, ts = runner.reset(key)
            ev = Event(runner, ep, 0, kint, [], None, None, state, ts)
            mon.on_reset(ev)
            digs.add(ev.digest)
            rep.states += 1
            if len(rep.samples) < 1:
                rep.sample({"env": name, "cfg": cfg["id"], "reset_key_int": kint, "state_fields": {k: [list(v.shape), str(v.dtype)] for k, v in list(ev.S.items())[:12]}})
        rep.env_count(name, "keys", n_keys)
        is_random = bool(P.model.RANDOM_GENERATOR(cfg)) if hasattr(P.model, "RANDOM_GENERATOR") else None
        if is_random:
            rep.evaluated(1)
            rep.count("key_dependence_checked")
            rep.env_count(name, "key_dependence_checked")
            if len(digs) < 2:
                rep.violation(name, cfg["id"], "generator_depends_on_key", {"distinct_instances": len(digs), "keys": n_keys}, replay={"env": name, "cfg": cfg})
        if P.has("generator_checks"):
            mon.report(None, P.call("generator_checks", runner.env, rng, tier))
        E.cleanup()
        return

    if prop == "C09" and P.has("synthetic") and shard.get("synthetic", True):
        mon.report(None, P.call("synthetic", rng, tier))

    if prop == "C08":
        # another size of the same environment is built and traced first (it shares the parameter-free reward objects with
        # the environment under test, see jmon.envs._one): the returns judged below must not depend on that
        try:
            for oc in sorted(E.configs(name, "quick"), key=lambda c_: c_["id"] == "default"):  # non-default sizes first
                if oc["id"] != cfg["id"] and not any(k in oc for k in ("custom", "make_id", "light", "deep")):
                    other = E.build(name, oc)
                    os_, ot_ = jax.jit(other.reset)(jax.random.PRNGKey(11))
                    jax.jit(other.step)(os_, A.as_action(other.action_spec, A.sample_masked(name, other.action_spec, A.get_mask(ot_), rng)[0]))
                    rep.count("sibling_size_traced_first")
                    break
        except Exception as e:
            rep.notes.append(f"sibling of {name} could not be built: {e!r}"[:200])
    twin = None
    if prop == "C08" and name in DENSE_SPARSE and "make_id" not in cfg and "custom" not in cfg:
        # (configurations built through jumanji.make or with a user reward function have no "other" reward function to swap in)
        c2 = dict(cfg)
        c2["reward"] = "dense" if cfg.get("reward") == "sparse" else "sparse"
        twin = Runner(name, c2)

    n_ordinary = len(pols)
    deep = deep_episodes(name, cfg, tier, extra) if prop != "C11" else []
    pols = pols + [d[0] for d in deep]
    for ep, pol in enumerate(pols):
        key, kint = key_for(seed, sid, ep)
        P.shadow = {}
        c = cap
        if ep >= n_ordinary:
            c = deep[ep - n_ordinary][1]
            rep.count("deep_episodes")
            rep.env_count(name, "deep_episodes")
            if probe_fn is not None:
                probe_fn.tune.update(rate=16.0 / c, per_episode=16)
        if prop == "C11":
            L = mon.L
            c = (L + 3) if (L is not None and L <= (60 if tier == "quick" else 1200)) else cap
            if mon.H is not None:
                c = max(c, mon.H + 3)
        info = run_episode(runner, key, kint, pol, rng, [mon], episode=ep, max_steps=c, probe_fn=probe_fn)
        rep.states += info["steps"] + 1
        rep.transitions += info["steps"]
        rep.env_count(name, "episodes")
        if info["ended"]:
            rep.env_count(name, "episodes_ended")
        if ep >= n_ordinary:
            rep.env_count(name, "deep_steps", info["steps"])
        if len(rep.samples) < 2 and info["steps"] >= 1:
            tr = info["trace"]
            rep.sample({
                "env": name, "cfg": cfg["id"], "policy": info["policy"], "reset_key_int": kint, "steps": info["steps"], "ended": info["ended"],
                "mask_respecting": info["legal_only"], "actions_head": [np.asarray(e.action).tolist() for e in tr[1:9]],
                "rewards_head": [np.asarray(e.reward).tolist() for e in tr[1:9]], "last_event": tr[-1].brief(),
                "monitor": type(mon).__name__,
            })
        if twin is not None and info["ended"] and info["legal_only"]:
            tr = info["trace"]
            s, t = twin.reset(key)
            ret2, ended_at = 0.0, None
            for i, e in enumerate(tr[1:]):
                s, t = twin.step(s, e.action)
                ret2 += float(np.sum(np.asarray(t.reward, np.float64)))
                if int(np.asarray(t.step_type)) == 2:
                    ended_at = i + 1
                    break
            ret1 = float(sum(np.sum(e.reward.astype(np.float64)) for e in tr[1:]))
            rep.evaluated(1)
            rep.count("dense_sparse_compared")
            rep.env_count(name, "dense_sparse_compared")
            n = len(tr) - 1
            tol = 1e-4 * max(1.0, abs(ret1)) + 1e-5 * n
            if P.has("dense_sparse"):
                # environments whose two reward functions are documented as *different* objectives (SlidingTilePuzzle)
                mon.report(tr[-1], P.call("dense_sparse", tr, ret1, ret2, ended_at))
            elif ended_at != n:
                mon.report(tr[-1], [f"dense_sparse_same_length: twin reward function ended at {ended_at}, original at {n}"])
            elif not abs(ret1 - ret2) <= tol:
                mon.report(tr[-1], [f"dense_equals_sparse: return {ret1!r} with {cfg.get('reward', 'default')} reward vs {ret2!r} with {c2['reward']} on the same trajectory"])
    E.cleanup()


def model_floors(prop: str, tier: str, counters: Dict[str, int], per_env: Dict[str, Dict[str, int]], per_env_key: str, minimum: int = 5, extra: Optional[Callable] = None) -> List[str]:
    missed = []
    for e in SCOPE[prop]:
        pe = per_env.get(e, {})
        if pe.get("no_model", 0) > 0:
            missed.append(f"{e}: no model function '{REQUIRED_FN[prop]}' available")
            continue
        if pe.get(per_env_key, 0) < minimum:
            missed.append(f"{e}: {per_env_key} = {pe.get(per_env_key, 0)} < {minimum}")
    if extra is not None:
        missed.extend(extra(counters, per_env))
    return missed
