"""C02 — reset/step are pure and commute with jit / vmap / scan (DESIGN §3 C02)."""
from __future__ import annotations

import hashlib
import json
import os
import subprocess
import sys
from typing import Any, Dict, List, Tuple

import numpy as np

from jmon import actions as A
from jmon import envs as E
from jmon.common import ROOT, Report, decode, digest_decoded, key_for, shard_rng, tree_diff
from jmon.props._util import HEAVY

RULE = (
    "differential monitor: the same logical call (reset(k) or step(S,a); S at t=0, mid-episode and before LAST; a legal "
    "and illegal) is executed (1) twice on one object with unrelated calls in between, (2) on a fresh instance, "
    "(3) eagerly, under jit, under jit(vmap) for several batch sizes and inside lax.scan, and the decoded results are "
    "compared (bit-exact within a mode, rtol 1e-5 across modes); argument pytrees are snapshotted around eager calls; "
    "jaxprs are inspected for effects/callbacks; env-object digests are taken around calls. One evaluation = one "
    "compared pair; distinct by (environment, configuration, digest of the call's result)"
)
ASSUMPTIONS = [
    "float leaves may differ by XLA fusion across execution modes (tolerance rtol=1e-5, atol=1e-6); integer/bool leaves must be identical",
    "a one-time change of the env object (lazy cache) is tolerated, only state that keeps evolving over identical calls is a violation",
]
SHARD_TIMEOUT = {"quick": 1500, "thorough": 3000}


def shards(tier: str, seed: int) -> List[Dict[str, Any]]:
    out = []
    for e in E.ENVS:
        cfgs = E.configs(e, tier)
        if tier == "quick":
            # the small configuration gets the eager part (eager execution is slow), the default the rest
            for i, c in enumerate(cfgs[:2]):
                out.append({"id": f"{e}|{c['id']}", "env": e, "cfg": c, "eager": i == 1 or len(cfgs) == 1, "weight": HEAVY.get(e, 1.0)})
            for c in cfgs[2:]:
                # configurations with non-default constructor objects (custom reward coefficients / rewards): state
                # shared between instances of a class shows up only here
                if any(k in c for k in ("reward_coeffs", "rewards", "db_dtype", "np_db", "maze", "container")):
                    out.append({"id": f"{e}|{c['id']}", "env": e, "cfg": c, "eager": True, "weight": HEAVY.get(e, 1.0)})
        else:
            for i, c in enumerate(cfgs):
                if i < 4 or any(k in c for k in ("reward_coeffs", "rewards", "db_dtype", "np_db", "maze", "container")):
                    out.append({"id": f"{e}|{c['id']}", "env": e, "cfg": c, "eager": i in (1, 2) or i >= 4, "xproc": i == 0, "weight": HEAVY.get(e, 1.0)})
    return out


# --------------------------------------------------------------------------- helpers

def snapshot(x, depth=0):
    """Deep snapshot: container field identities + leaf bytes."""
    if hasattr(x, "__dataclass_fields__"):
        return ("dc", type(x).__name__, tuple((f, id(getattr(x, f)), snapshot(getattr(x, f), depth + 1)) for f in x.__dataclass_fields__))
    if isinstance(x, tuple) and hasattr(x, "_fields"):
        return ("nt", type(x).__name__, tuple((f, id(v), snapshot(v, depth + 1)) for f, v in zip(x._fields, x)))
    if isinstance(x, dict):
        return ("dict", tuple((k, id(v), snapshot(v, depth + 1)) for k, v in sorted(x.items(), key=lambda kv: str(kv[0]))))
    if isinstance(x, (list, tuple)):
        return ("seq", tuple((id(v), snapshot(v, depth + 1)) for v in x))
    a = np.asarray(x)
    return ("leaf", str(a.dtype), a.shape, a.tobytes())


def snapshot_diff(a, b, path="") -> List[str]:
    if a[0] != b[0]:
        return [path + ": kind changed"]
    if a[0] == "leaf":
        return [] if a == b else [path + ": leaf bytes changed"]
    items_a, items_b = a[-1], b[-1]
    if len(items_a) != len(items_b):
        return [path + ": number of fields changed"]
    out = []
    for ia, ib in zip(items_a, items_b):
        name = ia[0] if a[0] in ("dc", "nt", "dict") else ""
        ida, idb = (ia[1], ib[1]) if a[0] != "seq" else (ia[0], ib[0])
        if ida != idb:
            out.append(f"{path}.{name}: field object replaced")
        out.extend(snapshot_diff(ia[-1], ib[-1], f"{path}.{name}"))
    return out


def value_changes(diffs: List[str], rep=None, where: str = "") -> List[str]:
    """Only differences a caller can observe through the values count as a modification. A field that was re-assigned to an
    equal value (e.g. BinPack.reset filling `action_mask` of the one State object a CSVGenerator hands out on every call) is
    recorded as an observation: demanding object identity would be stricter than "never modifies the arguments"."""
    real = [d for d in diffs if not d.endswith("field object replaced")]
    if rep is not None and len(real) < len(diffs):
        rep.count("value_preserving_field_replacements", len(diffs) - len(real))
        if not real:
            rep.notes.append(f"{where}: fields re-assigned to equal values (no observable change): {[d.split(':')[0] for d in diffs][:4]}"[:300])
    return real


def env_digest(obj, depth=0, seen=None) -> str:
    """Digest of the Python-side state of an environment object (viewer excluded)."""
    h = hashlib.sha1()

    def walk(o, d):
        if d > 6:
            return
        if seen is not None:
            pass
        if o is None or isinstance(o, (bool, int, float, str, bytes)):
            h.update(repr(o).encode())
            return
        if isinstance(o, (list, tuple)):
            h.update(b"[")
            for v in o[:64]:
                walk(v, d + 1)
            return
        if isinstance(o, dict):
            for k in sorted(o, key=str)[:128]:
                if "viewer" in str(k).lower():
                    continue
                h.update(str(k).encode())
                walk(o[k], d + 1)
            return
        tn = type(o).__name__
        if "Tracer" in tn:
            h.update(b"<tracer>")
            return
        if callable(o) and not hasattr(o, "__dict__"):
            h.update(b"<fn>")
            return
        if hasattr(o, "shape") and hasattr(o, "dtype"):
            try:
                a = np.asarray(o)
                h.update(str(a.dtype).encode() + str(a.shape).encode() + a.tobytes())
            except Exception:
                h.update(b"<array?>")
            return
        mod = getattr(type(o), "__module__", "") or ""
        if mod.startswith("jumanji") or hasattr(o, "__dataclass_fields__"):
            h.update(tn.encode())
            d_ = getattr(o, "__dict__", None)
            if d_ is not None:
                walk(dict(d_), d + 1)
            return
        if callable(o):
            h.update(b"<callable>")
            return
        h.update(("<" + tn + ">").encode())

    walk(obj, depth)
    return h.hexdigest()[:16]


def dec_pair(state, ts) -> Dict[str, np.ndarray]:
    d = {"S." + k: v for k, v in decode(state).items()}
    d.update({"T." + k: v for k, v in decode(ts).items()})
    return d


def stack_trees(trees):
    import jax
    import jax.numpy as jnp

    return jax.tree_util.tree_map(lambda *xs: jnp.stack([jnp.asarray(x) for x in xs]), *trees)


def slice_tree(tree, i):
    import jax

    return jax.tree_util.tree_map(lambda x: x[i], tree)


# --------------------------------------------------------------------------- shard

def collect_calls(runner, seed, sid, rng, n_eps: int, cap: int):
    """States at t=0, mid-episode and just before LAST along masked/random rollouts, with one legal-ish and one
    random (possibly illegal) action each."""
    calls = []  # (state, action, tag)
    keys = []
    for ep in range(n_eps):
        key, kint = key_for(seed, sid, ep)
        keys.append((key, kint))
        state, ts = runner.reset(key)
        traj = [(state, ts)]
        for t in range(cap):
            if int(np.asarray(ts.step_type)) == 2:
                break
            m = A.get_mask(ts)
            if ep % 2 == 0:
                a, _ = A.sample_masked(runner.env_name, runner.spec, m, rng)
            else:
                a = A.sample_random(runner.spec, rng) if rng.random() < 0.3 else A.sample_masked(runner.env_name, runner.spec, m, rng)[0]
            state, ts = runner.step(state, a)
            traj.append((state, ts))
        live = [i for i, (_, t_) in enumerate(traj) if int(np.asarray(t_.step_type)) != 2]
        picks = sorted(set([live[0], live[len(live) // 2], live[-1]])) if live else []
        for i in picks:
            s_, t_ = traj[i]
            m = A.get_mask(t_)
            calls.append((s_, A.sample_masked(runner.env_name, runner.spec, m, rng)[0], f"ep{ep}t{i}legal", kint))
            calls.append((s_, A.sample_random(runner.spec, rng), f"ep{ep}t{i}random", kint))
    # transitions in which something happens (food loaded, shelf delivered, line cleared, box pushed onto a target, agent
    # connected ...): found by the models' own workloads, recognised by a non-zero reward or a LAST step
    try:
        from jmon.modelapi import ModelCtx
        from jmon.rollout import run_episode

        P = ModelCtx(runner.env_name, runner.cfg, Report("C02", "workload"), env=runner.env, rng=rng)
        extra = P.call("policies") if P.has("policies") else {}
        for j, nm in enumerate([n for n in ("complete", "collide", "greedy") if n in extra][:2]):
            key, kint = key_for(seed, sid + "|events", j)
            info = run_episode(runner, key, kint, extra[nm], rng, [], episode=100 + j, max_steps=cap * 2)
            tr = info["trace"]
            ev_idx = [i for i in range(1, len(tr)) if np.any(tr[i].reward != 0) or tr[i].last]
            for i in sorted(set(ev_idx[:2] + ev_idx[-1:])):
                calls.append((tr[i].prev_state, tr[i].action, f"{nm}-event-t{i}", kint))
    except Exception as e:  # workload only
        calls.append((calls[0][0], calls[0][1], f"event-workload-failed:{type(e).__name__}", calls[0][3]))
    return keys, calls


def run_shard(shard: Dict[str, Any], rep: Report) -> None:
    import jax
    import jax.numpy as jnp
    from jmon.rollout import Runner

    tier, seed, sid = shard["tier"], shard["seed"], shard["id"]
    name, cfg = shard["env"], shard["cfg"]
    cid = cfg["id"]
    rng = shard_rng(seed, sid)
    runner = Runner(name, cfg)
    env = runner.env
    d_construct = env_digest(env)

    n_eps = 2 if tier == "quick" else 4
    keys, calls = collect_calls(runner, seed, sid, rng, n_eps, 40 if tier == "quick" else 100)
    rep.count("calls_collected", len(calls))

    def viol(clause, detail, replay=None, qualifier=""):
        rep.violation(name, cid, clause, detail, replay=replay or {"env": name, "cfg": cfg}, qualifier=qualifier)

    # ---- 1. history independence (jit mode, bit-exact) ------------------------------------------------
    first: List[Tuple[str, str]] = []
    for key, kint in keys:
        s, t = runner.reset(key)
        first.append(("reset", digest_decoded(dec_pair(s, t))))
    for (s0, a, tag, kint) in calls:
        s, t = runner.step(s0, a)
        first.append((tag, digest_decoded(dec_pair(s, t))))
    d_after1 = env_digest(env)
    # unrelated calls: other keys, a fresh jit trace, a vmapped call
    for j in range(3):
        k2 = jax.random.PRNGKey(10_000 + j)
        s_, t_ = runner.reset(k2)
        runner.step(s_, A.sample_random(runner.spec, rng))
    # other instances of the same class (default and sibling configurations) are constructed and used in between:
    # class-level or module-level shared state would leak into `env`
    def build_siblings():
        try:
            for oc in E.configs(name, "quick")[:2]:
                if oc["id"] != cid:
                    other = E.build(name, oc)
                    os_, ot_ = jax.jit(other.reset)(jax.random.PRNGKey(3))
                    jax.jit(other.step)(os_, A.as_action(other.action_spec, A.sample_random(other.action_spec, rng)))
                    rep.count("sibling_instances_built")
        except Exception as e:
            rep.notes.append(f"sibling instance of {name} could not be built: {e!r}"[:200])

    build_siblings()
    # library wrappers used on the *same* environment object (eagerly and under jit) are part of "all call histories on the env
    # object": a wrapper that writes into something the environment handed out (extras dict, cached state) must not change
    # what a later direct call returns
    try:
        from jumanji.wrappers import AutoResetWrapper, VmapAutoResetWrapper

        for nobs in (True, False):
            w = AutoResetWrapper(env, next_obs_in_extras=nobs)
            ws_, wt_ = jax.jit(w.reset)(jax.random.PRNGKey(31))
            jax.jit(w.step)(ws_, A.as_action(runner.spec, A.sample_random(runner.spec, rng)))
            if shard.get("eager") or nobs:
                ws_, wt_ = w.reset(jax.random.PRNGKey(32))  # eager: in-place writes reach the objects the env returned
        vw = VmapAutoResetWrapper(env, next_obs_in_extras=True)
        vs_, vt_ = jax.jit(vw.reset)(jax.random.split(jax.random.PRNGKey(33), 2))
        rep.count("wrapper_calls_on_same_env_object")
    except Exception as e:
        viol("wrapper_on_same_env_raises", {"error": repr(e)[:300]})
    try:
        jax.jit(env.reset)(jax.random.PRNGKey(77))
        jax.jit(jax.vmap(env.reset))(jax.random.split(jax.random.PRNGKey(5), 2))
    except Exception as e:
        viol("fresh_trace_after_calls_raises", {"error": repr(e)[:300]})
    second: List[Tuple[str, str]] = []
    try:
        for key, kint in keys:
            s, t = runner.reset(key)
            second.append(("reset", digest_decoded(dec_pair(s, t))))
        for (s0, a, tag, kint) in calls[::-1]:  # different order
            s, t = runner.step(s0, a)
            second.append((tag, digest_decoded(dec_pair(s, t))))
    except Exception as e:
        viol("repeat_call_raises", {"error": repr(e)[:300]})
    second_sorted = second[: len(keys)] + second[len(keys):][::-1]
    for i, ((tag, d1), (tag2, d2)) in enumerate(zip(first, second_sorted)):
        rep.evaluated(1, d1)
        rep.count("history_pairs")
        if d1 != d2:
            viol("history_independence", {"call": tag, "first": d1, "repeat": d2})
    d_after2 = env_digest(env)
    for key, kint in keys:
        runner.reset(key)
    for (s0, a, tag, kint) in calls:
        runner.step(s0, a)
    d_after3 = env_digest(env)
    rep.evaluated(1)
    rep.count("env_object_digests")
    if d_after2 != d_after3:
        viol("env_object_keeps_changing", {"construct": d_construct, "after1": d_after1, "after2": d_after2, "after3": d_after3})
    elif d_construct != d_after1 or d_after1 != d_after2:
        rep.notes.append(f"{name}/{cid}: env object changed once after first calls (lazy cache tolerated)")

    # ---- 2. fresh instance ----------------------------------------------------------------------------
    runner2 = Runner(name, cfg)
    for (key, kint), (tag, d1) in zip(keys, first[: len(keys)]):
        s, t = runner2.reset(key)
        rep.evaluated(1)
        rep.count("fresh_instance_pairs")
        if digest_decoded(dec_pair(s, t)) != d1:
            viol("fresh_instance_reset", {"key": kint})
    for (s0, a, tag, kint), (_, d1) in zip(calls, first[len(keys):]):
        s, t = runner2.step(s0, a)
        rep.evaluated(1)
        rep.count("fresh_instance_pairs")
        if digest_decoded(dec_pair(s, t)) != d1:
            viol("fresh_instance_step", {"call": tag})

    # ---- 2c. the environment as a *static argument* of one jitted function shared by several instances -----------------
    # (`jax.jit(rollout, static_argnums=0)` keys its cache on hash/eq of the environment object: instances that differ in any
    # constructor argument must not share an executable). Siblings - other configurations and the same configuration with
    # another time limit - go through the shared function first.
    try:
        st_reset = jax.jit(lambda e, k: e.reset(k), static_argnums=0)
        st_step = jax.jit(lambda e, s_, a_: e.step(s_, a_), static_argnums=0)
        sibs = []
        if name in E.TIME_LIMIT_ENVS and "make_id" not in cfg and "custom" not in cfg:
            for L2 in (2, 3):
                if cfg.get("time_limit") != L2:
                    c2 = dict(cfg)
                    c2["time_limit"] = L2
                    sibs.append(E.build(name, c2))
        for oc in E.configs(name, "quick")[:2]:
            if oc["id"] != cid:
                sibs.append(E.build(name, oc))
        for sb in sibs:
            try:
                ss_, _ = st_reset(sb, keys[0][0])
                for _ in range(3):
                    ss_, _ = st_step(sb, ss_, A.as_action(sb.action_spec, A.sample_random(sb.action_spec, rng)))
                rep.count("static_argument_siblings")
            except Exception as e:
                rep.notes.append(f"static-argument sibling of {name} failed: {e!r}"[:200])
        for (key, kint), (tag, d1) in zip(keys, first[: len(keys)]):
            s, t = st_reset(env, key)
            rep.evaluated(1)
            rep.count("static_argument_pairs")
            if digest_decoded(dec_pair(s, t)) != d1:
                viol("static_argument_jit_equals_own_jit", {"call": "reset", "key": kint})
        for (s0, a, tag, kint), (_, d1) in zip(calls, first[len(keys):]):
            s, t = st_step(env, s0, A.as_action(runner.spec, a))
            rep.evaluated(1)
            rep.count("static_argument_pairs")
            if digest_decoded(dec_pair(s, t)) != d1:
                viol("static_argument_jit_equals_own_jit", {"call": tag})
    except Exception as e:
        viol("static_argument_jit_raises", {"error": repr(e)[:300]})

    # ---- 2e. new-style typed keys ("all keys"): jax.random.key(n) carries the same bits as PRNGKey(n), so reset and the steps
    # that follow must give the same states and timesteps, the key leaf apart from its representation
    try:
        def untyped(tr):
            return jax.tree_util.tree_map(lambda x: jax.random.key_data(x) if jnp.issubdtype(getattr(x, "dtype", jnp.int32), jax.dtypes.prng_key) else x, tr)

        for (key, kint) in keys[:2]:
            tk = jax.random.wrap_key_data(jnp.asarray(key, jnp.uint32))
            s_t, t_t = jax.jit(env.reset)(tk)
            s_l, t_l = runner.reset(key)
            rep.evaluated(1)
            rep.count("typed_key_pairs")
            bad = tree_diff(dec_pair(untyped(s_t), t_t), dec_pair(s_l, t_l), exact=False, rtol=1e-5, atol=1e-6)
            for i in range(3):
                if bad or int(np.asarray(t_l.step_type)) == 2:
                    break
                a = A.as_action(runner.spec, A.sample_masked(name, runner.spec, A.get_mask(t_l), rng)[0] if i % 2 == 0 else A.sample_random(runner.spec, rng))
                s_t, t_t = jax.jit(env.step)(s_t, a)
                s_l, t_l = runner.step(s_l, a)
                rep.evaluated(1)
                rep.count("typed_key_pairs")
                bad = tree_diff(dec_pair(untyped(s_t), t_t), dec_pair(s_l, t_l), exact=False, rtol=1e-5, atol=1e-6)
            if bad:
                viol("typed_key_equals_legacy_key", {"key": kint, "fields": bad[:6]})
    except Exception as e:
        viol("typed_key_raises", {"error": repr(e)[:300]})

    # ---- 2d. one state stepped twice inside a single trace ---------------------------------------------------------------
    # (an expansion `[env.step(s, a) for a in actions]` inside one jitted function: a step that writes into its argument would
    # hand the second call a modified state, although every separately jitted call is unaffected)
    try:
        twice = jax.jit(lambda s_, a_, b_: (env.step(s_, a_), env.step(s_, b_), env.step(s_, a_)))
        for idx in range(0, len(calls) - 1, max(1, (len(calls) - 1) // 4)):
            (s0, a, tag, _), (_, b, tag_b, _) = calls[idx], calls[idx + 1]
            aj, bj = A.as_action(runner.spec, a), A.as_action(runner.spec, b)
            r1, r2, r3 = twice(s0, aj, bj)
            e1, e2 = runner.step(s0, a), runner.step(s0, b)
            rep.evaluated(3)
            rep.count("same_state_twice_in_one_trace")
            for got, exp, nm in ((r1, e1, "first"), (r2, e2, "second"), (r3, e1, "third (repeat of the first)")):
                bad = tree_diff(dec_pair(*got), dec_pair(*exp), exact=False, rtol=1e-5, atol=1e-6)
                if bad:
                    viol("same_state_stepped_twice_in_one_trace", {"call": tag, "which": nm, "fields": bad[:6]})
                    break
    except Exception as e:
        viol("same_state_twice_in_one_trace_raises", {"error": repr(e)[:300]})

    # constructor arguments shared by both instances (NumPy databases, maze lists) must still hold what the caller put in
    if E.shared_args_count():
        rep.evaluated(1)
        rep.count("shared_constructor_arguments_checked")
        for pr in E.shared_args_problems():
            viol("constructor_argument_mutated", {"problem": pr})

    # the last objects constructed before the new traces below are siblings, not instances of this configuration
    build_siblings()

    # ---- 5. jaxpr effects ------------------------------------------------------------------------------
    try:
        jp_r = jax.make_jaxpr(env.reset)(keys[0][0])
        s0_, a0_ = calls[0][0], A.as_action(runner.spec, calls[0][1])
        jp_s = jax.make_jaxpr(env.step)(s0_, a0_)
        for nm, jp in (("reset", jp_r), ("step", jp_s)):
            rep.evaluated(1)
            rep.count("jaxprs_inspected")
            txt = str(jp)
            if len(jp.effects) > 0 or "callback" in txt or "debug_print" in txt:
                viol("jaxpr_has_effects", {"fn": nm, "effects": [str(e) for e in jp.effects][:5], "callback_in_text": "callback" in txt})
    except Exception as e:
        viol("make_jaxpr_raises", {"error": repr(e)[:300]})

    # ---- 3b. vmap ---------------------------------------------------------------------------------------
    tol = dict(exact=False, rtol=1e-5, atol=1e-6)
    bsizes = [1, 3] if tier == "quick" else [1, 2, 5]
    vreset = jax.jit(jax.vmap(env.reset))
    vstep = jax.jit(jax.vmap(env.step))
    for b in bsizes:
        ks = [jax.random.PRNGKey(int(rng.integers(0, 2**31 - 1))) for _ in range(b)]
        try:
            bs, bt = vreset(jnp.stack(ks))
        except Exception as e:
            viol("vmap_reset_raises", {"batch": b, "error": repr(e)[:300]})
            continue
        for i in range(b):
            s, t = runner.reset(ks[i])
            bad = tree_diff(dec_pair(slice_tree(bs, i), slice_tree(bt, i)), dec_pair(s, t), **tol)
            rep.evaluated(1)
            rep.count("vmap_pairs")
            if bad:
                viol("vmap_reset_equals_single", {"batch": b, "index": i, "fields": bad[:6]})
        sel = [calls[int(rng.integers(len(calls)))] for _ in range(b)]
        try:
            bs, bt = vstep(stack_trees([c[0] for c in sel]), jnp.stack([A.as_action(runner.spec, c[1]) for c in sel]))
        except Exception as e:
            viol("vmap_step_raises", {"batch": b, "error": repr(e)[:300]})
            continue
        for i in range(b):
            s, t = runner.step(sel[i][0], sel[i][1])
            dp = dec_pair(s, t)
            bad = tree_diff(dec_pair(slice_tree(bs, i), slice_tree(bt, i)), dp, **tol)
            rep.evaluated(1, digest_decoded(dp))
            rep.count("vmap_pairs")
            if bad:
                viol("vmap_step_equals_single", {"batch": b, "index": i, "call": sel[i][2], "fields": bad[:6]})

    # ---- 3c. scan ---------------------------------------------------------------------------------------
    for n in ([1, 7] if tier == "quick" else [1, 7, 25]):
        key, kint = keys[0]
        s0, t0 = runner.reset(key)
        acts = [A.sample_masked(runner.env_name, runner.spec, None, rng)[0] for _ in range(n)]
        # masked where possible: walk the python loop first to choose sensible actions
        loop = []
        s, t = s0, t0
        acts = []
        for i in range(n):
            a = A.sample_masked(runner.env_name, runner.spec, A.get_mask(t), rng)[0] if rng.random() < 0.8 else A.sample_random(runner.spec, rng)
            acts.append(A.as_action(runner.spec, a))
            s, t = runner.step(s, a)
            loop.append((s, t))
        try:
            final, (ss, tt) = jax.jit(lambda st, xs: jax.lax.scan(lambda c, x: (lambda r: (r[0], r))(env.step(c, x)), st, xs))(s0, jnp.stack(acts))
        except Exception as e:
            viol("scan_raises", {"n": n, "error": repr(e)[:300]})
            continue
        for i in range(n):
            dp = dec_pair(*loop[i])
            bad = tree_diff(dec_pair(slice_tree(ss, i), slice_tree(tt, i)), dp, **tol)
            rep.evaluated(1, digest_decoded(dp))
            rep.count("scan_pairs")
            if bad:
                viol("scan_equals_loop", {"n": n, "index": i, "fields": bad[:6], "key": kint, "actions": [np.asarray(a).tolist() for a in acts]})
        bad = tree_diff(decode(final), decode(loop[-1][0]), **tol)
        if bad:
            viol("scan_final_state", {"n": n, "fields": bad[:6]})

    # ---- 3a + 4. eager vs jit, arguments untouched -----------------------------------------------------
    if shard.get("eager"):
        key, kint = keys[0]
        with jax.disable_jit():
            pass  # (documented switch; plain python calls below are eager already)
        try:
            kb = np.asarray(key).copy()
            es, et = env.reset(key)
            rep.evaluated(1)
            rep.count("eager_pairs")
            if not np.array_equal(np.asarray(key), kb):
                viol("argument_mutated", {"call": "reset", "what": "key"})
            s, t = runner.reset(key)
            bad = tree_diff(_canon(dec_pair(es, et)), _canon(dec_pair(s, t)), **tol)
            if bad:
                viol("eager_reset_equals_jit", {"fields": bad[:6], "key": kint})
            # a result handed out earlier must not be touched by a later call (hidden shared objects)
            snap_first = snapshot((es, et))
            es_b, et_b = env.reset(jax.random.PRNGKey((kint + 12345) % (2**31 - 1)))
            rep.evaluated(1)
            rep.count("earlier_result_snapshots")
            diffs = value_changes(snapshot_diff(snap_first, snapshot((es, et))), rep, f"{name}/{cid} reset;reset")
            if diffs:
                viol("earlier_result_mutated_by_later_call", {"call": "reset(k1); reset(k2)", "changes": diffs[:6]})
            es_c, et_c = env.reset(key)
            bad = tree_diff(_canon(dec_pair(es_c, et_c)), _canon(dec_pair(s, t)), **tol)
            if bad:
                viol("history_independence", {"call": "eager reset repeated after another eager reset", "fields": bad[:6]})
        except Exception as e:
            viol("eager_reset_raises", {"error": repr(e)[:300]})
            es = None
        n_eager = 6 if tier == "quick" else 12  # long enough to reach the end of short episodes (4-block FlatPack, 5-city TSP ...)
        cur = es
        if cur is not None:
            # eager chain from the eager reset state + eager calls on collected jitted states
            chain_ts = et
            for i in range(n_eager):
                a = A.sample_masked(name, runner.spec, A.get_mask(chain_ts), rng)[0] if i % 3 != 2 else A.sample_random(runner.spec, rng)
                aj = A.as_action(runner.spec, a)
                snap = snapshot(cur)
                ab = np.asarray(aj).copy()
                try:
                    ns, nt = env.step(cur, aj)
                except Exception as e:
                    viol("eager_step_raises", {"error": repr(e)[:300], "i": i})
                    break
                after = snapshot(cur)
                rep.evaluated(2)
                rep.count("eager_pairs")
                rep.count("argument_snapshots")
                diffs = value_changes(snapshot_diff(snap, after), rep, f"{name}/{cid} eager step")
                if diffs or not np.array_equal(np.asarray(aj), ab):
                    viol("argument_mutated", {"call": f"eager step {i}", "changes": diffs[:6]}, qualifier=";".join(sorted({d.split(":")[0] for d in diffs}))[:80])
                js, jt = runner.step(cur, a)
                dp = _canon(dec_pair(js, jt))
                bad = tree_diff(_canon(dec_pair(ns, nt)), dp, **tol)
                rep.digests.add(digest_decoded(dp))
                if bad:
                    viol("eager_step_equals_jit", {"fields": bad[:6], "i": i, "action": np.asarray(a).tolist(), "key": kint})
                if int(np.asarray(nt.step_type)) == 2:
                    break
                cur, chain_ts = ns, nt
            # the same with writable NumPy copies of the state (host copies / restored checkpoints): an in-place
            # update would go through to the caller's buffers. Environments that do not accept NumPy leaves at all
            # are only counted.
            for (s0, a, tag, kint2) in calls[:: max(1, len(calls) // 2)][:2]:
                np_state = jax.tree_util.tree_map(lambda x: np.array(x), s0)
                snap = snapshot(np_state)
                try:
                    ns, nt = env.step(np_state, A.as_action(runner.spec, a))
                except Exception:
                    rep.count("numpy_state_not_accepted")
                    continue
                rep.evaluated(2)
                rep.count("numpy_state_snapshots")
                diffs = value_changes(snapshot_diff(snap, snapshot(np_state)), rep, f"{name}/{cid} NumPy-leaf state")
                if diffs:
                    viol("argument_mutated", {"call": tag + " (NumPy-leaf state)", "changes": diffs[:6]}, qualifier="numpy_state;" + ";".join(sorted({d.split(":")[0] for d in diffs}))[:60])
                js, jt = runner.step(s0, a)
                bad = tree_diff(_canon(dec_pair(ns, nt)), _canon(dec_pair(js, jt)), **tol)
                if bad:
                    viol("eager_step_equals_jit", {"fields": bad[:6], "call": tag + " (NumPy-leaf state)"})
            pass
    # eager calls on collected (jitted) states: on every shard for the transitions in which something happens, and on the
    # eager shards also for a spread of ordinary ones
    if True:
        if True:
            ev_calls = [c for c in calls if "-event-" in c[2]]
            sel_calls = ev_calls[: (3 if tier == "quick" else 8)]
            if shard.get("eager"):
                sel_calls = calls[:: max(1, len(calls) // 3)][:3] + sel_calls
            for (s0, a, tag, kint2) in sel_calls:
                if "-event-" in tag:
                    rep.count("eager_event_transitions")
                snap = snapshot(s0)
                try:
                    ns, nt = env.step(s0, A.as_action(runner.spec, a))
                except Exception as e:
                    viol("eager_step_raises", {"error": repr(e)[:300], "call": tag})
                    continue
                diffs = value_changes(snapshot_diff(snap, snapshot(s0)), rep, f"{name}/{cid} eager step on collected state")
                rep.evaluated(2)
                rep.count("eager_pairs")
                rep.count("argument_snapshots")
                if diffs:
                    viol("argument_mutated", {"call": tag, "changes": diffs[:6]}, qualifier=";".join(sorted({d.split(":")[0] for d in diffs}))[:80])
                js, jt = runner.step(s0, a)
                bad = tree_diff(_canon(dec_pair(ns, nt)), _canon(dec_pair(js, jt)), **tol)
                if bad:
                    viol("eager_step_equals_jit", {"fields": bad[:6], "call": tag})

    # ---- 3d. jax.disable_jit(): JAX's own "plain Python" mode, in which lax.cond / scan / while_loop bodies are ordinary Python
    # calls on the caller's objects - a branch that writes into its operand reaches the argument of step
    if shard.get("eager"):
        ev_calls = [c for c in calls if "-event-" in c[2]]
        for (s0, a, tag, kint2) in (calls[len(calls) // 2: len(calls) // 2 + 1] + ev_calls[:1]):
            snap = snapshot(s0)
            try:
                with jax.disable_jit():
                    ns, nt = env.step(s0, A.as_action(runner.spec, a))
            except Exception as e:
                viol("disable_jit_step_raises", {"error": repr(e)[:300], "call": tag})
                continue
            rep.evaluated(2)
            rep.count("disable_jit_steps")
            diffs = value_changes(snapshot_diff(snap, snapshot(s0)), rep, f"{name}/{cid} step under disable_jit")
            if diffs:
                viol("argument_mutated", {"call": tag + " (jax.disable_jit)", "changes": diffs[:6]}, qualifier="disable_jit;" + ";".join(sorted({d.split(":")[0] for d in diffs}))[:60])
            js, jt = runner.step(s0, a)
            bad = tree_diff(_canon(dec_pair(ns, nt)), _canon(dec_pair(js, jt)), exact=False, rtol=1e-5, atol=1e-6)
            if bad:
                viol("eager_step_equals_jit", {"fields": bad[:6], "call": tag + " (jax.disable_jit)"}, qualifier="disable_jit")

    # ---- 2b. cross-process digest (thorough) -----------------------------------------------------------
    if shard.get("xproc"):
        mine = [d for _, d in first[: len(keys)]]
        try:
            p = subprocess.run(
                [sys.executable, "-m", "jmon.props.c02", json.dumps({"env": name, "cfg": cfg, "keys": [k for _, k in keys]})],
                cwd=ROOT, capture_output=True, text=True, timeout=600, env=dict(os.environ),
            )
            other = json.loads(p.stdout.strip().splitlines()[-1])
            rep.evaluated(len(mine))
            rep.count("cross_process_pairs", len(mine))
            if other != mine:
                viol("cross_process_reset", {"mine": mine, "other": other})
        except Exception as e:
            rep.inconclusive.append(f"cross-process child failed: {e!r}"[:300])

    rep.sample({"env": name, "cfg": cid, "calls": [c[2] for c in calls][:6], "first_digests": first[:4], "modes": ["jit", "fresh instance", "vmap", "scan"] + (["eager"] if shard.get("eager") else [])})
    rep.states += len(calls)
    rep.transitions += len(calls) * 3
    rep.env_count(name, "calls", len(calls))
    E.cleanup()


def _canon(d: Dict[str, np.ndarray]) -> Dict[str, np.ndarray]:
    """Eager mode may hand back Python scalars / weak types: canonicalise dtypes via jnp.asarray semantics
    (values are compared; a Python bool/int/float leaf is mapped to the JAX default dtype)."""
    out = {}
    for k, v in d.items():
        a = np.asarray(v)
        if a.dtype == np.int64:
            a = a.astype(np.int32)
        elif a.dtype == np.float64:
            a = a.astype(np.float32)
        out[k] = a
    return out


def floors(tier: str, counters: Dict[str, int], per_env: Dict[str, Dict[str, int]]) -> List[str]:
    missed = []
    for e in E.ENVS:
        if per_env.get(e, {}).get("calls", 0) < 4:
            missed.append(f"{e}: fewer than 4 calls compared")
    for c in ("history_pairs", "fresh_instance_pairs", "vmap_pairs", "scan_pairs", "eager_pairs", "argument_snapshots", "jaxprs_inspected"):
        if counters.get(c, 0) < len(E.ENVS):
            missed.append(f"clause {c} evaluated fewer than {len(E.ENVS)} times")
    return missed


if __name__ == "__main__":
    # child mode for the cross-process digest
    from jmon.common import setup_jax

    setup_jax()
    import jax
    from jmon.rollout import Runner

    spec = json.loads(sys.argv[1])
    r = Runner(spec["env"], spec["cfg"])
    out = []
    for k in spec["keys"]:
        s, t = r.reset(jax.random.PRNGKey(k))
        out.append(digest_decoded(dec_pair(s, t)))
    print(json.dumps(out))
