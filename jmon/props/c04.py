"""C04 — model-based runtime monitor (see DESIGN §3 C04; machinery in _model_prop.py, rules in jmon/models/)."""
from jmon.props import _model_prop as MP

RULE = "the action mask of every non-terminal state met along masked / mixed / random / invalid-late rollouts (and the successors of the probes) is compared entry by entry with an independent NumPy statement of the rules; at probed states every action of the space (<=512, else a stratified sample of masked-in and masked-out actions; per-agent single deviations for multi-agent masks) is stepped and the environment's own reaction (accepted / treated as invalid) is compared with the mask entry; distinct by (environment, configuration, state digest)"
ASSUMPTIONS = ["PacMan's no-op column is not judged (documentation and code disagree; the mask hard-codes False)", 'the rule sheets of DESIGN §4 are the reference reading of the documentation']
SHARD_TIMEOUT = MP.SHARD_TIMEOUT


def shards(tier, seed):
    return MP.shards_for("C04", tier, seed)


def run_shard(shard, rep):
    MP.run_model_shard("C04", shard, rep)


def floors(tier, counters, per_env):
    return MP.model_floors("C04", tier, counters, per_env, "states_rule_checked", 5, extra=EXTRA_FLOORS)


def EXTRA_FLOORS(counters, per_env):
    return []
