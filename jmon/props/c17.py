"""C17 — permutation puzzles obey their group laws and stay solvable (DESIGN §3 C17)."""
from __future__ import annotations

import itertools
from typing import Any, Dict, List

import numpy as np

from jmon.common import Report, key_for, shard_rng

RULE = (
    "RubiksCube: for every size 2..7 (quick: 2..5) and every move (face, depth < n//2, amount) the real rotate_cube is executed "
    "on a cube whose 6n^2 stickers are all distinct and compared with a geometric reference permutation (rotation of the "
    "slice about the face normal under the documented viewing conventions) - exhaustive over moves, universal over "
    "colourings; group identities, action encodings, is_solved, env.step on real colours and generator reachability are "
    "checked on the same executions. SlidingTilePuzzle: BFS of the whole reachable state space of the 2x2 (and, thorough, 3x3) "
    "puzzle driven through the real jit(vmap(env.step)), every transition compared with the reference swap; larger grids by "
    "random walks; generator outputs by the parity criterion. Distinct by (size, move) / puzzle state"
)
ASSUMPTIONS = [
    "documented viewing conventions: UP (L left, B up), FRONT (L left, U up), RIGHT (F left, U up), BACK (R left, U up), LEFT (B left, U up), DOWN (L left, F up)",
    "a clockwise turn of face F is the -90 degree rotation about F's outward normal; depth d turns only the d-th slice",
    "the reset cube is the reference replay of the generator's own scramble draw (public generate_actions_for_scramble) on a key derived from the reset key",
]
SHARD_TIMEOUT = {"quick": 1500, "thorough": 3400}
U, F, R, B, L, D = range(6)


def shards(tier: str, seed: int) -> List[Dict[str, Any]]:
    sizes = [2, 3, 4, 5] if tier == "quick" else [2, 3, 4, 5, 6, 7]
    out = [{"id": f"rubik|n{n}", "kind": "rubik", "n": n, "weight": 1.0 + n / 2} for n in sizes]
    out.append({"id": "sliding|g2", "kind": "sliding_full", "g": 2, "weight": 1.0})
    out.append({"id": "sliding|g3", "kind": "sliding_full", "g": 3, "cap": 20000 if tier == "quick" else None, "weight": 6.0})
    # 4x4 and 5x5: a bounded breadth-first sweep around the goal plus the ordered-looking boards
    out.append({"id": "sliding|g5", "kind": "sliding_full", "g": 5, "cap": 3000 if tier == "quick" else 40000, "weight": 3.0})
    out.append({"id": "sliding|g4", "kind": "sliding_full", "g": 4, "cap": 3000 if tier == "quick" else 40000, "weight": 3.0})
    out.append({"id": "sliding|walks", "kind": "sliding_walks", "weight": 2.0})
    return out


# ------------------------------------------------------------------------------------------- cube geometry

def sticker_geom(n):
    pos = np.zeros((6, n, n, 3), int)
    nrm = np.zeros((6, 3), int)
    for r in range(n):
        for c in range(n):
            pos[U, r, c] = (c, n - 1 - r, n - 1)
            pos[F, r, c] = (c, 0, n - 1 - r)
            pos[R, r, c] = (n - 1, c, n - 1 - r)
            pos[B, r, c] = (n - 1 - c, n - 1, n - 1 - r)
            pos[L, r, c] = (0, n - 1 - c, n - 1 - r)
            pos[D, r, c] = (c, r, 0)
    nrm[U], nrm[F], nrm[R], nrm[B], nrm[L], nrm[D] = (0, 0, 1), (0, -1, 0), (1, 0, 0), (0, 1, 0), (-1, 0, 0), (0, 0, -1)
    return pos, nrm


def rotmat(axis, k):
    ax = np.array(axis)

    def r90(v):
        return np.cross(ax, v) + ax * np.dot(ax, v)

    M = np.eye(3, dtype=int)
    for _ in range(k % 4):
        M = np.array([r90(M[:, i]) for i in range(3)]).T
    return M


def ref_perm(n, face, depth, amount):
    """new_cube.flat = old_cube.flat[perm] for the move (face, depth, amount); amount 0 cw, 1 ccw, 2 half."""
    pos, nrm = sticker_geom(n)
    ax = nrm[face]
    k = {0: -1, 1: 1, 2: 2}[amount]
    M = rotmat(ax, k)
    centre = (n - 1) / 2
    idx = {}
    for f in range(6):
        for r in range(n):
            for c in range(n):
                idx[(tuple(pos[f, r, c]), tuple(nrm[f]))] = (f, r, c)
    src = np.arange(6 * n * n).reshape(6, n, n)
    new = src.copy()
    for f in range(6):
        for r in range(n):
            for c in range(n):
                p = pos[f, r, c]
                coord = int(np.dot(p, ax))
                layer = (n - 1 - depth) if ax.sum() > 0 else -depth
                if coord != layer:
                    continue
                q = np.rint(M @ (p - centre) + centre).astype(int)
                m = M @ nrm[f]
                f2, r2, c2 = idx[(tuple(q), tuple(m))]
                new[f2, r2, c2] = src[f, r, c]
    return new.ravel()


def run_rubik(shard, rep: Report) -> None:
    import jax
    import jax.numpy as jnp
    from jumanji.environments import RubiksCube
    from jumanji.environments.logic.rubiks_cube import utils as ru
    from jumanji.environments.logic.rubiks_cube.generator import ScramblingGenerator

    n = shard["n"]
    tier, seed, sid = shard["tier"], shard["seed"], shard["id"]
    rng = shard_rng(seed, sid)
    name, cid = "RubiksCube", f"n{n}"

    def viol(clause, detail, qualifier=""):
        rep.violation(name, cid, clause, detail, replay={"cube_size": n, **{k: v for k, v in detail.items() if k in ("face", "depth", "amount", "action")}}, qualifier=qualifier)

    nd = n // 2
    moves = [(f, d, a) for f in range(6) for d in range(nd) for a in range(3)]
    labels = jnp.arange(6 * n * n, dtype=jnp.int32).reshape(6, n, n)
    rc = jax.jit(ru.rotate_cube)
    got_perm, refp = {}, {}
    # encodings
    n_flat = 18 * nd
    for fa in range(n_flat):
        rep.evaluated(1)
        un = np.asarray(ru.unflatten_action(jnp.asarray(fa), n))
        back = int(ru.flatten_action(jnp.asarray(un), n))
        if back != fa or not (0 <= un[0] < 6 and 0 <= un[1] < max(nd, 1) and 0 <= un[2] < 3):
            viol("flatten_unflatten_inverse", {"flat": fa, "unflat": un.tolist(), "back": back})
    flats = set()
    for (f, d, a) in moves:
        fa = int(ru.flatten_action(jnp.asarray([f, d, a]), n))
        un = np.asarray(ru.unflatten_action(jnp.asarray(fa), n)).tolist()
        rep.evaluated(1)
        rep.count("encoding_pairs")
        flats.add(fa)
        if un != [f, d, a] or not (0 <= fa < n_flat):
            viol("unflatten_flatten_inverse", {"face": f, "depth": d, "amount": a, "flat": fa, "unflat": un})
    if len(flats) != len(moves):
        viol("flatten_is_injective", {"distinct": len(flats), "moves": len(moves)})
    # every move vs geometric reference (universal over colourings)
    for (f, d, a) in moves:
        fa = ru.flatten_action(jnp.asarray([f, d, a]), n)
        out = np.asarray(rc(labels, fa)).ravel()
        got_perm[(f, d, a)] = out
        refp[(f, d, a)] = ref_perm(n, f, d, a)
        rep.evaluated(1, f"n{n}f{f}d{d}a{a}")
        rep.count("moves_vs_geometry")
        if sorted(out.tolist()) != list(range(6 * n * n)):
            viol("move_conserves_pieces", {"face": f, "depth": d, "amount": a})
        if not np.array_equal(out, refp[(f, d, a)]):
            nbad = int((out != refp[(f, d, a)]).sum())
            viol("move_equals_physical_turn", {"face": f, "depth": d, "amount": a, "stickers_wrong": nbad}, qualifier=f"face{f}")
    rep.exhaustive[f"rubik_moves_n{n}"] = {"moves": len(moves), "exhaustive": True}
    # group identities on the repository's own permutations
    ident = np.arange(6 * n * n)

    def comp(p, q):  # apply p then q: result[i] = p[q[i]]... new = old[perm]; applying q after p: new2 = new1[q] = old[p][q]
        return p[q]

    for f in range(6):
        for d in range(nd):
            cw, ccw, half = got_perm[(f, d, 0)], got_perm[(f, d, 1)], got_perm[(f, d, 2)]
            rep.evaluated(4)
            rep.count("group_identities", 4)
            if not np.array_equal(comp(cw, ccw), ident) or not np.array_equal(comp(ccw, cw), ident):
                viol("cw_undone_by_ccw", {"face": f, "depth": d})
            if not np.array_equal(comp(cw, cw), half):
                viol("half_equals_two_quarters", {"face": f, "depth": d})
            if not np.array_equal(comp(comp(comp(cw, cw), cw), cw), ident):
                viol("four_quarters_identity", {"face": f, "depth": d})
            if not np.array_equal(comp(half, half), ident):
                viol("two_halves_identity", {"face": f, "depth": d})
    for (fa_, fb_) in ((U, D), (F, B), (R, L), (U, U), (F, F), (R, R), (B, B), (L, L), (D, D)):
        for d1 in range(nd):
            for d2 in range(nd):
                for a1 in range(3):
                    for a2 in range(3):
                        p, q = got_perm[(fa_, d1, a1)], got_perm[(fb_, d2, a2)]
                        rep.evaluated(1)
                        rep.count("same_axis_commutation")
                        if not np.array_equal(comp(p, q), comp(q, p)):
                            viol("same_axis_moves_commute", {"m1": [fa_, d1, a1], "m2": [fb_, d2, a2]})
    # is_solved
    solved = np.asarray(ru.make_solved_cube(n))
    isol = jax.jit(ru.is_solved)
    rep.evaluated(1)
    if not bool(isol(jnp.asarray(solved))):
        viol("is_solved_accepts_goal", {})
    for _ in range(40):
        c = solved.copy()
        f1, f2 = rng.choice(6, 2, replace=False)
        i1, j1, i2, j2 = rng.integers(0, n, 4)
        c[f1, i1, j1], c[f2, i2, j2] = c[f2, i2, j2], c[f1, i1, j1]
        rep.evaluated(1)
        rep.count("is_solved_probes")
        if bool(isol(jnp.asarray(c))):
            viol("is_solved_rejects_non_goal", {"swap": [int(f1), int(i1), int(j1), int(f2), int(i2), int(j2)]})
    # even sizes have no fixed centre stickers: turning every slice about one axis rotates the whole cube, which stays solved
    # (each face a single colour) although it is not the array make_solved_cube returns. The rotated goals are built with the
    # reference permutations, then (a) is_solved must accept them, (b) the real environment, started from the goal, must
    # report solved (reward 1, LAST) on the move that completes the rotation - and not before.
    if n % 2 == 0:
        opp = {U: D, F: B, R: L}
        inv_amt = {0: 1, 1: 0, 2: 2}
        env0 = RubiksCube(generator=ScramblingGenerator(cube_size=n, num_scrambles_on_reset=0), time_limit=10 * n)
        step0 = jax.jit(env0.step)
        for f in (U, F, R):
            for amt in (0, 1, 2):
                word = [(f, d, amt) for d in range(nd)] + [(opp[f], d, inv_amt[amt]) for d in range(nd)][::-1]
                c = solved.ravel().copy()
                st0, _ = jax.jit(env0.reset)(jax.random.PRNGKey(0))
                for i, mv in enumerate(word):
                    c = c[refp[mv]]
                    st0, ts0 = step0(st0, jnp.asarray(mv, jnp.int32))
                    uniform = bool((c.reshape(6, -1).max(1) == c.reshape(6, -1).min(1)).all())
                    rep.evaluated(1)
                    rep.count("rotated_goal_steps")
                    if not np.array_equal(np.asarray(st0.cube).ravel(), c):
                        viol("env_step_equals_physical_turn", {"action": list(mv), "where": "whole-cube rotation"})
                        break
                    if bool(isol(jnp.asarray(c.reshape(6, n, n)))) != uniform:
                        viol("is_solved_iff_faces_uniform", {"where": "whole-cube rotation", "face": f, "amount": amt, "moves_done": i + 1, "faces_uniform": uniform}, qualifier="rotated_goal")
                    if float(ts0.reward) != float(uniform) or (int(np.asarray(ts0.step_type)) == 2) != uniform:
                        viol("env_step_reward_and_last", {"where": "whole-cube rotation", "reward": float(ts0.reward), "solved": uniform, "step_type": int(np.asarray(ts0.step_type))}, qualifier="rotated_goal")
                    if uniform:
                        rep.count("rotated_goals_reached")
                        if not np.array_equal(c.reshape(6, n, n), solved):
                            rep.count("rotated_goals_other_orientation")
                        break
    # the solved test behind termination must look at the cube, whatever reward function is plugged in (documented option
    # `reward_fn`): with a dense "fraction of stickers in place" reward and with a move-penalty reward, a quarter turn away from
    # the goal and back must give MID (unsolved) then LAST (solved) - never LAST on an unsolved cube
    from jumanji.environments.logic.rubiks_cube import reward as rrew

    class FractionInPlace(rrew.RewardFn):
        def __call__(self, state):
            goal = ru.make_solved_cube(n)
            return jnp.mean((state.cube == goal).astype(jnp.float32))

    class MovePenalty(rrew.RewardFn):
        def __call__(self, state):
            return jnp.where(ru.is_solved(state.cube), 0.0, -1.0)

    for RF in (FractionInPlace, MovePenalty):
        envc = RubiksCube(generator=ScramblingGenerator(cube_size=n, num_scrambles_on_reset=0), time_limit=50, reward_fn=RF())
        stepc = jax.jit(envc.step)
        stc, _ = jax.jit(envc.reset)(jax.random.PRNGKey(1))
        for f in (U, F, R):
            for mv in ((f, 0, 0), (f, 0, 1)):  # clockwise, then anticlockwise: back at the goal
                stc2, tsc = stepc(stc, jnp.asarray(mv, jnp.int32))
                cube = np.asarray(stc2.cube).reshape(6, -1)
                uniform = bool((cube.max(1) == cube.min(1)).all())
                rep.evaluated(1)
                rep.count("custom_reward_fn_cube_steps")
                if (int(np.asarray(tsc.step_type)) == 2) != uniform:
                    viol("termination_iff_cube_solved", {"reward_fn": RF.__name__, "move": list(mv), "faces_uniform": uniform, "step_type": int(np.asarray(tsc.step_type))}, qualifier="custom_reward_fn")
                # continue from the successor unless the episode was (rightly) ended by solving the cube
                stc = stc2 if not uniform else jax.jit(envc.reset)(jax.random.PRNGKey(2))[0]
    # env.step on real colours, generator replay, solving by the inverse word
    scr = 5 if n <= 3 else 3
    for (scrambles, tl) in ((scr, 30), (0, 3), (100, 200)):
        gen = ScramblingGenerator(cube_size=n, num_scrambles_on_reset=scrambles)
        env = RubiksCube(generator=gen, time_limit=tl)
        reset, step = jax.jit(env.reset), jax.jit(env.step)
        n_keys = 3 if tier == "quick" else (40 if scrambles == 100 else 10)
        for ep in range(n_keys):
            key, kint = key_for(seed, sid + f"s{scrambles}", ep)
            st, ts = reset(key)
            cube = np.asarray(st.cube)
            rep.evaluated(1)
            rep.count("reset_states")
            cnt = np.bincount(cube.ravel().astype(int), minlength=6)
            if cube.shape != (6, n, n) or not np.array_equal(cnt, np.full(6, n * n)):
                viol("reset_conserves_pieces", {"counts": cnt.tolist(), "key": kint})
            # reachability certificate: the reference replay of the generator's own draw
            word = None
            for ck in (jax.random.split(key)[1], jax.random.split(key)[0], key):
                acts = np.asarray(gen.generate_actions_for_scramble(ck))
                c = solved.ravel().copy()
                for fa in acts:
                    f_, d_, a_ = np.asarray(ru.unflatten_action(jnp.asarray(int(fa)), n)).tolist()
                    c = c[refp[(f_, d_, a_)]]
                if np.array_equal(c.reshape(6, n, n), cube):
                    word = acts
                    break
            rep.count("generator_replays")
            if word is None:
                viol("reset_state_reachable_from_goal", {"key": kint, "scrambles": scrambles})
                continue
            # solve back with the inverse word through the real env (only short words: within the time limit)
            if scrambles <= 7:
                s2, t2 = st, ts
                inv = {0: 1, 1: 0, 2: 2}
                last_seen = False
                for i, fa in enumerate(word[::-1]):
                    f_, d_, a_ = np.asarray(ru.unflatten_action(jnp.asarray(int(fa)), n)).tolist()
                    prev = np.asarray(s2.cube).ravel()
                    was_solved = bool(isol(s2.cube))
                    if was_solved:
                        break
                    s2, t2 = step(s2, jnp.asarray([f_, d_, inv[a_]], jnp.int32))
                    exp = prev[refp[(f_, d_, inv[a_])]]
                    rep.evaluated(1)
                    rep.count("env_steps_vs_reference")
                    if not np.array_equal(np.asarray(s2.cube).ravel(), exp):
                        viol("env_step_equals_physical_turn", {"action": [f_, d_, inv[a_]], "key": kint})
                    sol = bool((exp.reshape(6, -1).max(1) == exp.reshape(6, -1).min(1)).all())
                    if bool(isol(s2.cube)) != sol:
                        viol("is_solved_iff_faces_uniform", {"key": kint})
                    exp_last = sol or int(s2.step_count) >= tl
                    if float(t2.reward) != float(sol) or (int(np.asarray(t2.step_type)) == 2) != exp_last:
                        viol("env_step_reward_and_last", {"reward": float(t2.reward), "solved": sol, "step_type": int(np.asarray(t2.step_type)), "step_count": int(s2.step_count), "time_limit": tl})
                    if int(np.asarray(t2.step_type)) == 2:
                        last_seen = True
                        break
                rep.count("inverse_word_episodes")
                if scrambles > 0 and not bool(isol(s2.cube)) and int(s2.step_count) < tl:
                    viol("reset_state_solvable_by_inverse_word", {"key": kint, "word": word.tolist()})
                elif scrambles > 0:
                    rep.count("solved_by_inverse_word")
            # a few arbitrary steps on real colours
            s2 = st
            for i in range(6):
                a = [int(rng.integers(0, 6)), int(rng.integers(0, max(nd, 1))), int(rng.integers(0, 3))]
                prev = np.asarray(s2.cube).ravel()
                s2, t2 = step(s2, jnp.asarray(a, jnp.int32))
                exp = prev[refp[tuple(a)]]
                rep.evaluated(1)
                rep.count("env_steps_vs_reference")
                if not np.array_equal(np.asarray(s2.cube).ravel(), exp):
                    viol("env_step_equals_physical_turn", {"action": a, "key": kint})
                sol = bool((exp.reshape(6, -1).max(1) == exp.reshape(6, -1).min(1)).all())
                if bool(isol(s2.cube)) != sol:
                    viol("is_solved_iff_faces_uniform", {"key": kint})
                if int(np.asarray(t2.step_type)) == 2:
                    # a fixed-length rollout keeps stepping after the episode has ended (time limit or solved): the action is
                    # still the same fixed permutation of the stickers
                    if i < 5:
                        rep.count("env_steps_after_last")
                    if int(rng.integers(0, 2)) == 0:
                        break
    rep.sample({"cube_size": n, "moves_checked": len(moves), "example_move": [0, 0, 0], "reference_perm_head": refp[(0, 0, 0)][:12].tolist()})
    rep.env_count("RubiksCube", "sizes")


# ------------------------------------------------------------------------------------------- sliding puzzle

MOVES = [(-1, 0), (0, 1), (1, 0), (0, -1)]
OPP = {0: 2, 1: 3, 2: 0, 3: 1}


def ref_slide(p: np.ndarray, a: int):
    g = p.shape[0]
    (r,), (c,) = np.where(p == 0)
    nr, nc = r + MOVES[a][0], c + MOVES[a][1]
    if not (0 <= nr < g and 0 <= nc < g):
        return p, False
    q = p.copy()
    q[r, c], q[nr, nc] = q[nr, nc], 0
    return q, True


def solvable(p: np.ndarray, goal: np.ndarray) -> bool:
    """Parity criterion: p is reachable from goal iff permutation parity == parity of the blank's Manhattan distance."""
    g = p.shape[0]
    where_goal = {int(v): i for i, v in enumerate(goal.ravel())}
    perm = [where_goal[int(v)] for v in p.ravel()]
    seen, cycles = [False] * len(perm), 0
    for i in range(len(perm)):
        if not seen[i]:
            cycles += 1
            j = i
            while not seen[j]:
                seen[j] = True
                j = perm[j]
    perm_parity = (len(perm) - cycles) % 2
    (r,), (c,) = np.where(p == 0)
    (gr,), (gc,) = np.where(goal == 0)
    return perm_parity == (abs(r - gr) + abs(c - gc)) % 2


def run_sliding_full(shard, rep: Report) -> None:
    import jax
    import jax.numpy as jnp
    from jumanji.environments import SlidingTilePuzzle
    from jumanji.environments.logic.sliding_tile_puzzle.generator import RandomWalkGenerator

    g = shard["g"]
    cap = shard.get("cap")
    name, cid = "SlidingTilePuzzle", f"g{g}"
    env = SlidingTilePuzzle(RandomWalkGenerator(g, 5), time_limit=10**6)
    goal = np.asarray(env.solved_puzzle)
    st0, _ = jax.jit(env.reset)(jax.random.PRNGKey(0))
    vstep = jax.jit(jax.vmap(env.step))

    def viol(clause, detail):
        rep.violation(name, cid, clause, detail, replay={"grid_size": g, **detail})

    def make_states(puzzles: np.ndarray):
        b = len(puzzles)
        pos = np.stack([np.argwhere(p == 0)[0] for p in puzzles]).astype(np.int32)
        return st0.replace(
            puzzle=jnp.asarray(puzzles, st0.puzzle.dtype),
            empty_tile_position=jnp.asarray(pos),
            key=jnp.broadcast_to(st0.key, (b,) + st0.key.shape),
            step_count=jnp.zeros((b,), st0.step_count.dtype),
        )

    seen = {goal.tobytes(): 0}
    order = [goal]
    frontier = [goal]
    trans = 0
    table = {}
    while frontier and (cap is None or len(seen) < cap):
        chunk = frontier[:4096]
        frontier = frontier[4096:]
        P = np.stack(chunk)
        for a in range(4):
            s2, ts = vstep(make_states(P), jnp.full((len(P),), a, jnp.int32))
            N = np.asarray(s2.puzzle)
            E = np.asarray(s2.empty_tile_position)
            M = np.asarray(ts.observation.action_mask)
            last = np.asarray(ts.step_type) == 2
            for i in range(len(P)):
                exp, legal = ref_slide(P[i], a)
                trans += 1
                if not np.array_equal(N[i], exp):
                    viol("move_equals_blank_swap", {"puzzle": P[i].tolist(), "action": a, "got": N[i].tolist()})
                    continue
                if N[i][E[i][0], E[i][1]] != 0:
                    viol("blank_position_consistent", {"puzzle": P[i].tolist(), "action": a})
                if bool(last[i]) != bool(np.array_equal(exp, goal)):
                    viol("done_iff_goal", {"puzzle": P[i].tolist(), "action": a, "last": bool(last[i])})
                exp_mask = [ref_slide(exp, b_)[1] for b_ in range(4)]
                if M[i].tolist() != exp_mask:
                    viol("mask_iff_in_grid", {"puzzle": exp.tolist(), "mask": M[i].tolist()})
                table[(P[i].tobytes(), a)] = (exp.tobytes(), legal)
                k = exp.tobytes()
                if k not in seen:
                    seen[k] = 1
                    frontier.append(exp)
                    order.append(exp)
    # boards that look "ordered" without being the goal (reading order with the blank first, goal with two tiles exchanged
    # twice, rows reversed ...), entered from each of their neighbours: only the goal may end the episode. Solvable ones only.
    n2 = g * g
    specials = [np.arange(n2).reshape(g, g), np.arange(n2)[::-1].reshape(g, g), np.roll(goal.ravel(), 1).reshape(g, g), goal[::-1].copy(), goal[:, ::-1].copy(), goal.T.copy()]
    sw = goal.ravel().copy()
    if n2 >= 5:
        sw[[0, 1]] = sw[[1, 0]]
        sw[[2, 3]] = sw[[3, 2]]
        specials.append(sw.reshape(g, g))
    n_special = 0
    for B in specials:
        B = B.astype(goal.dtype)
        if not solvable(B, goal):
            continue
        for a in range(4):
            Pb, legal = ref_slide(B, OPP[a])
            if not legal:
                continue
            s2, ts = vstep(make_states(Pb[None]), jnp.full((1,), a, jnp.int32))
            n_special += 1
            trans += 1
            if not np.array_equal(np.asarray(s2.puzzle)[0], B):
                viol("move_equals_blank_swap", {"puzzle": Pb.tolist(), "action": a, "got": np.asarray(s2.puzzle)[0].tolist()})
            elif bool(np.asarray(ts.step_type)[0] == 2) != bool(np.array_equal(B, goal)):
                viol("done_iff_goal", {"puzzle": Pb.tolist(), "action": a, "reached": B.tolist(), "last": bool(np.asarray(ts.step_type)[0] == 2)})
    rep.count("ordered_looking_boards_entered", n_special)
    # opposite moves cancel (on the recorded transition table)
    n_cancel = 0
    for (s, a), (s2, legal) in table.items():
        if legal and (s2, OPP[a]) in table:
            n_cancel += 1
            if table[(s2, OPP[a])][0] != s:
                viol("opposite_moves_cancel", {"action": a})
    rep.evaluated(trans)
    rep.count("sliding_transitions", trans)
    rep.count("opposite_moves_checked", n_cancel)
    rep.states += len(seen)
    rep.transitions += trans
    import math

    full = math.factorial(g * g) // 2
    for p in order[:: max(1, len(order) // 2000)]:
        rep.digests.add(p.tobytes().hex()[:24])
    if cap is None:
        rep.exhaustive[f"sliding_{g}x{g}"] = {"states": len(seen), "transitions": trans, "exhaustive": True, "expected_states": full}
        rep.evaluated(1)
        if len(seen) != full:
            viol("reachable_set_is_parity_class", {"visited": len(seen), "expected": full})
    # every visited state must satisfy the parity criterion
    bad = [p for p in order[:5000] if not solvable(p, goal)]
    if bad:
        viol("visited_states_solvable", {"example": bad[0].tolist()})
    rep.sample({"grid_size": g, "states_visited": len(seen), "transitions": trans, "exhaustive": cap is None})
    rep.env_count("SlidingTilePuzzle", "bfs_states", len(seen))


def run_sliding_walks(shard, rep: Report) -> None:
    import jax
    import jax.numpy as jnp
    from jumanji.environments import SlidingTilePuzzle
    from jumanji.environments.logic.sliding_tile_puzzle.generator import RandomWalkGenerator

    tier, seed, sid = shard["tier"], shard["seed"], shard["id"]
    rng = shard_rng(seed, sid)
    name = "SlidingTilePuzzle"
    for g, moves in ((2, 0), (2, 7), (3, 1), (3, 50), (4, 50), (5, 200), (5, 100), (12, 300), (16, 120)):  # 12, 16: tile numbers beyond 8 bits
        cid = f"g{g}m{moves}"
        env = SlidingTilePuzzle(RandomWalkGenerator(g, moves), time_limit=10**6)
        goal = np.asarray(env.solved_puzzle)
        reset, step = jax.jit(env.reset), jax.jit(env.step)
        n_keys = 12 if tier == "quick" else 200

        def viol(clause, detail):
            rep.violation(name, cid, clause, detail, replay={"grid_size": g, "moves": moves, **detail})

        for ep in range(n_keys):
            key, kint = key_for(seed, sid + cid, ep)
            st, ts = reset(key)
            p = np.asarray(st.puzzle)
            rep.evaluated(1, cid + p.tobytes().hex()[:20])
            rep.count("generator_outputs")
            if sorted(p.ravel().tolist()) != list(range(g * g)):
                viol("reset_is_permutation", {"puzzle": p.tolist(), "key": kint})
                continue
            e = np.asarray(st.empty_tile_position)
            if p[e[0], e[1]] != 0:
                viol("reset_blank_consistent", {"puzzle": p.tolist(), "key": kint})
            if not solvable(p, goal):
                viol("reset_state_solvable", {"puzzle": p.tolist(), "key": kint})
            if ep < (2 if tier == "quick" else 6):
                for i in range(60 if tier == "quick" else 200):
                    a = int(rng.integers(0, 4))
                    prev = np.asarray(st.puzzle)
                    st, ts = step(st, jnp.asarray(a, jnp.int32))
                    exp, legal = ref_slide(prev, a)
                    rep.evaluated(1)
                    rep.count("walk_transitions")
                    if not np.array_equal(np.asarray(st.puzzle), exp):
                        viol("move_equals_blank_swap", {"puzzle": prev.tolist(), "action": a})
                        break
                    if int(np.asarray(ts.step_type)) == 2:
                        if not np.array_equal(exp, goal):
                            viol("done_iff_goal", {"puzzle": exp.tolist()})
                        break
    # "state-independent": the step counter is part of the state too. With small and with the default time limit every move
    # up to, on, and after the step that reaches the limit must still be the physical swap, and opposite moves must still cancel
    for g, L in ((2, 1), (3, 2), (3, 5), (4, 12), (5, 500)):
        cid = f"g{g}L{L}"
        env = SlidingTilePuzzle(RandomWalkGenerator(g, 30), time_limit=L)
        reset, step = jax.jit(env.reset), jax.jit(env.step)

        def viol(clause, detail):
            rep.violation(name, cid, clause, detail, replay={"grid_size": g, "time_limit": L, **detail}, qualifier="near_time_limit")

        opposite = {0: 2, 1: 3, 2: 0, 3: 1}
        for ep in range(2 if tier == "quick" else 8):
            key, kint = key_for(seed, sid + cid, ep)
            st, ts = reset(key)
            acts = []
            for i in range(L + 3):
                prev = np.asarray(st.puzzle)
                legal_moves = [a for a in range(4) if ref_slide(prev, a)[1]]
                # around the limit: a legal move followed by its opposite
                if i >= L - 2 and acts and i % 2 == 1 and ref_slide(prev, opposite[acts[-1]])[1]:
                    a = opposite[acts[-1]]
                else:
                    a = int(rng.choice(legal_moves)) if (legal_moves and rng.random() < 0.85) else int(rng.integers(0, 4))
                acts.append(a)
                st, ts = step(st, jnp.asarray(a, jnp.int32))
                exp, _ = ref_slide(prev, a)
                rep.evaluated(1)
                rep.count("walk_transitions")
                if i + 1 >= L:
                    rep.count("moves_on_or_after_time_limit")
                if not np.array_equal(np.asarray(st.puzzle), exp):
                    viol("move_equals_blank_swap", {"puzzle": prev.tolist(), "action": a, "step": i + 1, "key": kint})
                    break
                e = np.asarray(st.empty_tile_position)
                if np.asarray(st.puzzle)[e[0], e[1]] != 0:
                    viol("blank_position_consistent", {"step": i + 1, "key": kint})
                    break
    rep.env_count("SlidingTilePuzzle", "walk_configs", 12)


def run_shard(shard: Dict[str, Any], rep: Report) -> None:
    if shard["kind"] == "rubik":
        run_rubik(shard, rep)
    elif shard["kind"] == "sliding_full":
        run_sliding_full(shard, rep)
    else:
        run_sliding_walks(shard, rep)


def floors(tier: str, counters: Dict[str, int], per_env: Dict[str, Dict[str, int]]) -> List[str]:
    missed = []
    need = {"moves_vs_geometry": 18 * (1 + 1 + 2 + 2), "group_identities": 40, "same_axis_commutation": 100, "env_steps_vs_reference": 100,
            "generator_replays": 20, "solved_by_inverse_word": 8, "sliding_transitions": 48 + 1000, "opposite_moves_checked": 100,
            "generator_outputs": 50, "walk_transitions": 200, "is_solved_probes": 100}
    for k, n in need.items():
        if counters.get(k, 0) < n:
            missed.append(f"clause {k} evaluated {counters.get(k, 0)} < {n} times")
    return missed
