"""C18 — the registry maps each id to one reproducible configuration (DESIGN §3 C18)."""
from __future__ import annotations

import json

import re
from typing import Any, Dict, List, Optional, Tuple

import numpy as np

from jmon.common import Report, decode, digest_decoded, shard_rng

RULE = (
    "seeded generator of id strings over allowed / disallowed alphabets (with and without version suffix, leading zeros, huge "
    "versions, embedded '-v<digits>' in the name, whitespace / newline / slash / empty), judged by an independent id grammar; "
    "random sequences of register / duplicate register / malformed register / make with keyword overrides on a probe "
    "environment class that records its constructor arguments, with a registry snapshot around every call; the shipped ids "
    "are instantiated, checked against their documented configuration and made twice (equal specs, identical reset/step "
    "digests). The real functions also run under icontract contracts (and under the repository's own registration_test.py). "
    "One evaluation = one call judged; distinct by the id string / call sequence"
)
ASSUMPTIONS = [
    "well-formed = '<name>-v<decimal digits>' with a non-empty name over letters, digits and '_' ':' '.' '-'",
    "ids whose version is written with non-ASCII digits or leading zeros are non-canonical: they may be rejected, or must parse to the integer value and be a fixed point after one round trip",
    "Sokoban-v0 needs the HuggingFace dataset (network): reported as not explored",
]
SHARD_TIMEOUT = {"quick": 1500, "thorough": 3000}

ALLOWED = "abcdefghijklmnopqrstuvwxyzABCDEFGHIJKLMNOPQRSTUVWXYZ0123456789_:.-"
BAD_CHARS = [" ", "/", "@", "!", "\n", "\t", "*", "(", "+", "=", ",", "~", "\\", "#", "$", "%", "^", "&", "[", "|", ";", "'", '"', "<", "?"]

SHIPPED = [
    "Game2048-v1", "GraphColoring-v0", "Minesweeper-v0", "RubiksCube-v0", "RubiksCube-partly-scrambled-v0", "Sudoku-v0",
    "Sudoku-very-easy-v0", "BinPack-v2", "FlatPack-v0", "JobShop-v0", "Knapsack-v1", "Tetris-v0", "Cleaner-v0", "Connector-v2",
    "MMST-v0", "CVRP-v1", "MultiCVRP-v0", "Maze-v0", "RobotWarehouse-v0", "Snake-v1", "TSP-v1", "Sokoban-v0", "PacMan-v1",
    "SlidingTilePuzzle-v0", "LevelBasedForaging-v0",
]


def shards(tier: str, seed: int) -> List[Dict[str, Any]]:
    n_ids = 2000 if tier == "quick" else 50000
    out = [{"id": f"registry|ids{i}", "kind": "ids", "count": n_ids // 4, "weight": 1.0} for i in range(4)]
    out += [{"id": f"registry|ops{i}", "kind": "ops", "count": 150 if tier == "quick" else 600, "weight": 1.0} for i in range(2)]
    ids = [i for i in SHIPPED if i != "Sokoban-v0"]
    for g in range(6):
        out.append({"id": f"registry|shipped{g}", "kind": "shipped", "ids": ids[g::6], "weight": 4.0})
    # every shipped id made in one process, in reverse registry order: state shared between environment classes or
    # instances (class-level caches) would make a configuration depend on what was made before
    out.append({"id": "registry|shipped_reverse_order", "kind": "shipped_reverse", "ids": list(reversed(ids)), "weight": 8.0})
    for g in range(4):
        out.append({"id": f"registry|after_siblings{g}", "kind": "after_siblings", "ids": ids[g::4], "weight": 6.0})
    out.append({"id": "registry|repo_tests_under_contracts", "kind": "pytest", "weight": 2.0})
    out += [{"id": f"registry|shared_kwargs_objects{i}", "kind": "shared_objects", "part": i, "weight": 6.0} for i in range(3)]
    return out


# --------------------------------------------------------------------------------------- reference grammar

def ref_parse(s: str) -> Tuple[str, Any]:
    """('ok', (name, version)) | ('noncanonical', (name, version)) | ('malformed', None) | ('versionless', None)
    | ('unspecified', None) for strings on which the statement takes no position."""
    m = re.search(r"-v([0-9]+)\Z", s)
    all_allowed = all(c in ALLOWED for c in s)
    if not s:
        return "malformed", None
    if any(c in BAD_CHARS for c in s):
        return "malformed", None
    if not all_allowed:
        return "unspecified", None  # non-ASCII letters/digits: \w semantics are an implementation choice
    if m is None:
        return "versionless", None
    name = s[: m.start()]
    if name == "":
        return "versionless", None  # e.g. '-v1': no name in front of the suffix => cannot be <name>-v<N>
    digits = m.group(1)
    version = int(digits)
    if digits != str(version):
        return "noncanonical", (name, version)
    return "ok", (name, version)


def gen_id(rng) -> str:
    u = rng.random()
    L = int(rng.integers(1, 12))
    name = "".join(rng.choice(list(ALLOWED)) for _ in range(L))
    if u < 0.45:
        v = int(rng.choice([0, 1, 2, 7, 10, 99, 12345, 10**9, 10**30])) if rng.random() < 0.6 else int(rng.integers(0, 10**6))
        return f"{name}-v{v}"
    if u < 0.55:
        return f"{name}-v{int(rng.integers(0, 50))}-v{int(rng.integers(0, 50))}"
    if u < 0.63:
        return f"{name}-v{'0' * int(rng.integers(1, 4))}{int(rng.integers(0, 100))}"
    if u < 0.73:
        return name  # version-less (unless the random name happens to end in -v<digits>)
    if u < 0.80:
        return str(rng.choice([f"{name}-v", f"{name}-V3", f"{name}v3", f"{name}-v-3", f"{name}-v3.0", f"{name}-v3a", f"-v{int(rng.integers(0, 9))}", "", f"{name}-v 3", f"{name}_v3"]))
    if u < 0.95:
        pos = int(rng.integers(0, L + 1))
        bad = str(rng.choice(BAD_CHARS))
        base = f"{name[:pos]}{bad}{name[pos:]}"
        return str(rng.choice([f"{base}-v{int(rng.integers(0, 20))}", f"{name}-v{int(rng.integers(0, 20))}{bad}", f"{bad}{name}-v1"]))
    return str(rng.choice([f"{name}é-v1", f"{name}-v١٢", f"名前-v3", f"{name}-v²"]))


def judge_id(rep: Report, reg, s: str) -> None:
    kind, exp = ref_parse(s)
    rep.evaluated(1)
    rep.count("id_" + kind)
    rep.digests.add(s[:60])
    try:
        got = reg.parse_env_id(s)
        err = None
    except ValueError as e:
        got, err = None, e
    except Exception as e:
        rep.violation("registry", "ids", "parse_raises_only_valueerror", {"id": s, "error": repr(e)[:200]}, replay={"id": s})
        return
    rp = {"id": s}
    if kind == "ok":
        if got is None:
            rep.violation("registry", "ids", "wellformed_id_parses", {"id": s, "error": str(err)[:160]}, replay=rp)
            return
        if tuple(got) != exp or not isinstance(got[1], int):
            rep.violation("registry", "ids", "wellformed_id_parses", {"id": s, "got": repr(got), "expected": repr(exp)}, replay=rp)
            return
        back = reg.get_env_id(*got)
        if back != s:
            rep.violation("registry", "ids", "parse_format_roundtrip", {"id": s, "formatted": back}, replay=rp)
        name, ver = exp
        if tuple(reg.parse_env_id(reg.get_env_id(name, ver))) != (name, ver):
            rep.violation("registry", "ids", "format_parse_roundtrip", {"name": name, "version": ver}, replay=rp)
    elif kind in ("malformed", "versionless"):
        if got is not None:
            rep.violation("registry", "ids", "malformed_id_rejected", {"id": s, "parsed_as": repr(got), "kind": kind}, replay=rp, qualifier=kind)
    elif kind == "noncanonical":
        if got is not None:
            if tuple(got) != exp:
                rep.violation("registry", "ids", "noncanonical_id_value", {"id": s, "got": repr(got), "expected": repr(exp)}, replay=rp)
            once = reg.get_env_id(*got)
            if reg.get_env_id(*reg.parse_env_id(once)) != once:
                rep.violation("registry", "ids", "noncanonical_fixed_point", {"id": s, "once": once}, replay=rp)
    else:  # unspecified
        if got is not None:
            once = reg.get_env_id(*got)
            try:
                if reg.get_env_id(*reg.parse_env_id(once)) != once:
                    rep.violation("registry", "ids", "noncanonical_fixed_point", {"id": s, "once": once}, replay=rp)
            except ValueError:
                rep.violation("registry", "ids", "noncanonical_fixed_point", {"id": s, "once": once, "why": "formatted id no longer parses"}, replay=rp)


def snapshot(reg) -> Dict[str, Tuple]:
    return {k: (v.id, v.entry_point, repr(sorted(v.kwargs.items(), key=lambda kv: kv[0])), id(v)) for k, v in reg._REGISTRY.items()}


def _kw_value(rng, base: int):
    """Keyword values: mostly ints, but also None, the falsy values a careless `if value:` / `or` would drop, and array-valued
    arguments (NumPy / JAX arrays, tuples of numbers) whose `==` / `!=` is not a plain bool."""
    u = rng.random()
    if u < 0.5:
        return int(rng.integers(base, base + 100))
    if u < 0.75:
        return [None, 0, False, "", (), None][int(rng.integers(0, 6))]
    import jax.numpy as jnp

    k = int(rng.integers(0, 4))
    vals = [int(x) for x in rng.integers(base, base + 5, size=3)]
    return [np.asarray(vals), jnp.asarray(vals, jnp.float32), tuple(vals), np.asarray([[1.0, 2.0], [3.0, float(base)]])][k]


def _kw_equal(a: Dict[str, Any], b: Dict[str, Any]) -> bool:
    if set(a) != set(b):
        return False
    for k in a:
        x, y = a[k], b[k]
        if hasattr(x, "shape") or hasattr(y, "shape"):
            if type(x) is not type(y) or np.asarray(x).shape != np.asarray(y).shape or not np.array_equal(np.asarray(x), np.asarray(y)):
                return False
        elif type(x) is not type(y) or x != y:
            return False
    return True


def run_ops(rep: Report, rng, count: int) -> None:
    import jumanji
    from jumanji import registration as reg

    from jmon import probe_env

    EP = "jmon.probe_env:ProbeEnv"
    EP2 = "jmon.probe_env:OtherProbeEnv"
    EP_SAME_NAME = "jmon.probe_env2:ProbeEnv"
    from jmon import probe_env2

    entry_of: Dict[str, str] = {}
    mine: Dict[str, Dict[str, Any]] = {}
    log = []

    def viol(clause, detail, qualifier=""):
        rep.violation("registry", "ops", clause, dict(detail, history=log[-8:]), replay={"history": list(log)}, qualifier=qualifier)

    # a scripted prelude makes every kind of operation occur a fixed number of times (deterministic floors),
    # the rest of the sequence is random
    prelude = [0.1, 0.35, 0.47, 0.7, 0.95] * 8
    for n in range(count):
        u = prelude[n] if n < len(prelude) else rng.random()
        before = snapshot(reg)
        api = jumanji if rng.random() < 0.5 else reg
        rep.evaluated(1)
        if u < 0.3 or not mine:
            name = "Probe" + "".join(rng.choice(list("abcXYZ_.:")) for _ in range(int(rng.integers(1, 6))))
            ver = int(rng.integers(0, 30))
            if mine and rng.random() < 0.35:
                # an id that is a *substring* of one already registered (Env-v1 after Env-v12, CVRP-v0 after MultiCVRP-v0):
                # a new id all the same
                nm_, v_ = str(rng.choice(list(mine))).rsplit("-v", 1)
                name = nm_[int(rng.integers(0, len(nm_))):]
                ver = int(v_[: int(rng.integers(1, len(v_) + 1))])
                rep.count("register_substring_of_existing")
            eid = f"{name}-v{ver}"
            raw = eid if rng.random() < 0.8 else f"{name}-v0{ver}"  # non-canonical spelling must land on the canonical id
            kw = {k: _kw_value(rng, 0) for k in rng.choice(["a", "b", "c", "d"], size=int(rng.integers(0, 4)), replace=False)}
            ep_used = EP if rng.random() < 0.6 else EP_SAME_NAME  # same class name, another module
            log.append(["register", raw, kw, ep_used])
            exists = eid in before
            try:
                api.register(raw, ep_used, kwargs=dict(kw)) if kw or rng.random() < 0.5 else api.register(id=raw, entry_point=ep_used)
                ok = True
            except ValueError:
                ok = False
            after = snapshot(reg)
            rep.count("register_new" if not exists else "register_duplicate")
            if exists:
                if ok:
                    viol("duplicate_registration_refused", {"id": raw}, qualifier="accepted")
                if after != before:
                    viol("duplicate_registration_leaves_registry", {"id": raw}, qualifier="registry_changed")
            else:
                if not ok:
                    viol("new_registration_accepted", {"id": raw})
                else:
                    added = set(after) - set(before)
                    if added != {eid} or any(after[k] != before[k] for k in before):
                        viol("registration_adds_exactly_that_id", {"id": raw, "added": sorted(added)})
                    mine[eid] = kw
                    entry_of[eid] = ep_used
                    if eid not in api.registered_environments():
                        viol("registered_environments_lists_it", {"id": eid})
        elif u < 0.42:
            eid = str(rng.choice(list(mine)))
            kw2 = {"a": -1}
            if rng.random() < 0.5:  # the same id spelled with leading zeros in the version is still the same id
                nm_, v_ = eid.rsplit("-v", 1)
                eid = f"{nm_}-v{'0' * int(rng.integers(1, 3))}{v_}"
                rep.count("register_duplicate_noncanonical")
            log.append(["register_duplicate", eid, kw2])
            rep.count("register_duplicate")
            try:
                api.register(eid, EP2, kwargs=kw2)
                viol("duplicate_registration_refused", {"id": eid}, qualifier="accepted")
            except ValueError:
                pass
            if snapshot(reg) != before:
                viol("duplicate_registration_leaves_registry", {"id": eid}, qualifier="registry_changed")
        elif u < 0.52:
            bad = str(rng.choice(["NoVersion", "Bad id-v1", "", "x/y-v2", "Name-v", "Name-v1\n"]))
            log.append(["register_malformed", bad])
            rep.count("register_malformed")
            try:
                api.register(bad, EP)
                viol("malformed_registration_refused", {"id": bad})
            except ValueError:
                pass
            if snapshot(reg) != before:
                viol("failed_registration_leaves_registry", {"id": bad})
        elif u < 0.9:
            eid = str(rng.choice(list(mine)))
            regkw = mine[eid]
            over = {k: _kw_value(rng, 100) for k in rng.choice(["a", "b", "z"], size=int(rng.integers(0, 3)), replace=False)}
            if any(v is None or (not hasattr(v, "shape") and v in (0, False, "", ())) for v in over.values()):
                rep.count("make_override_none_or_falsy")
            if any(hasattr(v, "shape") for v in over.values()):
                rep.count("make_override_array_valued")
            args = tuple(int(x) for x in rng.integers(0, 9, size=int(rng.integers(0, 3))))
            log.append(["make", eid, list(args), over])
            rep.count("make_known")
            spec_kwargs_before = dict(reg._REGISTRY[eid].kwargs)
            probe_env.CALLS.clear()
            try:
                env = api.make(eid, *args, **over)
            except Exception as e:
                viol("make_builds_registered_class", {"id": eid, "error": repr(e)[:200]})
                continue
            exp = dict(regkw)
            exp.update(over)
            want_cls = probe_env2.ProbeEnv if entry_of.get(eid) == EP_SAME_NAME else probe_env.ProbeEnv
            rep.count("make_same_class_name_other_module" if want_cls is probe_env2.ProbeEnv else "make_plain_probe")
            if type(env) is not want_cls:
                viol("make_builds_registered_class", {"id": eid, "type": f"{type(env).__module__}.{type(env).__name__}", "registered_entry_point": entry_of.get(eid)},
                     qualifier="same_class_name_other_module")
            elif not _kw_equal(env.kwargs, exp) or tuple(env.args) != args or len(probe_env.CALLS) != 1:
                viol("make_kwargs_registered_overridden_by_caller", {"id": eid, "got": env.kwargs, "expected": exp, "args": list(env.args)},
                     qualifier="override_order" if set(env.kwargs) == set(exp) else "keys")
            if not _kw_equal(dict(reg._REGISTRY[eid].kwargs), spec_kwargs_before):
                viol("make_does_not_mutate_registered_kwargs", {"id": eid})
            if snapshot(reg) != before:
                viol("make_leaves_registry", {"id": eid})
        else:
            eid = "Unknown" + "".join(rng.choice(list("abc")) for _ in range(4)) + f"-v{int(rng.integers(0, 5))}"
            log.append(["make_unknown", eid])
            rep.count("make_unknown")
            try:
                api.make(eid)
                viol("unknown_id_raises", {"id": eid})
            except Exception as e:
                msg = str(e)
                missing = [k for k in before if k not in msg]
                if missing:
                    viol("unknown_id_error_lists_registered", {"id": eid, "missing": missing[:5]})
            if snapshot(reg) != before:
                viol("make_leaves_registry", {"id": eid})
    rep.digests.add("ops:" + digest_decoded({"n": np.asarray([len(log)])}) + str(len(mine)))
    rep.sample({"ops_head": log[:6]})


# documented configuration of the shipped ids (jumanji/__init__.py comments): checked through public observables
def shipped_facts(env_id: str, env, st, ts) -> List[str]:
    import jumanji.environments as JE

    S, O = decode(st), decode(ts.observation)
    out = []

    def want(cond, what):
        if not cond:
            out.append(what)

    cls = {
        "Game2048-v1": JE.Game2048, "GraphColoring-v0": JE.GraphColoring, "Minesweeper-v0": JE.Minesweeper, "RubiksCube-v0": JE.RubiksCube,
        "RubiksCube-partly-scrambled-v0": JE.RubiksCube, "Sudoku-v0": JE.Sudoku, "Sudoku-very-easy-v0": JE.Sudoku, "BinPack-v2": JE.BinPack,
        "FlatPack-v0": JE.FlatPack, "JobShop-v0": JE.JobShop, "Knapsack-v1": JE.Knapsack, "Tetris-v0": JE.Tetris, "Cleaner-v0": JE.Cleaner,
        "Connector-v2": JE.Connector, "MMST-v0": JE.MMST, "CVRP-v1": JE.CVRP, "MultiCVRP-v0": JE.MultiCVRP, "Maze-v0": JE.Maze,
        "RobotWarehouse-v0": JE.RobotWarehouse, "Snake-v1": JE.Snake, "TSP-v1": JE.TSP, "PacMan-v1": JE.PacMan,
        "SlidingTilePuzzle-v0": JE.SlidingTilePuzzle, "LevelBasedForaging-v0": JE.LevelBasedForaging,
    }[env_id]
    want(type(env) is cls, f"class {type(env).__name__} != {cls.__name__}")
    tl = getattr(env, "time_limit", None)
    shp = lambda k: tuple(O[k].shape)
    if env_id == "Game2048-v1":
        want(shp("board") == (4, 4), "board not 4x4")
    elif env_id == "GraphColoring-v0":
        want(shp("adj_matrix") == (20, 20), "not 20 nodes")
    elif env_id == "Minesweeper-v0":
        want(shp("board") == (10, 10) and int(O["num_mines"]) == 10, "not 10x10 with 10 mines")
    elif env_id == "RubiksCube-v0":
        want(shp("cube") == (6, 3, 3), "cube not 3x3")
    elif env_id == "RubiksCube-partly-scrambled-v0":
        want(shp("cube") == (6, 3, 3) and tl == 20, f"not 3x3 with time limit 20 (time_limit={tl})")
    elif env_id in ("Sudoku-v0", "Sudoku-very-easy-v0"):
        want(shp("board") == (9, 9), "board not 9x9")
        clues = int((O["board"] >= 0).sum()) if O["board"].min() < 0 else int((O["board"] > 0).sum())
        if env_id == "Sudoku-very-easy-v0":
            want(clues >= 46, f"very-easy puzzle with {clues} clues (<46)")
    elif env_id == "BinPack-v2":
        want(shp("ems_mask") == (40,) and shp("items_mask") == (20,), "not 40 EMS / 20 items")
    elif env_id == "FlatPack-v0":
        want(shp("grid") == (11, 11) and shp("blocks")[0] == 25, "not 11x11 with 25 blocks")
    elif env_id == "JobShop-v0":
        want(shp("ops_machine_ids") == (20, 8) and shp("machines_job_ids") == (10,), "not 20 jobs x 8 ops, 10 machines")
        want(int(O["ops_durations"].max()) <= 6, "operation longer than 6")
    elif env_id == "Knapsack-v1":
        want(shp("weights") == (50,) and abs(float(S["remaining_budget"]) - 12.5) < 1e-6, "not 50 items / budget 12.5")
    elif env_id == "Tetris-v0":
        want(shp("grid") == (10, 10) and tl == 400, f"not 10x10 with time limit 400 (time_limit={tl})")
    elif env_id == "Cleaner-v0":
        want(shp("grid") == (10, 10) and shp("agents_locations") == (3, 2) and tl == 100, f"not 10x10, 3 agents, limit 100 (time_limit={tl})")
    elif env_id == "Connector-v2":
        want(shp("grid") == (10, 10) and shp("action_mask") == (10, 5), "not grid 10 with 10 agents")
    elif env_id == "MMST-v0":
        want(shp("node_types") == (36,) and shp("positions") == (3,) and tuple(S["nodes_to_connect"].shape) == (3, 4) and tl == 70, f"not 36 nodes, 3 agents, 4 nodes per agent, limit 70 (time_limit={tl})")
    elif env_id == "CVRP-v1":
        want(shp("coordinates") == (21, 2) and int(S["capacity"]) == 30 and int(S["demands"].max()) <= 10, "not 20 nodes, capacity 30, max demand 10")
    elif env_id == "MultiCVRP-v0":
        want(shp("nodes.coordinates") == (21, 2) and shp("vehicles.capacities") == (2,) and int(O["vehicles.capacities"].max()) == 60, "not 20 customers, 2 vehicles, capacity 60")
    elif env_id == "Maze-v0":
        want(shp("walls") == (10, 10) and tl == 100, f"not 10x10 with limit 100 (time_limit={tl})")
    elif env_id == "RobotWarehouse-v0":
        want(shp("action_mask") == (4, 5) and tuple(S["request_queue"].shape) == (8,), "not 4 agents / request queue 8")
    elif env_id == "Snake-v1":
        want(shp("grid") == (12, 12, 5) and tl == 4000, f"not 12x12 with limit 4000 (time_limit={tl})")
    elif env_id == "TSP-v1":
        want(shp("coordinates") == (20, 2), "not 20 cities")
    elif env_id == "PacMan-v1":
        want(shp("grid") == (31, 28), "not the 31x28 maze")
    elif env_id == "SlidingTilePuzzle-v0":
        want(shp("puzzle") == (5, 5), "not 5x5")
    elif env_id == "LevelBasedForaging-v0":
        want(shp("action_mask") == (2, 6) and tuple(S["food_items.level"].shape) == (2,) and int(S["agents.level"].max()) <= 2, "not 2 agents, 2 food, max level 2")
        want(int(S["agents.position"].max()) < 8 and int(S["food_items.position"].max()) < 8, "grid larger than 8")
    return out


def run_shipped(rep: Report, ids: List[str], tier: str, rng) -> None:
    import jax
    import jumanji
    from jmon import actions as A

    for env_id in ids:
        rep.evaluated(1)
        rep.count("shipped_ids")
        rep.digests.add(env_id)
        try:
            e1 = jumanji.make(env_id)
            e2 = jumanji.make(env_id)
        except Exception as ex:
            rep.violation("registry", env_id, "shipped_id_instantiates", {"id": env_id, "error": repr(ex)[:300]}, replay={"id": env_id})
            continue
        if env_id not in jumanji.registered_environments():
            rep.violation("registry", env_id, "shipped_id_registered", {"id": env_id}, replay={"id": env_id})
        for sname in ("observation_spec", "action_spec", "reward_spec", "discount_spec"):
            rep.evaluated(1)
            if repr(getattr(e1, sname)) != repr(getattr(e2, sname)):
                rep.violation("registry", env_id, "two_makes_equal_specs", {"id": env_id, "spec": sname}, replay={"id": env_id})
        r1, s1 = jax.jit(e1.reset), jax.jit(e1.step)
        r2, s2 = jax.jit(e2.reset), jax.jit(e2.step)
        nkeys = 1 if tier == "quick" else 3
        for k in range(nkeys):
            key = jax.random.PRNGKey(int(rng.integers(0, 2**31 - 1)))
            a_, t1 = r1(key)
            b_, t2 = r2(key)
            if k == 0:
                for f in shipped_facts(env_id, e1, a_, t1):
                    rep.violation("registry", env_id, "shipped_id_documented_configuration", {"id": env_id, "fact": f}, replay={"id": env_id})
                rep.evaluated(1)
                rep.count("documented_configuration_checked")
            name = type(e1).__name__
            for i in range(10):
                rep.evaluated(1)
                rep.count("two_makes_steps")
                if digest_decoded(decode((a_, t1))) != digest_decoded(decode((b_, t2))):
                    rep.violation("registry", env_id, "two_makes_identical_behaviour", {"id": env_id, "step": i}, replay={"id": env_id})
                    break
                act = A.as_action(e1.action_spec, A.sample_masked(name, e1.action_spec, A.get_mask(t1), rng)[0] if name in A.MASK_KIND else A.sample_random(e1.action_spec, rng))
                a_, t1 = s1(a_, act)
                b_, t2 = s2(b_, act)
    rep.notes.append("Sokoban-v0 not explored (needs the DeepMind/HuggingFace dataset: no network)")


def run_shipped_reverse(rep: Report, ids: List[str], rng) -> None:
    import jax
    import jumanji

    made = {}
    for env_id in ids:
        try:
            made[env_id] = jumanji.make(env_id)
        except Exception as ex:
            rep.violation("registry", env_id, "shipped_id_instantiates", {"id": env_id, "error": repr(ex)[:300], "order": "reverse"}, replay={"id": env_id})
    for env_id, env in made.items():
        rep.evaluated(1)
        rep.count("reverse_order_ids")
        rep.digests.add("rev:" + env_id)
        st, ts = jax.jit(env.reset)(jax.random.PRNGKey(int(rng.integers(0, 2**31 - 1))))
        for f in shipped_facts(env_id, env, st, ts):
            rep.violation("registry", env_id, "shipped_id_documented_configuration", {"id": env_id, "fact": f, "order": "made after all later ids"}, replay={"id": env_id}, qualifier="order_dependent")
        if env_id == "Sudoku-v0":
            # "10000 puzzles of mixed difficulties": unlike the very-easy set (>= 46 clues) the mixed set contains
            # harder puzzles; over 24 keys at least one board must have fewer than 46 clues
            reset = jax.jit(env.reset)
            clues = []
            for k in range(24):
                s_, t_ = reset(jax.random.PRNGKey(1000 + k))
                b = np.asarray(t_.observation.board)
                clues.append(int((b >= 0).sum()))
            rep.evaluated(1)
            rep.count("sudoku_mixed_database_checked")
            if min(clues) >= 46:
                rep.violation("registry", env_id, "shipped_id_documented_configuration", {"id": env_id, "fact": f"all 24 sampled boards have >= 46 clues (min {min(clues)}): not the mixed database", "order": "made after Sudoku-very-easy-v0"}, replay={"id": env_id}, qualifier="order_dependent")


def run_shared_objects(rep: Report, rng, tier: str, part: int = 0) -> None:
    """User registrations whose kwargs hold a *generator object* (shared by the registry and by every environment made from
    the id): make(id), make(id, time_limit=other) and make(id) again. The first environment must behave as before when it is
    traced again afterwards, the third must equal the first, the override must only affect its own environment, and a
    directly constructed environment with an equal fresh generator must agree with all of them."""
    import jax
    import jumanji
    from jumanji import registration as reg

    from jmon import actions as A

    def gens():
        from jumanji.environments.logic.rubiks_cube.generator import ScramblingGenerator
        from jumanji.environments.logic.sliding_tile_puzzle.generator import RandomWalkGenerator as STGen
        from jumanji.environments.routing.cleaner.generator import RandomGenerator as CleanerGen
        from jumanji.environments.routing.connector.generator import RandomWalkGenerator as ConnGen
        from jumanji.environments.routing.lbf.generator import RandomGenerator as LbfGen
        from jumanji.environments.routing.maze.generator import RandomGenerator as MazeGen
        from jumanji.environments.routing.mmst.generator import SplitRandomGenerator
        from jumanji.environments.routing.robot_warehouse.generator import RandomGenerator as RwGen
        from jumanji.environments.routing.sokoban.generator import ToyGenerator as SokoToy

        return [
            ("MMST", lambda: SplitRandomGenerator(num_nodes=12, num_edges=18, max_degree=5, num_agents=2, num_nodes_per_agent=3, max_step=12), 12, 4),
            ("Maze", lambda: MazeGen(5, 7), 9, 3),
            ("Cleaner", lambda: CleanerGen(5, 6, 2), 9, 3),
            ("RubiksCube", lambda: ScramblingGenerator(2, 3), 8, 2),
            ("SlidingTilePuzzle", lambda: STGen(3, 10), 9, 3),
            ("Connector", lambda: ConnGen(5, 3), 9, 3),
            ("LevelBasedForaging", lambda: LbfGen(grid_size=6, num_agents=2, num_food=2, fov=6), 9, 3),
            ("RobotWarehouse", lambda: RwGen(shelf_rows=1, shelf_columns=3, column_height=3, num_agents=2, sensor_range=1, request_queue_size=2), 9, 3),
            ("Sokoban", lambda: SokoToy(), 9, 3),
        ]

    def trace(env, name, keys, n_steps):
        """Digest list of reset + n_steps masked steps for each key, through freshly jitted functions."""
        r, st = jax.jit(env.reset), jax.jit(env.step)
        arng = np.random.default_rng(12345)
        out = []
        for k in keys:
            s_, t_ = r(jax.random.PRNGKey(k))
            out.append(digest_decoded(decode((s_, t_))))
            for _ in range(n_steps):
                a = A.sample_masked(name, env.action_spec, A.get_mask(t_), arng)[0] if name in A.MASK_KIND else A.sample_random(env.action_spec, arng)
                s_, t_ = st(s_, A.as_action(env.action_spec, a))
                out.append(digest_decoded(decode((s_, t_))))
                if int(np.asarray(t_.step_type)) == 2:
                    break
        return out

    keys = [int(x) for x in rng.integers(0, 2**31 - 1, size=2)]
    for j, (name, mk, L1, L2) in enumerate(gens()):
        if j % 3 != part:
            continue
        eid = f"JmonShared{name}-v{j}"
        g = mk()
        try:
            jumanji.register(eid, f"jumanji.environments:{name}", kwargs={"generator": g, "time_limit": L1})
        except Exception as ex:
            rep.violation("registry", eid, "new_registration_accepted", {"id": eid, "error": repr(ex)[:200]}, replay={"id": eid})
            continue
        n = L1 + 2
        rep.evaluated(4)
        rep.count("shared_object_ids")
        rep.digests.add("shared:" + name)
        rp = {"id": eid, "env": name, "registered_time_limit": L1, "override_time_limit": L2, "keys": keys}
        try:
            e1 = jumanji.make(eid)
            t1 = trace(e1, name, keys, n)
            e2 = jumanji.make(eid, time_limit=L2)
            t2 = trace(e2, name, keys, n)
            t1_again = trace(e1, name, keys, n)  # new jit traces of the *first* environment after the override call
            e3 = jumanji.make(eid)
            t3 = trace(e3, name, keys, n)
            t2_again = trace(e2, name, keys, n)
            import jumanji.environments as JE

            direct = getattr(JE, name)(generator=mk(), time_limit=L1)
            td = trace(direct, name, keys, n)
            direct2 = getattr(JE, name)(generator=mk(), time_limit=L2)
            td2 = trace(direct2, name, keys, n)
        except Exception as ex:
            rep.violation("registry", eid, "make_builds_registered_class", {"id": eid, "error": repr(ex)[:300]}, replay=rp)
            continue
        if t1_again != t1:
            rep.violation("registry", eid, "two_makes_identical_behaviour", {"id": eid, "what": "the environment made first behaves differently once make(id, time_limit=...) has been called", "first_difference_at": next(i for i, (a, b) in enumerate(zip(t1, t1_again)) if a != b) if len(t1) == len(t1_again) else "length"}, replay=rp, qualifier="override_leaks_into_earlier_env")
        if t3 != t1:
            rep.violation("registry", eid, "two_makes_identical_behaviour", {"id": eid, "what": "make(id) after an override call differs from make(id) before it"}, replay=rp, qualifier="override_leaks_into_registry")
        if t2_again != t2:
            rep.violation("registry", eid, "two_makes_identical_behaviour", {"id": eid, "what": "the overridden environment changes behaviour after a later plain make(id)"}, replay=rp, qualifier="plain_make_leaks_into_override_env")
        if td != t1:
            rep.violation("registry", eid, "make_kwargs_registered_overridden_by_caller", {"id": eid, "what": "make(id) differs from the class constructed directly with an equal generator and the registered time_limit"}, replay=rp, qualifier="registered_kwargs")
        if td2 != t2:
            rep.violation("registry", eid, "make_kwargs_registered_overridden_by_caller", {"id": eid, "what": "make(id, time_limit=L2) differs from the class constructed directly with time_limit=L2"}, replay=rp, qualifier="caller_override")
        # the override really took effect: the overridden environment ends no later than L2
        rep.count("shared_object_traces", 7)


# configurations of the same class that share a derived quantity with the registered one although their arguments differ
# (RobotWarehouse: 3 rows of height 5 and 6 rows of height 2 give the same 20 x 10 floor as the registered 2 rows of height 8)
SAME_SIZE_SIBLINGS = {
    "RobotWarehouse": [dict(id="sib3x3h5", shelf_rows=3, shelf_cols=3, height=5, agents=4, sensor=1, queue=8, time_limit=20),
                       dict(id="sib6x3h2", shelf_rows=6, shelf_cols=3, height=2, agents=4, sensor=1, queue=8, time_limit=20)],
}


def run_after_siblings(rep: Report, ids: List[str], tier: str, rng) -> None:
    """make(id) in a process that has already built and used other configurations of the same class must behave like make(id) in
    a fresh process (fingerprint: specs, two resets, 16 steps): what was built before is not one of the registered arguments."""
    import os
    import subprocess
    import sys as _sys

    import jax
    import jumanji
    from jumanji import registration as reg

    from jmon import envs as E2
    from jmon.fingerprint import fingerprint

    for env_id in ids:
        cls = reg._REGISTRY[env_id].entry_point.split(":")[-1]
        built = 0
        if cls in E2.ENVS:
            sibs = [c for c in E2.configs(cls, tier)[1:] if "make_id" not in c and not c.get("light")][: (3 if tier == "quick" else 8)]
            for c in SAME_SIZE_SIBLINGS.get(cls, []) + sibs:
                try:
                    e = E2.build(cls, c)
                    s, t = jax.jit(e.reset)(jax.random.PRNGKey(3))
                    jax.block_until_ready(s)
                    built += 1
                except Exception as ex:  # a sibling that cannot be built is a workload problem, not a verdict
                    rep.notes.append(f"sibling {cls}|{c.get('id')} not built: {repr(ex)[:100]}")
        rep.count("siblings_built_before_make", built)
        rep.evaluated(1)
        busy = fingerprint(jumanji.make(env_id))
        env_ = dict(os.environ)
        env_["JAX_PLATFORMS"] = env_.get("JAX_PLATFORMS", "cpu")
        try:
            out = subprocess.run([_sys.executable, "-m", "jmon.fingerprint", env_id], capture_output=True, text=True, timeout=600, env=env_, cwd=os.path.dirname(os.path.dirname(os.path.dirname(os.path.abspath(__file__)))))
            line = [l for l in out.stdout.splitlines() if l.startswith("FINGERPRINT ")]
            fresh = json.loads(line[-1][len("FINGERPRINT "):])[env_id] if line else None
        except subprocess.TimeoutExpired:
            fresh = None
        if fresh is None:
            rep.notes.append(f"fresh-process fingerprint of {env_id} not obtained")
            rep.count("fresh_fingerprint_missing")
            continue
        rep.count("make_vs_fresh_process")
        rep.digests.add("fp:" + env_id + busy)
        if busy != fresh:
            rep.violation("registry", env_id, "make_independent_of_earlier_constructions", {"id": env_id, "siblings_built_before": built, "fingerprint_here": busy, "fingerprint_fresh_process": fresh}, replay={"id": env_id}, qualifier="process_history")
    E2.cleanup()


def run_shard(shard: Dict[str, Any], rep: Report) -> None:
    from jmon import contracts
    from jmon.props.c16 import run_repo_tests_under_contracts

    tier, seed, sid = shard["tier"], shard["seed"], shard["id"]
    rng = shard_rng(seed, sid)
    if shard["kind"] == "pytest":
        run_repo_tests_under_contracts(rep, "jumanji/registration_test.py", ["parse_env_id.post"])
        return
    contracts.install()
    import jumanji  # noqa: F401  (fills the registry)
    from jumanji import registration as reg

    if shard["kind"] == "ids":
        for _ in range(shard["count"]):
            judge_id(rep, reg, gen_id(rng))
        for s in SHIPPED:
            judge_id(rep, reg, s)
        rep.sample({"ids": [gen_id(rng) for _ in range(6)]})
    elif shard["kind"] == "ops":
        run_ops(rep, rng, shard["count"])
    elif shard["kind"] == "shipped_reverse":
        run_shipped_reverse(rep, shard["ids"], rng)
    elif shard["kind"] == "after_siblings":
        run_after_siblings(rep, shard["ids"], tier, rng)
    elif shard["kind"] == "shared_objects":
        run_shared_objects(rep, rng, tier, shard.get("part", 0))
    else:
        run_shipped(rep, shard["ids"], tier, rng)
    recs, counts = contracts.drain()
    for k, v in counts.items():
        rep.count("contract:" + k, v)
    for r in recs:
        if r["contract"] == "contract_error":
            rep.notes.append("contract error: " + r["detail"][:200])
            continue
        rep.violation("contracts", "registry", "contract_" + r["contract"], r, replay={"where": sid})


def floors(tier: str, counters: Dict[str, int], per_env: Dict[str, Dict[str, int]]) -> List[str]:
    missed = []
    need = {"id_ok": 500, "id_malformed": 200, "id_versionless": 100, "id_noncanonical": 50, "register_new": 16, "register_duplicate": 16,
            "register_malformed": 5, "make_known": 40, "make_unknown": 5, "shipped_ids": 24, "documented_configuration_checked": 24, "reverse_order_ids": 24, "register_duplicate_noncanonical": 3,
            "two_makes_steps": 200, "contract:parse_env_id.post": 500, "make_vs_fresh_process": 20, "register_substring_of_existing": 5}
    for k, n in need.items():
        if counters.get(k, 0) < n:
            missed.append(f"clause {k} evaluated {counters.get(k, 0)} < {n} times")
    return missed
