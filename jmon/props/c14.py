"""C14 — batched wrappers equal per-instance execution; VmapAutoReset == Vmap(AutoReset) (DESIGN §3 C14)."""
from __future__ import annotations

from typing import Any, Dict, List

import numpy as np

from jmon import actions as A
from jmon import envs as E
from jmon.common import Report, decode, digest_decoded, key_for, shard_rng, tree_diff
from jmon.props._util import HEAVY
from jmon.props.c13 import INNER, pick_cfgs, wrap_inner

RULE = (
    "differential monitor over long batched runs: (a) VmapWrapper.reset/step on a batch vs the unwrapped environment per batch "
    "index; (b) VmapAutoResetWrapper vs VmapWrapper(AutoResetWrapper(env)) leaf by leaf at every step, both next_obs_in_extras "
    "settings; (c) render of both batched wrappers receives element 0. Batches are desynchronised on purpose (elements of "
    "different ages, per-element policies) and the termination pattern {none, some, all} of every batched step is counted; "
    "one evaluation = one batch element compared at one step; distinct by (environment, configuration, element state digest)"
)
ASSUMPTIONS = [
    "float leaves compared with rtol 1e-5 across differently compiled programs; ints/bools exact",
    "render is observed through a recording Wrapper around the environment (no viewer / display needed)",
]
SHARD_TIMEOUT = {"quick": 1500, "thorough": 3000}


def shards(tier: str, seed: int) -> List[Dict[str, Any]]:
    out = []
    for e in E.ENVS:
        cfgs = pick_cfgs(e, tier)
        bsizes = [3] if tier == "quick" else [1, 2, 5, 8]
        for ci, c in enumerate(cfgs[: (1 if tier == "quick" else 2)]):
            for b in bsizes:
                out.append({"id": f"{e}|{c['id']}|b{b}", "env": e, "cfg": c, "batch": b, "weight": HEAVY.get(e, 1.0) * (1 + b / 8)})
    for e_, cid_, kind_ in INNER[tier][: (3 if tier == "quick" else 99)]:
        out.append({"id": f"{e_}|{cid_}|inner-{kind_}|b3", "env": e_, "cfg": E.cfg_by_id(e_, cid_), "batch": 3, "inner": kind_, "weight": HEAVY.get(e_, 1.0)})
    # large batches (32..256, the sizes training runs use): stack equivalence only, random actions on environments whose
    # episodes end at random times, so that arbitrary subsets of the batch terminate on a step
    big = [["Minesweeper", "r3c7m5"], ["Snake", "r3c5L7"], ["Knapsack", "n10b2sparse"], ["TSP", "n5sparse"]]
    if tier == "quick":
        out.append({"id": "bigbatch|quick", "kind": "big_batch", "weight": 4.0, "cfgs": big[:3], "batches": [64]})
    else:
        big += [["Game2048", "b3"], ["Maze", "r5c9L7"], ["Cleaner", "r5c11a2L7"], ["GraphColoring", "n6p5"], ["LevelBasedForaging", "g6a3f2v2gridL7"]]
        for e_, c_ in big:
            out.append({"id": f"bigbatch|{e_}", "kind": "big_batch", "weight": 4.0, "cfgs": [[e_, c_]], "batches": [32, 64, 96, 128, 256]})
    # render/slice clause on configurations whose per-instance state has unit-length axes (single agent, 1 city ...):
    # slicing element 0 must keep those axes
    out.append({"id": "render|unit_axes", "kind": "render_unit_axes", "weight": 3.0,
                "cfgs": [["Cleaner", "r5c5a1"], ["LevelBasedForaging", "g5a1f1v1L3"], ["RobotWarehouse", "s1x3h3a1r1q2L1"],
                         ["Connector", "w3a1L3"], ["TSP", "n1"], ["FlatPack", "r1c1"], ["Minesweeper", "r3c7m5"], ["Knapsack", "n10b2sparse"], ["Snake", "r3c5L7"]]})
    return out


def stack_trees(trees):
    import jax
    import jax.numpy as jnp

    return jax.tree_util.tree_map(lambda *xs: jnp.stack([jnp.asarray(x) for x in xs]), *trees)


def slice_tree(tree, i):
    import jax

    return jax.tree_util.tree_map(lambda x: x[i], tree)


def run_render_unit_axes(shard: Dict[str, Any], rep: Report) -> None:
    import jax
    import jax.numpy as jnp
    from jumanji.wrappers import VmapAutoResetWrapper, VmapWrapper, Wrapper

    for name, cid in shard["cfgs"]:
        cfg = E.cfg_by_id(name, cid)
        env = E.build(name, cfg)
        seen = []

        class Recorder(Wrapper):
            def render(self, st):
                seen.append(st)
                return "rendered"

        def untyped(tree):
            # new-style typed PRNG keys (jax.random.key) are turned into their raw uint32 data for comparison
            return jax.tree_util.tree_map(lambda x: jax.random.key_data(x) if jnp.issubdtype(getattr(x, "dtype", jnp.int32), jax.dtypes.prng_key) else x, tree)

        for b, typed in ((1, False), (2, False), (4, False), (2, True), (3, True)):
            if typed:
                keys = jax.random.split(jax.random.key(int(key_for(shard["seed"], shard["id"] + name, 0)[1]) % (2**31 - 1)), b)
                rep.count("render_typed_key_batches")
            else:
                keys = jnp.stack([key_for(shard["seed"], shard["id"] + name, j)[0] for j in range(b)])
            for W in (VmapWrapper, VmapAutoResetWrapper):
                w = W(Recorder(env))
                try:
                    state, _ = jax.jit(w.reset)(keys)
                    single, _ = jax.jit(env.reset)(keys[0])
                except Exception as e:
                    if typed:
                        rep.count("typed_keys_not_accepted_by_reset")
                        rep.notes.append(f"{name}: reset does not accept typed keys: {e!r}"[:200])
                        continue
                    raise
                single = untyped(single)
                seen.clear()
                rep.evaluated(1, name + cid + str(b))
                rep.count("render_unit_axes_checked")
                try:
                    w.render(state)
                except Exception as e:
                    rep.violation(name, cid, "render_raises", {"wrapper": W.__name__, "error": repr(e)[:300], "batch": b}, replay={"env": name, "cfg": cfg, "batch": b})
                    continue
                got = untyped(seen[0]) if seen else None
                if not typed and seen:
                    # the same batch as a host-side state (jax.device_get / a restored checkpoint: NumPy leaves)
                    seen_dev = list(seen)
                    seen.clear()
                    try:
                        w.render(jax.tree_util.tree_map(lambda x: np.asarray(x), state))
                        rep.count("render_host_side_states")
                        if len(seen) != 1 or tree_diff(decode(seen[0]), decode(single), exact=True):
                            rep.violation(name, cid, "render_first_element", {"wrapper": W.__name__, "calls": len(seen), "batch": b, "state": "NumPy leaves"},
                                          replay={"env": name, "cfg": cfg, "batch": b, "numpy_leaves": True}, qualifier="numpy_leaves")
                    except Exception as e:
                        rep.violation(name, cid, "render_raises", {"wrapper": W.__name__, "error": repr(e)[:300], "batch": b, "state": "NumPy leaves"}, replay={"env": name, "cfg": cfg, "batch": b}, qualifier="numpy_leaves")
                    seen[:] = seen_dev
                if len(seen) != 1 or tree_diff(decode(got), decode(single), exact=True):
                    bad = tree_diff(decode(got), decode(single), exact=True) if seen else []
                    rep.violation(name, cid, "render_first_element", {"wrapper": W.__name__, "calls": len(seen), "fields": bad[:6], "batch": b, "typed_keys": typed},
                                  replay={"env": name, "cfg": cfg, "batch": b, "typed_keys": typed}, qualifier="typed_keys" if typed else "")
        E.cleanup()


def run_big_batch(shard: Dict[str, Any], rep: Report) -> None:
    import jax
    import jax.numpy as jnp
    from jumanji.wrappers import AutoResetWrapper, VmapAutoResetWrapper, VmapWrapper

    rng = shard_rng(shard["seed"], shard["id"])
    tol = dict(exact=False, rtol=1e-5, atol=1e-6)
    n_steps = 40 if shard["tier"] == "quick" else 80
    for name, cid in shard["cfgs"]:
        cfg = E.cfg_by_id(name, cid)
        env = E.build(name, cfg)
        spec = env.action_spec
        lo, hi = A.spec_bounds(spec)
        for b in shard["batches"]:
            keys = jnp.stack([key_for(shard["seed"], shard["id"] + name, j)[0] for j in range(b)])
            for nobs in (False, True):
                va = VmapAutoResetWrapper(env, next_obs_in_extras=nobs)
                vb = VmapWrapper(AutoResetWrapper(env, next_obs_in_extras=nobs))
                va_step, vb_step = jax.jit(va.step), jax.jit(vb.step)
                cur, ts = jax.jit(va.reset)(keys)
                hist = []
                for i in range(n_steps):
                    m = getattr(ts.observation, "action_mask", None)
                    acts = rng.integers(lo, hi + 1, size=(b,) + tuple(spec.shape)).astype(A.np_dtype(spec))
                    if m is not None and A.MASK_KIND[name] == "flat":
                        # half of the elements play a masked-in action: episodes of very different lengths inside one batch
                        mm = np.asarray(m).astype(bool)
                        for j in range(0, b, 2):
                            idx = np.flatnonzero(mm[j])
                            if len(idx):
                                acts[j] = rng.choice(idx)
                    aj = jnp.asarray(acts)
                    sa, ta = va_step(cur, aj)
                    sb, tb = vb_step(cur, aj)
                    bad = tree_diff(decode((sa, ta)), decode((sb, tb)), **tol)
                    lasts = np.asarray(ta.step_type) == 2
                    n_last = int(lasts.sum())
                    rep.evaluated(b)
                    rep.count("big_batch_steps")
                    rep.count(f"big_pattern_{'none' if n_last == 0 else ('all' if n_last == b else 'some')}")
                    hist.append(acts.tolist())
                    if bad:
                        rep.violation(name, cid, "vmap_autoreset_equals_vmap_of_autoreset",
                                      {"fields": bad[:6], "step": i, "batch": b, "next_obs_in_extras": nobs, "terminated_indices": np.flatnonzero(lasts).tolist()[:40]},
                                      replay={"env": name, "cfg": cfg, "batch": b, "step": i, "next_obs_in_extras": nobs, "actions": hist[-5:]},
                                      qualifier=f"batch>={32 if b >= 32 else b}")
                        break
                    cur, ts = sa, ta
                    rep.states += b
                    rep.transitions += b
            rep.env_count(name, "big_batches")
    E.cleanup()


def run_shard(shard: Dict[str, Any], rep: Report) -> None:
    import jax
    import jax.numpy as jnp
    from jumanji.wrappers import AutoResetWrapper, VmapAutoResetWrapper, VmapWrapper, Wrapper

    if shard.get("kind") == "big_batch":
        return run_big_batch(shard, rep)
    if shard.get("kind") == "render_unit_axes":
        run_render_unit_axes(shard, rep)
        return
    tier, seed, sid = shard["tier"], shard["seed"], shard["id"]
    name, cfg, b = shard["env"], shard["cfg"], shard["batch"]
    cid = cfg["id"]
    rng = shard_rng(seed, sid)
    env = wrap_inner(E.build(name, cfg), shard.get("inner"))
    spec = env.action_spec
    n_reset = jax.jit(env.reset)
    n_step = jax.jit(env.step)
    tol = dict(exact=False, rtol=1e-5, atol=1e-6)
    n_steps = 50 if tier == "quick" else 200

    def viol(clause, detail, replay=None, qualifier=""):
        rep.violation(name, cid, clause, detail, replay=replay or {"env": name, "cfg": cfg, "batch": b}, qualifier=qualifier)

    keys = [key_for(seed, sid, j)[0] for j in range(b)]
    kints = [key_for(seed, sid, j)[1] for j in range(b)]

    # ---------------- (a) VmapWrapper vs per-instance -----------------------------------------------------
    vw = VmapWrapper(env)
    v_reset, v_step = jax.jit(vw.reset), jax.jit(vw.step)
    bs, bt = v_reset(jnp.stack(keys))
    singles = [n_reset(k) for k in keys]
    for j in range(b):
        bad = tree_diff(decode(slice_tree(bs, j)), decode(singles[j][0]), **tol) + tree_diff(decode(slice_tree(bt, j)), decode(singles[j][1]), **tol)
        rep.evaluated(1)
        rep.count("vmap_reset_elements")
        if bad:
            viol("vmap_reset_equals_single", {"element": j, "fields": bad[:6]})
    # desynchronise: element j first takes j*ceil(span/b) masked steps on its own
    L = cfg.get("time_limit")
    span = L if (L is not None and L <= 40) else 8
    stride = max(1, -(-span // b))
    aged = []
    for j in range(b):
        s, t = singles[j]
        for _ in range(j * stride):
            if int(np.asarray(t.step_type)) == 2:
                break
            s2, t2 = n_step(s, A.as_action(spec, A.sample_masked(name, spec, A.get_mask(t), rng)[0]))
            if int(np.asarray(t2.step_type)) == 2:
                break
            s, t = s2, t2
        aged.append((s, t))
    state = stack_trees([a[0] for a in aged])
    ts_list = [a[1] for a in aged]

    def batch_actions(ts_elems):
        acts = []
        for j, t in enumerate(ts_elems):
            m = A.get_mask(t)
            u = rng.random()
            if j % 2 == 0 and u < 0.85:
                acts.append(A.sample_masked(name, spec, m, rng)[0])
            elif u < 0.5:
                acts.append(A.sample_masked(name, spec, m, rng)[0])
            else:
                acts.append(A.sample_random(spec, rng))
        return acts

    for nobs in (False, True):
        va = VmapAutoResetWrapper(env, next_obs_in_extras=nobs)
        vb = VmapWrapper(AutoResetWrapper(env, next_obs_in_extras=nobs))
        va_step, vb_step = jax.jit(va.step), jax.jit(vb.step)
        # reset equivalence of the two stacks
        ra, rb = jax.jit(va.reset)(jnp.stack(keys)), jax.jit(vb.reset)(jnp.stack(keys))
        # the same wrapper objects are also used with another batch size (an evaluation batch next to the training batch)
        # before the first step is traced: nothing about a wrapper may remember the size of an earlier batch
        other = jnp.stack(keys + [key_for(seed, sid, 100 + j)[0] for j in range(2 if b != 2 else 3)])
        jax.jit(va.reset)(other)
        jax.jit(vb.reset)(other)
        if b > 1:  # ... and with a smaller one, which is the batch size the wrappers saw last
            jax.jit(va.reset)(jnp.stack(keys[: b - 1]))
            jax.jit(vb.reset)(jnp.stack(keys[: b - 1]))
        rep.count("other_batch_size_reset_on_same_wrapper")
        bad = tree_diff(decode(ra), decode(rb), **tol)
        rep.evaluated(1)
        if bad:
            viol("stacks_agree_on_reset", {"fields": bad[:6], "next_obs_in_extras": nobs})
        # phase 1: desynchronised batch; phase 2 (tiny time limits only): a fresh, synchronised batch played with
        # masked actions so that all elements reach the limit on the same step (pattern "all")
        phases = [(state, list(ts_list), n_steps, "desync")]
        if L is not None and L <= 10:
            phases.append((bs, [slice_tree(bt, j) for j in range(b)], 2 * L + 2, "sync"))
        cur, cur_ts, nst, phase = phases[0]
        history = []
        total = sum(p_[2] for p_ in phases)
        boundary = phases[0][2]
        for i in range(total):
            if i == boundary and len(phases) > 1:
                cur, cur_ts, nst, phase = phases[1]
                history = []
            if phase == "sync":
                acts = [A.sample_masked(name, spec, A.get_mask(t), rng)[0] for t in cur_ts]
            else:
                acts = batch_actions(cur_ts)
            history.append([np.asarray(a).tolist() for a in acts])
            aj = jnp.stack([A.as_action(spec, a) for a in acts])
            sa, ta = va_step(cur, aj)
            sb, tb = vb_step(cur, aj)
            da, db = decode((sa, ta)), decode((sb, tb))
            bad = tree_diff(da, db, **tol)
            rp = {"env": name, "cfg": cfg, "batch": b, "reset_key_ints": kints, "stride": stride, "actions": history[-30:], "step": i, "next_obs_in_extras": nobs}
            if bad:
                viol("vmap_autoreset_equals_vmap_of_autoreset", {"fields": bad[:6], "step": i, "next_obs_in_extras": nobs}, replay=rp,
                     qualifier=",".join(sorted({f.split(".")[1] if "." in f else f for f in bad}))[:60])
            # per-element comparison of the plain VmapWrapper step with the unwrapped environment (nobs False pass only)
            lasts = []
            if not nobs:
                vs, vt = v_step(cur, aj)
            for j in range(b):
                sj = slice_tree(cur, j)
                s1, t1 = n_step(sj, aj[j])
                lasts.append(int(np.asarray(t1.step_type)) == 2)
                d1 = decode(s1)
                rep.evaluated(1, digest_decoded(d1))
                if not nobs:
                    badj = tree_diff(decode(slice_tree(vs, j)), d1, **tol) + tree_diff(decode(slice_tree(vt, j)), decode(t1), **tol)
                    rep.count("vmap_step_elements")
                    if badj:
                        viol("vmap_step_equals_single", {"element": j, "fields": badj[:6], "step": i}, replay=rp)
                # the auto-reset stacks: a non-terminating element must equal the plain step
                if not lasts[-1]:
                    badk = tree_diff(decode(slice_tree(sa, j)), d1, **tol)
                    if badk:
                        viol("non_terminating_element_untouched", {"element": j, "fields": badk[:6], "step": i, "others_terminated": sum(lasts)}, replay=rp)
                else:
                    # a terminating element must NOT keep its terminal state (it is reset)
                    if not tree_diff(decode(slice_tree(sa, j)), d1, **tol):
                        viol("terminating_element_reset", {"element": j, "step": i}, replay=rp)
            n_last = sum(lasts)
            pat = "none" if n_last == 0 else ("all" if n_last == b else "some")
            rep.count(f"pattern_{pat}")
            rep.env_count(name, f"pattern_{pat}")
            rep.count("batched_steps")
            cur = sa
            cur_ts = [slice_tree(ta, j) for j in range(b)]
            rep.states += b
            rep.transitions += b
        if len(rep.samples) < 1:
            rep.sample({"env": name, "cfg": cid, "batch": b, "reset_key_ints": kints, "ages": [j * stride for j in range(b)], "actions_head": history[:5]})

    # ---------------- (c) render receives element 0 ----------------------------------------------------------
    seen = []

    class Recorder(Wrapper):
        def render(self, st):
            seen.append(st)
            return "rendered"

    for W in (VmapWrapper, VmapAutoResetWrapper):
        seen.clear()
        try:
            W(Recorder(env)).render(state)
            rep.evaluated(1)
            rep.count("render_checked")
            if len(seen) != 1 or tree_diff(decode(seen[0]), decode(slice_tree(state, 0)), exact=True):
                viol("render_first_element", {"wrapper": W.__name__, "calls": len(seen)})
        except Exception as e:
            viol("render_raises", {"wrapper": W.__name__, "error": repr(e)[:300]})
    E.cleanup()


def floors(tier: str, counters: Dict[str, int], per_env: Dict[str, Dict[str, int]]) -> List[str]:
    missed = []
    for p in ("pattern_none", "pattern_some", "pattern_all"):
        if counters.get(p, 0) < 5:
            missed.append(f"termination pattern {p} seen fewer than 5 times")
    for e in E.ENVS:
        pe = per_env.get(e, {})
        if pe.get("pattern_some", 0) + pe.get("pattern_all", 0) < 1:
            missed.append(f"{e}: no batched step with a terminating element")
        if pe.get("pattern_none", 0) < 1:
            missed.append(f"{e}: no batched step without termination")
    if counters.get("render_unit_axes_checked", 0) < 30:
        missed.append("render on unit-axis configurations not checked")
    if counters.get("render_checked", 0) < 2 * len(E.ENVS):
        missed.append("render not checked on every environment")
    return missed
