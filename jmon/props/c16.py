"""C16 — specs form a consistent algebra: generate, validate, replace, equality, pickling, conversions."""
from __future__ import annotations

import collections
import dataclasses
import json
import os
import pickle
import subprocess
import sys
from typing import Any, Dict, List, NamedTuple

import numpy as np

from jmon import envs as E
from jmon import specmodel as SM
from jmon.common import ROOT, Report, shard_rng

RULE = (
    "seeded generator of Array / BoundedArray / DiscreteArray / MultiDiscreteArray / nested Spec objects (rank 0-3 incl. size-0 "
    "axes, 7 dtypes, scalar and per-element bounds incl. +-inf and min==max, names) and of values at / just inside / just "
    "outside each bound, wrong shape, wrong dtype; each spec goes through ~20 operations relating generate_value, validate, "
    "replace, ==, pickle and the gym / dm_env conversions, judged by an independent NumPy membership model; the real methods "
    "additionally run under icontract contracts (also while the repository's own specs_test.py runs); plus all "
    "observation/action/reward/discount specs of the 23 environments. One evaluation = one operation judged; distinct by the "
    "repr of the spec"
)
ASSUMPTIONS = [
    "NaN values and cross-class equality (Array vs BoundedArray) are outside the statement and not generated",
    "nested specs with different field sets are different kinds",
    "a value is judged after conversion with jnp.asarray, as the statement says",
]
SHARD_TIMEOUT = {"quick": 1200, "thorough": 3000}
DTYPES = ["bool", "int8", "int16", "int32", "uint8", "float16", "float32"]


class NT1(NamedTuple):
    a: Any


class NT2(NamedTuple):
    x: Any
    y: Any


class NT3(NamedTuple):
    p: Any
    q: Any
    r: Any


@dataclasses.dataclass
class DC2:
    u: Any
    v: Any


CONSTRUCTORS = {1: [NT1], 2: [NT2, DC2], 3: [NT3]}


def shards(tier: str, seed: int) -> List[Dict[str, Any]]:
    n = 8 if tier == "quick" else 16
    per = 40 if tier == "quick" else 320
    out = [{"id": f"specs|gen{i}", "kind": "generated", "count": per, "weight": 2.0} for i in range(n)]
    groups = [E.ENVS[i::4] for i in range(4)]
    out += [{"id": f"specs|envs{i}", "kind": "envs", "envs": g, "weight": 3.0} for i, g in enumerate(groups)]
    out.append({"id": "specs|repo_tests_under_contracts", "kind": "pytest", "weight": 3.0})
    return out


# ------------------------------------------------------------------------------------------- generators

def rand_shape(rng):
    rank = int(rng.integers(0, 4))
    return tuple(int(rng.choice([0, 1, 2, 3, 4], p=[0.08, 0.22, 0.3, 0.25, 0.15])) for _ in range(rank))


def dtype_range(dt):
    dt = np.dtype(dt)
    if dt == np.bool_:
        return 0, 1
    if np.issubdtype(dt, np.integer):
        ii = np.iinfo(dt)
        return int(ii.min), int(ii.max)
    return -100.0, 100.0


def rand_bounds(rng, shape, dt):
    """(minimum, maximum) as numpy arrays of dtype dt: scalar or per-element, min <= max."""
    dt = np.dtype(dt)
    per_elem = bool(shape) and int(np.prod(shape)) > 0 and rng.random() < 0.5
    bshape = shape if per_elem else ()
    lo_r, hi_r = dtype_range(dt)
    if dt == np.bool_:
        a = rng.integers(0, 2, size=bshape).astype(bool)
        b = rng.integers(0, 2, size=bshape).astype(bool)
        return np.minimum(a, b), np.maximum(a, b)
    if np.issubdtype(dt, np.integer):
        span_lo, span_hi = max(lo_r, -50), min(hi_r, 50)
        a = rng.integers(span_lo, span_hi + 1, size=bshape)
        b = rng.integers(span_lo, span_hi + 1, size=bshape)
        lo, hi = np.minimum(a, b), np.maximum(a, b)
        if rng.random() < 0.15:
            hi = lo.copy()
        if rng.random() < 0.1:
            lo = np.full(bshape, lo_r)
            hi = np.full(bshape, hi_r)
        return lo.astype(dt), hi.astype(dt)
    a = rng.uniform(-10, 10, size=bshape)
    b = rng.uniform(-10, 10, size=bshape)
    lo, hi = np.minimum(a, b).astype(dt), np.maximum(a, b).astype(dt)
    u = rng.random()
    if u < 0.12:
        lo = np.full(bshape, -np.inf, dt)
    elif u < 0.24:
        hi = np.full(bshape, np.inf, dt)
    elif u < 0.34:
        hi = lo.copy()
    return lo, hi


def rand_leaf_spec(rng, specs, jnp):
    kind = rng.choice(["Array", "BoundedArray", "BoundedArray", "DiscreteArray", "MultiDiscreteArray"])
    name = str(rng.choice(["", "x", "obs.field", "a b"]))
    if kind == "Array":
        return specs.Array(rand_shape(rng), np.dtype(rng.choice(DTYPES)), name)
    if kind == "BoundedArray":
        shape = rand_shape(rng)
        dt = np.dtype(rng.choice(DTYPES))
        lo, hi = rand_bounds(rng, shape, dt)
        return specs.BoundedArray(shape, dt, lo if lo.shape else lo.item(), hi if hi.shape else hi.item(), name)
    if kind == "DiscreteArray":
        dt = np.dtype(rng.choice(["int8", "int16", "int32", "uint8"]))
        n = int(rng.integers(1, min(120, dtype_range(dt)[1]) + 1))
        if rng.random() < 0.15 and dt != np.dtype("int32"):
            n = int(dtype_range(dt)[1]) + 1  # the whole non-negative range of a narrow dtype (byte-valued actions ...)
        return specs.DiscreteArray(n, dt, name)
    rank = int(rng.integers(1, 3))
    shape = tuple(int(rng.integers(1, 4)) for _ in range(rank))
    dt = np.dtype(rng.choice(["int8", "int32", "int16", "uint8"]))
    nv = rng.integers(1, 9, size=shape)
    if rng.random() < 0.3 and dt != np.dtype("int32"):
        # one or all components span the whole non-negative range of the narrow dtype: num_values = dtype max + 1
        full = int(dtype_range(dt)[1]) + 1
        nv = np.where(rng.random(shape) < 0.6, full, nv)
        nv.reshape(-1)[0] = full
    return specs.MultiDiscreteArray(jnp.asarray(nv, jnp.int32), dt, name)


def rand_nested(rng, specs, jnp, depth):
    n = int(rng.integers(1, 4))
    C = CONSTRUCTORS[n][int(rng.integers(len(CONSTRUCTORS[n])))]
    fields = list(C._fields) if hasattr(C, "_fields") else [f.name for f in dataclasses.fields(C)]
    kids = {}
    for f in fields:
        if depth > 1 and rng.random() < 0.35:
            kids[f] = rand_nested(rng, specs, jnp, depth - 1)
        else:
            kids[f] = rand_leaf_spec(rng, specs, jnp)
    return specs.Spec(C, C.__name__ + "Spec", **kids)


def attrs_of(spec, specs) -> Dict[str, Any]:
    """Independent description of a leaf spec from its public attributes."""
    d = {"cls": type(spec).__name__, "shape": tuple(spec.shape), "dtype": str(np.dtype(spec.dtype)), "name": spec.name}
    for a in ("minimum", "maximum", "num_values"):
        if hasattr(spec, a):
            v = np.asarray(getattr(spec, a))
            d[a] = (v.shape, v.tolist())
    return d


def nested_desc(spec, specs):
    ch = SM.spec_children(spec)
    if ch is None:
        return attrs_of(spec, specs)
    return {k: nested_desc(v, specs) for k, v in ch.items()}


def step_outside(v, dt, up: bool):
    """Neighbour of bound v outside the interval, or None if not representable."""
    dt = np.dtype(dt)
    if dt == np.bool_:
        return (True if (up and not v) else (False if (not up and v) else None))
    if np.issubdtype(dt, np.integer):
        lo, hi = dtype_range(dt)
        w = int(v) + (1 if up else -1)
        return w if lo <= w <= hi else None
    if not np.isfinite(v):
        return None
    w = np.nextafter(dt.type(v), dt.type(np.inf if up else -np.inf))
    tiny = np.finfo(dt).tiny
    if w != 0 and abs(w) < tiny:
        # XLA on CPU flushes subnormals to zero, so a subnormal neighbour is not distinguishable from 0 there:
        # use the smallest normal number instead (still "just outside")
        w = dt.type(tiny if up else -tiny)
    return w if np.isfinite(w) else None


def candidate_values(rng, spec, specs):
    """[(value (numpy), tag)] for a leaf spec: members and non-members."""
    shape, dt = tuple(spec.shape), np.dtype(spec.dtype)
    out = []
    size = int(np.prod(shape)) if shape else 1
    has_b = hasattr(spec, "minimum")
    if has_b:
        lo = np.broadcast_to(np.asarray(spec.minimum), shape).astype(dt)
        hi = np.broadcast_to(np.asarray(spec.maximum), shape).astype(dt)
        out.append((lo.copy(), "at_min"))
        out.append((hi.copy(), "at_max"))
        if np.issubdtype(dt, np.floating):
            mid = np.where(np.isfinite(lo) & np.isfinite(hi), (lo.astype(np.float64) + hi.astype(np.float64)) / 2, np.where(np.isfinite(lo), lo, np.where(np.isfinite(hi), hi, 0))).astype(dt)
            mid = np.clip(mid, lo, hi)
            out.append((mid, "inside"))
        elif dt != np.bool_:
            out.append((((lo.astype(np.int64) + hi.astype(np.int64)) // 2).astype(dt), "inside"))
        if size > 0:
            for up, base, tag in ((False, lo, "below_min"), (True, hi, "above_max")):
                idx = tuple(int(rng.integers(0, s)) for s in shape)
                w = step_outside(base[idx] if shape else base[()], dt, up)
                if w is not None:
                    v = base.copy()
                    v[idx if shape else ()] = w
                    out.append((v, tag))
    else:
        lo_r, hi_r = dtype_range(dt)
        if dt == np.bool_:
            out.append((rng.integers(0, 2, size=shape).astype(bool), "any"))
        elif np.issubdtype(dt, np.integer):
            out.append((rng.integers(lo_r, hi_r + 1, size=shape).astype(dt), "any"))
            out.append((np.full(shape, hi_r, dt), "dtype_max"))
        else:
            out.append((rng.uniform(-1e3, 1e3, size=shape).astype(dt), "any"))
            out.append((np.full(shape, np.inf, dt), "inf"))
    base = out[0][0]
    out.append((np.zeros(shape + (2,), dt), "wrong_shape"))
    if shape:
        out.append((np.zeros(shape[:-1], dt), "wrong_rank"))
    other = np.dtype("float32") if dt != np.dtype("float32") else np.dtype("int32")
    out.append((base.astype(other), "wrong_dtype"))
    # plain Python objects (scalars / nested lists): "once converted to JAX arrays" they take JAX's default dtype
    # (int32 / float32 / bool), which may or may not be the declared one - the oracle converts them the same way
    py = []
    for v, tag in list(out)[:4]:
        if v.size <= 64:
            py.append((v.tolist(), "py_" + tag))
            if dt != np.bool_ and np.issubdtype(dt, np.integer):
                # a fractional Python float near an integer member, an out-of-range Python int
                py.append(((v.astype(np.float64) + 0.4).tolist(), "py_fraction_" + tag))
            if dt == np.bool_:
                py.append(((v.astype(np.int64) * 3).tolist(), "py_int_for_bool_" + tag))
    if np.issubdtype(dt, np.unsignedinteger) and size <= 64:
        py.append((np.full(shape, -1, np.int64).tolist(), "py_negative_for_unsigned"))
    out.extend(py)
    return out


def _show(v):
    a = np.asarray(v)
    return a.tolist() if a.size < 20 else str(a.shape)


# ------------------------------------------------------------------------------------------- the operations

class Judge:
    def __init__(self, rep: Report, rng):
        import gymnasium
        import jax.numpy as jnp
        from jumanji import specs

        self.rep, self.rng, self.specs, self.jnp, self.gym = rep, rng, specs, jnp, gymnasium
        self.where = "generated"

    def viol(self, clause, spec, detail, qualifier=""):
        d = {"spec": repr(spec)[:300]}
        d.update(detail)
        self.rep.violation(self.where, "specs", clause, d, replay={"spec_repr": repr(spec)[:600], "where": self.where}, qualifier=qualifier)

    def ev(self, clause):
        self.rep.evaluated(1)
        self.rep.count(clause)

    # ---- leaf ------------------------------------------------------------------------------------------
    def leaf(self, spec):
        specs, jnp, rng = self.specs, self.jnp, self.rng
        cls = type(spec).__name__
        self.rep.digests.add(repr(spec)[:200])
        # 1. generate -> validate
        self.ev("generate_value_validates")
        try:
            g = spec.generate_value()
            r = spec.validate(g)
            if not np.array_equal(np.asarray(r), np.asarray(g)):
                self.viol("generate_value_validates", spec, {"why": "validate changed the generated value"})
            if SM.problems(spec, np.asarray(g)):
                self.viol("generate_value_validates", spec, {"why": "generated value is not a member", "problems": SM.problems(spec, np.asarray(g))[:2]})
        except Exception as e:
            self.viol("generate_value_validates", spec, {"error": repr(e)[:200]}, qualifier=cls)
        # 2. validate accepts exactly the members
        members, outsiders = [], []
        for v, tag in candidate_values(rng, spec, specs):
            try:
                conv = np.asarray(jnp.asarray(v))
            except (OverflowError, TypeError, ValueError):
                continue  # a Python object JAX itself cannot convert: outside the statement
            if tag.startswith("py_"):
                self.rep.count("python_object_values")
            member = not SM.problems(spec, conv)
            self.ev("validate_accepts_iff_member")
            self.rep.count(f"value_{tag}")
            try:
                r = spec.validate(v)
                accepted = True
            except ValueError:
                accepted = False
            except Exception as e:
                self.viol("validate_raises_only_valueerror", spec, {"value": _show(v), "tag": tag, "error": repr(e)[:200]})
                continue
            if accepted != member:
                self.viol("validate_accepts_iff_member", spec, {"value": _show(v), "tag": tag, "accepted": accepted, "member": member},
                          qualifier=("accepts_nonmember" if accepted else "rejects_member") + ":" + tag)
            elif accepted:
                rr = np.asarray(r)
                if rr.shape != conv.shape or rr.dtype != conv.dtype or not np.array_equal(rr, conv, equal_nan=True):
                    self.viol("validate_returns_value", spec, {"tag": tag})
            if not tag.startswith("py_"):
                (members if member else outsiders).append((v, tag))
        # 3. replace
        self.ev("replace_noargs_equal")
        try:
            same = spec.replace()
            if type(same) is not type(spec) or attrs_of(same, specs) != attrs_of(spec, specs):
                self.viol("replace_noargs_equal", spec, {"why": "attributes changed", "got": repr(same)[:200]})
            if not self.eq(same, spec, "replace_noargs_equal"):
                self.viol("replace_noargs_equal", spec, {"why": "replace() != self"})
        except Exception as e:
            self.viol("replace_noargs_equal", spec, {"error": repr(e)[:200]}, qualifier=cls)
        for attr, newval in self.replacements(spec):
            self.ev("replace_changes_only_named")
            try:
                r = spec.replace(**{attr: newval})
            except Exception as e:
                self.viol("replace_changes_only_named", spec, {"attr": attr, "error": repr(e)[:200]}, qualifier="raises:" + attr)
                continue
            exp = attrs_of(spec, specs)
            nv = np.asarray(newval)
            exp[attr] = (nv.shape, nv.tolist()) if attr in ("minimum", "maximum", "num_values") else (tuple(newval) if attr == "shape" else (str(np.dtype(newval)) if attr == "dtype" else newval))
            got = attrs_of(r, specs)
            if attr == "num_values":  # derived attributes follow num_values
                for k in ("shape", "minimum", "maximum"):
                    exp.pop(k, None)
                    got.pop(k, None)
            if attr == "dtype":  # bounds are re-cast to the new dtype: compare their values only
                for k in ("minimum", "maximum"):
                    if k in exp:
                        exp[k] = (exp[k][0], np.asarray(exp[k][1]).astype(np.float64).tolist())
                        got[k] = (got[k][0], np.asarray(got[k][1]).astype(np.float64).tolist())
            if got != exp:
                diff = [k for k in exp if got.get(k) != exp[k]]
                self.viol("replace_changes_only_named", spec, {"attr": attr, "differs": diff}, qualifier=attr + "->" + ",".join(diff))
            # a spec that differs in one attribute must compare unequal (both directions)
            self.ev("eq_distinguishes")
            e1, e2 = self.eq(spec, r, "eq_distinguishes"), self.eq(r, spec, "eq_distinguishes")
            if e1 is None or e2 is None:
                continue
            really_same = attrs_of(r, specs) == attrs_of(spec, specs)
            if e1 != e2:
                self.viol("eq_symmetric", spec, {"other": repr(r)[:200], "a==b": e1, "b==a": e2})
            if (e1 or e2) and not really_same:
                self.viol("eq_distinguishes", spec, {"attr": attr, "other": repr(r)[:200]}, qualifier=attr)
        # 4. equality laws on copies
        self.ev("eq_reflexive")
        if self.eq(spec, spec, "eq_reflexive") is False:
            self.viol("eq_reflexive", spec, {})
        try:
            c1, c2 = self.rebuild(spec), self.rebuild(spec)
            self.ev("eq_transitive")
            ab, bc, ac = self.eq(spec, c1, "eq_copy"), self.eq(c1, c2, "eq_copy"), self.eq(spec, c2, "eq_copy")
            if None not in (ab, bc, ac):
                if not (ab and bc and ac):
                    self.viol("eq_equal_copies", spec, {"a==b": ab, "b==c": bc, "a==c": ac})
        except Exception as e:
            self.viol("rebuild_from_attributes", spec, {"error": repr(e)[:200]})
        # 5. pickle
        self.ev("pickle_roundtrip")
        try:
            p = pickle.loads(pickle.dumps(spec))
            if type(p) is not type(spec) or attrs_of(p, specs) != attrs_of(spec, specs):
                self.viol("pickle_roundtrip", spec, {"why": "attributes changed", "got": repr(p)[:200]})
            elif self.eq(p, spec, "pickle_roundtrip") is False:
                self.viol("pickle_roundtrip", spec, {"why": "unpickled spec != original"})
            for v, tag in (members[:2] + outsiders[:2]):
                a = self.accepts(spec, v)
                b = self.accepts(p, v)
                if a != b:
                    self.viol("pickle_roundtrip", spec, {"why": "validate behaves differently after unpickling", "tag": tag})
            # the copies are complete specs: what *they* generate is a member too (bounds that exclude 0 make a forgotten
            # value constructor visible)
            import copy as _copy

            for how, q in (("pickle", p), ("deepcopy", _copy.deepcopy(spec)), ("replace", spec.replace())):
                self.ev("copy_generates_member")
                gq = q.generate_value()
                probs = SM.problems(spec, np.asarray(gq))
                if probs:
                    self.viol("copy_generates_member", spec, {"copied_by": how, "problems": probs[:2]}, qualifier=how)
        except Exception as e:
            self.viol("pickle_roundtrip", spec, {"error": repr(e)[:200]}, qualifier=cls)
        # 6. conversions
        self.conversions(spec, members, outsiders)

    def accepts(self, spec, v) -> bool:
        try:
            spec.validate(v)
            return True
        except Exception:
            return False

    def eq(self, a, b, ctx):
        """bool(a == b); a raising comparison is reported and returns None."""
        try:
            return bool(a == b)
        except Exception as e:
            cls = type(a).__name__
            kind = "per_element_bounds" if (hasattr(a, "minimum") and (np.asarray(a.minimum).ndim > 0 or np.asarray(b.minimum).ndim > 0) and cls == "BoundedArray") else ("num_values_shape" if cls == "MultiDiscreteArray" else "other")
            self.viol("eq_never_raises", a, {"other": repr(b)[:200], "error": repr(e)[:160], "context": ctx}, qualifier=f"{cls}:{kind}")
            return None

    def rebuild(self, spec):
        specs = self.specs
        if isinstance(spec, specs.DiscreteArray):
            return specs.DiscreteArray(spec.num_values, spec.dtype, spec.name)
        if isinstance(spec, specs.MultiDiscreteArray):
            return specs.MultiDiscreteArray(self.jnp.asarray(np.asarray(spec.num_values)), spec.dtype, spec.name)
        if isinstance(spec, specs.BoundedArray):
            return specs.BoundedArray(spec.shape, spec.dtype, np.asarray(spec.minimum), np.asarray(spec.maximum), spec.name)
        return specs.Array(spec.shape, spec.dtype, spec.name)

    def replacements(self, spec):
        specs, rng, jnp = self.specs, self.rng, self.jnp
        out = [("name", spec.name + "_r")]
        dt = np.dtype(spec.dtype)
        if isinstance(spec, specs.DiscreteArray):
            out.append(("num_values", int(spec.num_values) + 1 if int(spec.num_values) + 1 <= int(dtype_range(dt)[1]) + 1 else max(1, int(spec.num_values) - 1)))
            return out
        if isinstance(spec, specs.MultiDiscreteArray):
            nv = np.asarray(spec.num_values).copy()
            # stay inside the dtype: a component that already spans the whole range is lowered instead of raised
            nv.flat[0] = nv.flat[0] + 1 if int(nv.flat[0]) + 1 <= int(dtype_range(dt)[1]) + 1 else max(1, int(nv.flat[0]) - 1)
            out.append(("num_values", jnp.asarray(nv)))
            return out
        if isinstance(spec, specs.BoundedArray):
            lo, hi = np.asarray(spec.minimum), np.asarray(spec.maximum)
            if dt != np.bool_:
                w = step_outside(lo.flat[0], dt, False) if lo.size else None
                if w is not None:
                    nlo = lo.copy()
                    nlo.flat[0] = w
                    out.append(("minimum", nlo if nlo.shape else nlo[()]))
                w = step_outside(hi.flat[0], dt, True) if hi.size else None
                if w is not None:
                    nhi = hi.copy()
                    nhi.flat[0] = w
                    out.append(("maximum", nhi if nhi.shape else nhi[()]))
            if lo.ndim == 0 and hi.ndim == 0:
                out.append(("shape", tuple(spec.shape) + (2,)))
            return out
        out.append(("shape", tuple(spec.shape) + (3,)))
        out.append(("dtype", np.dtype("int16") if dt != np.dtype("int16") else np.dtype("float32")))
        return out

    def conversions(self, spec, members, outsiders):
        from jumanji import specs as S

        cls = type(spec).__name__
        dt = np.dtype(spec.dtype)
        gspace = dspec = None
        self.ev("gym_conversion")
        try:
            gspace = S.jumanji_specs_to_gym_spaces(spec)
        except Exception as e:
            kind = "unbounded_" + str(dt) if cls == "Array" else cls + "_" + str(dt)
            self.viol("gym_conversion_raises", spec, {"error": repr(e)[:200]}, qualifier=kind)
        self.ev("dm_conversion")
        try:
            dspec = S.jumanji_specs_to_dm_env_specs(spec)
        except Exception as e:
            self.viol("dm_conversion_raises", spec, {"error": repr(e)[:200]}, qualifier=cls + "_" + str(dt))
        for v, tag in members:
            conv = np.asarray(self.jnp.asarray(v))
            if gspace is not None:
                self.ev("gym_contains_valid")
                try:
                    ok = bool(gspace.contains(conv))
                except Exception as e:
                    ok = f"raised {e!r}"[:120]
                if ok is not True:
                    self.viol("gym_contains_valid", spec, {"value": conv.tolist() if conv.size < 20 else str(conv.shape), "tag": tag, "space": repr(gspace)[:200], "result": ok}, qualifier=cls + ":" + tag)
            if dspec is not None:
                self.ev("dm_validates_valid")
                try:
                    dspec.validate(conv)
                except Exception as e:
                    self.viol("dm_validates_valid", spec, {"value": conv.tolist() if conv.size < 20 else str(conv.shape), "tag": tag, "error": repr(e)[:160]}, qualifier=cls + ":" + tag)
        for v, tag in outsiders:
            if tag not in ("below_min", "above_max"):
                continue
            conv = np.asarray(self.jnp.asarray(v))
            if gspace is not None:
                self.ev("gym_rejects_outside")
                try:
                    inside = bool(gspace.contains(conv))
                except Exception:
                    inside = False
                if inside:
                    self.viol("gym_rejects_outside", spec, {"value": conv.tolist() if conv.size < 20 else str(conv.shape), "tag": tag, "space": repr(gspace)[:200]}, qualifier=cls + ":" + tag)
            if dspec is not None:
                self.ev("dm_rejects_outside")
                try:
                    dspec.validate(conv)
                    self.viol("dm_rejects_outside", spec, {"value": conv.tolist() if conv.size < 20 else str(conv.shape), "tag": tag}, qualifier=cls + ":" + tag)
                except Exception:
                    pass
        # samples of converted action-type spaces are valid for the original spec
        is_action_type = isinstance(spec, (S.DiscreteArray, S.MultiDiscreteArray)) or (
            isinstance(spec, S.BoundedArray) and np.all(np.isfinite(np.asarray(spec.minimum, np.float64))) and np.all(np.isfinite(np.asarray(spec.maximum, np.float64))))
        if gspace is not None and is_action_type and dt != np.dtype("float16"):
            gspace.seed(int(self.rng.integers(0, 2**31 - 1)))
            for _ in range(3):
                self.ev("gym_sample_valid")
                try:
                    smp = gspace.sample()
                except Exception as e:
                    self.viol("gym_sample_raises", spec, {"error": repr(e)[:160]}, qualifier=cls + "_" + str(dt))
                    break
                conv = np.asarray(self.jnp.asarray(np.asarray(smp).astype(dt) if np.asarray(smp).dtype != dt else smp))
                probs = SM.problems(spec, conv)
                if probs:
                    self.viol("gym_sample_valid", spec, {"sample": np.asarray(smp).tolist(), "problems": probs[:2]}, qualifier=cls)

    # ---- nested ----------------------------------------------------------------------------------------
    def nested(self, spec, make_twin=None):
        specs = self.specs
        self.rep.digests.add(repr(spec)[:200])
        self.ev("nested_generate_validates")
        try:
            g = spec.generate_value()
            r = spec.validate(g)
            if SM.problems(spec, _np_tree(g)):
                self.viol("nested_generate_validates", spec, {"problems": SM.problems(spec, _np_tree(g))[:2]})
        except Exception as e:
            self.viol("nested_generate_validates", spec, {"error": repr(e)[:200]})
            return
        # structure mismatch / bad leaf must raise
        ch = SM.spec_children(spec)
        vals = SM.value_children(g)
        first = next(iter(ch))
        if SM.spec_children(ch[first]) is None:
            bad = dict(vals)
            bad[first] = np.zeros(tuple(ch[first].shape) + (2,), np.dtype(ch[first].dtype))
            self.ev("nested_bad_leaf_rejected")
            try:
                spec.validate(type(g)(**bad))
                self.viol("nested_bad_leaf_rejected", spec, {"field": first})
            except Exception:
                pass
        # a value whose fields are a strict superset / subset of the spec's children does not have "the structure that matches"
        import collections

        names = list(vals)
        Sup = collections.namedtuple("Sup", names + ["one_field_too_many"])
        self.ev("nested_extra_field_rejected")
        try:
            spec.validate(Sup(**vals, one_field_too_many=np.zeros((), np.float32)))
            self.viol("nested_extra_field_rejected", spec, {"extra": "one_field_too_many"})
        except Exception:
            pass
        if len(names) > 1:
            Sub = collections.namedtuple("Sub", names[:-1])
            self.ev("nested_missing_field_rejected")
            try:
                spec.validate(Sub(**{k: vals[k] for k in names[:-1]}))
                self.viol("nested_missing_field_rejected", spec, {"missing": names[-1]})
            except Exception:
                pass
        self.ev("nested_non_structure_rejected")
        try:
            spec.validate(np.zeros(3))
            self.viol("nested_non_structure_rejected", spec, {})
        except Exception:
            pass
        # replace
        self.ev("nested_replace")
        try:
            same = spec.replace()
            if nested_desc(same, specs) != nested_desc(spec, specs):
                self.viol("replace_noargs_equal", spec, {"why": "nested description changed"})
            if self.eq(same, spec, "nested_replace") is False:
                self.viol("replace_noargs_equal", spec, {"why": "nested replace() != self"})
            if SM.spec_children(ch[first]) is None:
                other_leaf = ch[first].replace(name=ch[first].name + "_n")
                r2 = spec.replace(**{first: other_leaf})
                exp = nested_desc(spec, specs)
                exp[first] = attrs_of(other_leaf, specs)
                if nested_desc(r2, specs) != exp:
                    self.viol("replace_changes_only_named", spec, {"field": first}, qualifier="nested")
                self.ev("nested_eq_iff_children")
                e = self.eq(spec, r2, "nested_eq")
                if e is True:
                    self.viol("nested_eq_iff_children", spec, {"why": "specs with a different child compare equal", "field": first})
        except Exception as e:
            self.viol("nested_replace", spec, {"error": repr(e)[:200]})
        # a nested spec with one more child has different children: it must not compare equal (the library may
        # refuse the comparison by raising; what it must not do is answer True)
        try:
            first_leaf = next(l for _, l in SM.spec_leaves(spec))
            bigger = spec.replace(zz_extra_child=first_leaf)
            self.ev("nested_eq_extra_child")
            for a_, b_ in ((spec, bigger), (bigger, spec)):
                try:
                    ans = bool(a_ == b_)
                except Exception:
                    ans = False
                if ans:
                    self.viol("nested_eq_iff_children", spec, {"why": "a nested spec compares equal to the same spec with one more child"}, qualifier="extra_child")
        except StopIteration:
            pass
        except Exception as e:
            self.rep.notes.append("nested extra-child construction failed: " + repr(e)[:120])
        if make_twin is not None:
            self.ev("nested_eq_iff_children")
            twin = make_twin()
            e = self.eq(spec, twin, "nested_twin")
            if e is False:
                self.viol("nested_eq_iff_children", spec, {"why": "identically built nested specs compare unequal"})
        self.ev("eq_reflexive")
        if self.eq(spec, spec, "nested_reflexive") is False:
            self.viol("eq_reflexive", spec, {})
        self.ev("pickle_roundtrip")
        try:
            p = pickle.loads(pickle.dumps(spec))
            if nested_desc(p, specs) != nested_desc(spec, specs):
                self.viol("pickle_roundtrip", spec, {"why": "nested description changed"})
            elif self.eq(p, spec, "nested_pickle") is False:
                self.viol("pickle_roundtrip", spec, {"why": "unpickled nested spec != original"})
            p.validate(g)
            import copy as _copy

            for how, q in (("pickle", p), ("deepcopy", _copy.deepcopy(spec)), ("replace", spec.replace())):
                self.ev("copy_generates_member")
                gq = q.generate_value()
                try:
                    spec.validate(gq)
                except Exception as e2:
                    self.viol("copy_generates_member", spec, {"copied_by": how, "error": repr(e2)[:200]}, qualifier="nested_" + how)
        except Exception as e:
            self.viol("pickle_roundtrip", spec, {"error": repr(e)[:200]}, qualifier="nested")
        # conversions of the generated value
        from jumanji import specs as S
        from jumanji.wrappers import jumanji_to_gym_obs

        self.ev("nested_conversions")
        try:
            gs = S.jumanji_specs_to_gym_spaces(spec)
            obs = jumanji_to_gym_obs(g)
            if not gs.contains(obs):
                self.viol("gym_contains_valid", spec, {"why": "generated nested value not in converted space"}, qualifier="nested")
        except Exception as e:
            self.viol("gym_conversion_raises", spec, {"error": repr(e)[:200]}, qualifier="nested:" + _gym_raise_kind(spec))
        try:
            ds = S.jumanji_specs_to_dm_env_specs(spec)
            probs = []
            _dm_validate(ds, g, probs)
            if probs:
                self.viol("dm_validates_valid", spec, {"problems": probs[:2]}, qualifier="nested")
        except Exception as e:
            self.viol("dm_conversion_raises", spec, {"error": repr(e)[:200]}, qualifier="nested")


def _gym_raise_kind(spec) -> str:
    from jumanji import specs as S

    kinds = set()
    for path, leaf in SM.spec_leaves(spec):
        if type(leaf) is S.Array and np.dtype(leaf.dtype) in (np.dtype("bool"), np.dtype("uint8")):
            kinds.add("unbounded_" + str(np.dtype(leaf.dtype)))
    return ",".join(sorted(kinds)) or "other"


def _dm_validate(ds, value, probs, path=""):
    if isinstance(ds, dict):
        vals = SM.value_children(value) or {}
        for k, s in ds.items():
            if k not in vals:
                probs.append(f"{path}.{k} missing")
            else:
                _dm_validate(s, vals[k], probs, f"{path}.{k}")
        return
    try:
        ds.validate(np.asarray(value))
    except Exception as e:
        probs.append(f"{path}: {str(e)[:120]}")


def _np_tree(val):
    ch = SM.value_children(val)
    if ch is None:
        return np.asarray(val)
    return {k: _np_tree(v) for k, v in ch.items()}


def run_shard(shard: Dict[str, Any], rep: Report) -> None:
    import jax.numpy as jnp
    from jumanji import specs

    from jmon import contracts

    tier, seed, sid = shard["tier"], shard["seed"], shard["id"]
    rng = shard_rng(seed, sid)
    if shard["kind"] == "pytest":
        run_repo_tests_under_contracts(rep, "jumanji/specs_test.py", ["Array.validate.post", "Array.generate_value.post", "Array.replace.post"])
        return
    contracts.install()
    J = Judge(rep, rng)
    if shard["kind"] == "generated":
        for i in range(shard["count"]):
            try:
                if rng.random() < 0.8:
                    spec = rand_leaf_spec(rng, specs, jnp)
                    J.leaf(spec)
                else:
                    st = rng.bit_generator.state
                    spec = rand_nested(rng, specs, jnp, int(rng.integers(1, 4)))
                    st2 = rng.bit_generator.state

                    def twin(st=st):
                        r2 = np.random.default_rng()
                        r2.bit_generator.state = st
                        return rand_nested(r2, specs, jnp, int(r2.integers(1, 4)))

                    J.nested(spec, make_twin=twin)
                if len(rep.samples) < 3:
                    rep.sample({"spec": repr(spec)[:300]})
            except Exception as e:
                import traceback

                rep.inconclusive.append("harness error on a generated spec: " + traceback.format_exc()[-500:])
                break
    else:
        for name in shard["envs"]:
            J.where = name
            for c in E.configs(name, tier)[: (2 if tier == "quick" else 4)]:
                env = E.build(name, c)
                for sname in ("observation_spec", "action_spec", "reward_spec", "discount_spec"):
                    sp = getattr(env, sname)
                    rep.count("env_specs")
                    rep.env_count(name, "env_specs")
                    if SM.spec_children(sp) is None:
                        J.leaf(sp)
                    else:
                        J.nested(sp, make_twin=lambda e=name, cc=c, s=sname: getattr(E.build(e, cc), s))
                        for path, leaf in SM.spec_leaves(sp):
                            J.leaf(leaf)
            E.cleanup()
    recs, counts = contracts.drain()
    for k, v in counts.items():
        rep.count("contract:" + k, v)
    for r in recs:
        if r["contract"] == "contract_error":
            rep.notes.append("contract error: " + r["detail"][:200])
            continue
        rep.violation("contracts", "specs", "contract_" + r["contract"], r, replay={"where": sid})


def run_repo_tests_under_contracts(rep: Report, test_path: str, expect: List[str]) -> None:
    """Extra workload: the repository's own unit tests with the contracts installed (pytest plugin)."""
    out = os.path.join(ROOT, ".work", f"contracts-{os.getpid()}.json")
    env = dict(os.environ)
    env["JMON_CONTRACT_OUT"] = out
    p = subprocess.run(
        [sys.executable, "-m", "pytest", "-q", "-x", "-p", "no:cacheprovider", "-p", "jmon.pytest_contracts", test_path],
        cwd=os.environ.get("JMON_REPO", "/repo"), env=env, capture_output=True, text=True, timeout=1500,
    )
    rep.count("repo_tests_exit_" + str(p.returncode))
    try:
        data = json.load(open(out))
        os.remove(out)
    except Exception:
        rep.inconclusive.append("pytest-under-contracts produced no record file: " + (p.stdout + p.stderr)[-400:])
        return
    for k, v in data["counts"].items():
        rep.count("contract_in_repo_tests:" + k, v)
        rep.evaluated(v)
    for k in expect:
        if data["counts"].get(k, 0) == 0:
            rep.inconclusive.append(f"contract {k} never evaluated while running {test_path}")
    for r in data["records"]:
        if r["contract"] == "contract_error":
            continue
        rep.violation("contracts", "repo_tests", "contract_" + r["contract"], r, replay={"where": test_path})
    rep.sample({"repo_tests": test_path, "pytest_exit": p.returncode, "contract_evaluations": data["counts"]})
    rep.digests.add("repo_tests:" + test_path)
    rep.digests.add("repo_tests_counts:" + json.dumps(data["counts"], sort_keys=True)[:80])


def floors(tier: str, counters: Dict[str, int], per_env: Dict[str, Dict[str, int]]) -> List[str]:
    missed = []
    need = {"generate_value_validates": 200, "validate_accepts_iff_member": 1000, "replace_changes_only_named": 200, "eq_distinguishes": 200,
            "pickle_roundtrip": 200, "gym_contains_valid": 300, "dm_validates_valid": 300, "gym_rejects_outside": 50, "dm_rejects_outside": 50,
            "gym_sample_valid": 100, "nested_generate_validates": 40, "nested_eq_iff_children": 40, "value_below_min": 40, "value_above_max": 40,
            "contract:Array.validate.post": 500, "env_specs": 4 * len(E.ENVS)}
    for k, n in need.items():
        if counters.get(k, 0) < n:
            missed.append(f"clause {k} evaluated {counters.get(k, 0)} < {n} times")
    return missed
