"""Behavioural fingerprint of `jumanji.make(id)`: specs + one reset + a few deterministic steps, hashed.

`python -m jmon.fingerprint <id> [<id> ...]` prints {"id": digest} for ids made in a *fresh* process (nothing else built before);
`fingerprint(env)` gives the same digest for an environment object made in a busy process (C18: make(id) must not depend on what
the process built earlier)."""
from __future__ import annotations

import json
import sys


def fingerprint(env, steps: int = 8) -> str:
    import hashlib

    import jax
    import numpy as np

    from jmon import actions as A
    from jmon.common import decode, digest_decoded

    h = hashlib.sha256()
    for sname in ("observation_spec", "action_spec", "reward_spec", "discount_spec"):
        h.update(repr(getattr(env, sname)).encode())
    rng = np.random.default_rng(12345)
    name = type(env).__name__
    reset, step = jax.jit(env.reset), jax.jit(env.step)
    for k in (0, 7):
        s, t = reset(jax.random.PRNGKey(k))
        h.update(digest_decoded(decode((s, t))).encode())
        for _ in range(steps):
            if name in A.MASK_KIND:
                a = A.sample_masked(name, env.action_spec, A.get_mask(t), rng)[0]
            else:
                a = A.sample_random(env.action_spec, rng)
            s, t = step(s, A.as_action(env.action_spec, a))
            h.update(digest_decoded(decode((s, t))).encode())
    return h.hexdigest()[:24]


if __name__ == "__main__":
    import jumanji

    out = {}
    for env_id in sys.argv[1:]:
        # one id per process is the clean comparison; several ids are accepted for convenience
        out[env_id] = fingerprint(jumanji.make(env_id))
    print("FINGERPRINT " + json.dumps(out))
