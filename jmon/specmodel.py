"""Independent (NumPy) membership test of a value tree against a jumanji spec tree (used by C01/C15/C16).

Deliberately does not call spec.validate: it reads only the public attributes shape / dtype /
minimum / maximum / name and the nested-spec dictionary.
"""
from __future__ import annotations

from typing import Any, Dict, List, Optional, Tuple

import numpy as np


def spec_children(spec) -> Optional[Dict[str, Any]]:
    from jumanji import specs

    if isinstance(spec, specs.Array):
        return None
    sub = getattr(spec, "_specs", None)
    if sub is None:
        sub = {k: v for k, v in vars(spec).items() if isinstance(v, specs.Spec)}
    return dict(sub)


def value_children(value) -> Optional[Dict[str, Any]]:
    if isinstance(value, tuple) and hasattr(value, "_asdict"):
        return dict(value._asdict())
    if isinstance(value, dict):
        return dict(value)
    if hasattr(value, "__dict__") and not isinstance(value, np.ndarray) and not hasattr(value, "shape"):
        return dict(vars(value))
    return None


def leaf_problems(spec, value, path: str = "") -> List[str]:
    """Problems of one array leaf w.r.t. an Array/BoundedArray spec."""
    out = []
    v = np.asarray(value)
    want_dtype = np.dtype(spec.dtype)
    if tuple(v.shape) != tuple(spec.shape):
        out.append(f"{path}: shape {tuple(v.shape)} != spec {tuple(spec.shape)}")
        return out
    if v.dtype != want_dtype:
        out.append(f"{path}: dtype {v.dtype} != spec {want_dtype}")
        return out
    lo = getattr(spec, "minimum", None)
    hi = getattr(spec, "maximum", None)
    if lo is not None and hi is not None:
        lo = np.asarray(lo)
        hi = np.asarray(hi)
        ok = (np.broadcast_to(lo, v.shape) <= v) & (v <= np.broadcast_to(hi, v.shape))
        if not bool(np.all(ok)):
            bad = np.argwhere(~ok)
            idx = tuple(int(i) for i in bad[0]) if bad.size else ()
            out.append(
                f"{path}: value {v[idx] if v.ndim else v} at index {idx} outside "
                f"[{np.broadcast_to(lo, v.shape)[idx] if v.ndim else lo}, {np.broadcast_to(hi, v.shape)[idx] if v.ndim else hi}]"
            )
    return out


def problems(spec, value, path: str = "") -> List[str]:
    """All reasons why `value` is not a member of `spec` (empty list = member)."""
    sc = spec_children(spec)
    if sc is None:
        vc = value_children(value)
        if vc is not None:
            return [f"{path}: expected an array leaf, found a structure with fields {sorted(vc)}"]
        try:
            return leaf_problems(spec, value, path or "<root>")
        except Exception as e:  # not array-like
            return [f"{path}: cannot be read as an array ({type(e).__name__})"]
    vc = value_children(value)
    if vc is None:
        return [f"{path}: expected a structure with fields {sorted(sc)}, found a leaf"]
    out = []
    if set(sc) != set(vc):
        out.append(f"{path}: fields {sorted(vc)} != spec fields {sorted(sc)}")
    for k in sc:
        if k in vc:
            out.extend(problems(sc[k], vc[k], f"{path}.{k}" if path else k))
    return out


def is_member(spec, value) -> bool:
    return not problems(spec, value)


def spec_leaves(spec, path: str = "") -> List[Tuple[str, Any]]:
    sc = spec_children(spec)
    if sc is None:
        return [(path or "<root>", spec)]
    out = []
    for k, s in sc.items():
        out.extend(spec_leaves(s, f"{path}.{k}" if path else k))
    return out
